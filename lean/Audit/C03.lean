import CalmVerif.Props.C03
import CalmVerif.Props.C03tok
open CalmVerif.Props.C03
#print axioms tables_valid
#print axioms lr_sound
#print axioms lr_deterministic
#check @tables_valid
#check @lr_sound
#check @lr_deterministic
#print axioms grammar_is_reviewed
#check @grammar_is_reviewed
#print axioms binary_levels_chain
#check @binary_levels_chain
#print axioms assignment_conditional_right_assoc
#check @assignment_conditional_right_assoc
#print axioms noin_family_excludes_in
#check @noin_family_excludes_in
#print axioms else_binds_nearest
#check @else_binds_nearest
#print axioms exprstmt_never_starts_with_brace
#check @exprstmt_never_starts_with_brace
#print axioms exprstmt_can_start_with_function_KF03a
#check @exprstmt_can_start_with_function_KF03a
#print axioms CalmVerif.Props.C03tok.lexer_token_types_are_grammar_terminals
#check @CalmVerif.Props.C03tok.lexer_token_types_are_grammar_terminals
#print axioms CalmVerif.Props.C03tok.keywords_and_punctuators_are_terminals
#check @CalmVerif.Props.C03tok.keywords_and_punctuators_are_terminals
#print axioms CalmVerif.Props.C03tok.every_terminal_is_used
#check @CalmVerif.Props.C03tok.every_terminal_is_used
