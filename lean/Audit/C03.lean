import CalmVerif.Props.C03
open CalmVerif.Props.C03
#print axioms tables_valid
#print axioms lr_sound
#print axioms lr_deterministic
#check @tables_valid
#check @lr_sound
#check @lr_deterministic
#print axioms grammar_is_reviewed
#check @grammar_is_reviewed
