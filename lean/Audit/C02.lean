import CalmVerif.Props.C02
import CalmVerif.Props.C01typed2
open CalmVerif.Props.C02

#print axioms minify_ignores_positions
#check @minify_ignores_positions
#print axioms minify_same_structure
#check @minify_same_structure
#print axioms minify_space_handlers
#check @minify_space_handlers
#print axioms space_table_gaps
#check @space_table_gaps
#print axioms space_table_hits
#check @space_table_hits
#print axioms dropped_semis_are_asi_restorable_partial
#check @dropped_semis_are_asi_restorable_partial
#print axioms no_statement_slot_after_optional_space
#check @no_statement_slot_after_optional_space
#print axioms space_body_slots
#check @space_body_slots
#print axioms kf01_witness
#check @kf01_witness
#print axioms fixed_kf02a
#check @fixed_kf02a
#print axioms kf02b_witness
#check @kf02b_witness
#print axioms kf02c_witness
#check @kf02c_witness
#print axioms fixed_kf02d
#check @fixed_kf02d
#print axioms fixed_kf02d_block
#check @fixed_kf02d_block
#print axioms kf02e_witness
#check @kf02e_witness
#print axioms kf02f_witness
#check @kf02f_witness
#print axioms minify_keeps_required_separators
#check @minify_keeps_required_separators
#print axioms first_last_closed_minify
#check @first_last_closed_minify
#print axioms minify0_stream_typed
#check @minify0_stream_typed
#print axioms minify1_stream_typed
#check @minify1_stream_typed
#print axioms direct_adjacent_safe_minify_partial
#check @direct_adjacent_safe_minify_partial
#print axioms separated_pairs_safe_minify_partial
#check @separated_pairs_safe_minify_partial
#print axioms sep_exclusions_witnessed
#check @sep_exclusions_witnessed
#print axioms minify_relexes_partial
#check @minify_relexes_partial
#print axioms CalmVerif.Props.C01typed2.wfVal_canon_invariant
#check @CalmVerif.Props.C01typed2.wfVal_canon_invariant
#print axioms CalmVerif.Props.C01typed2.valAll_canon_invariant
#check @CalmVerif.Props.C01typed2.valAll_canon_invariant
#print axioms CalmVerif.Props.C01typed2.parsed_canon_well_typed'
#check @CalmVerif.Props.C01typed2.parsed_canon_well_typed'
#print axioms CalmVerif.Props.C01typed2.parsed_pretty_stream_typed'
#check @CalmVerif.Props.C01typed2.parsed_pretty_stream_typed'
#print axioms CalmVerif.Props.C01typed2.parsed_minify0_stream_typed'
#check @CalmVerif.Props.C01typed2.parsed_minify0_stream_typed'
#print axioms CalmVerif.Props.C01typed2.parsed_minify1_stream_typed'
#check @CalmVerif.Props.C01typed2.parsed_minify1_stream_typed'
#print axioms CalmVerif.Props.C01typed2.parsed_pretty_relexes_partial'
#check @CalmVerif.Props.C01typed2.parsed_pretty_relexes_partial'
#print axioms CalmVerif.Props.C01typed2.parsed_minify_relexes_partial'
#check @CalmVerif.Props.C01typed2.parsed_minify_relexes_partial'
#print axioms CalmVerif.Props.C01typed2.parsed_pretty_lines_indented''
#check @CalmVerif.Props.C01typed2.parsed_pretty_lines_indented''
#print axioms CalmVerif.Props.C01typed2.parsed_pretty_ends_with_one_newline''
#check @CalmVerif.Props.C01typed2.parsed_pretty_ends_with_one_newline''
