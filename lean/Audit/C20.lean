import CalmVerif.Props.C01tok
import CalmVerif.Props.C01typed2
import CalmVerif.Props.C20
import CalmVerif.Props.C20typed
/- C20 audit: axioms and statements of every property theorem -/
#print axioms CalmVerif.Props.C20.defs_indent_net_zero
#check @CalmVerif.Props.C20.defs_indent_net_zero
#print axioms CalmVerif.Props.C20.indent_table_normalisations_balanced
#check @CalmVerif.Props.C20.indent_table_normalisations_balanced
#print axioms CalmVerif.Props.C20.level_returns_to_zero
#check @CalmVerif.Props.C20.level_returns_to_zero
#print axioms CalmVerif.Props.C20.level_returns_to_zero_any
#check @CalmVerif.Props.C20.level_returns_to_zero_any
#print axioms CalmVerif.Props.C20.empty_indent_string_is_used
#check @CalmVerif.Props.C20.empty_indent_string_is_used
#print axioms CalmVerif.Props.C20.defs_indent_balanced
#check @CalmVerif.Props.C20.defs_indent_balanced
#print axioms CalmVerif.Props.C20.program_ends_with_optional_newline
#check @CalmVerif.Props.C20.program_ends_with_optional_newline
#print axioms CalmVerif.Props.C20.ends_with_one_newline_partial
#check @CalmVerif.Props.C20.ends_with_one_newline_partial
#print axioms CalmVerif.Props.C20.other_lines_are_token_interiors
#check @CalmVerif.Props.C20.other_lines_are_token_interiors
#print axioms CalmVerif.Props.C20.tokens_preserved
#check @CalmVerif.Props.C20.tokens_preserved
#print axioms CalmVerif.Props.C20.defs_bracket_structure
#check @CalmVerif.Props.C20.defs_bracket_structure
#print axioms CalmVerif.Props.C20.chunk_stream_structure
#check @CalmVerif.Props.C20.chunk_stream_structure
#print axioms CalmVerif.Props.C20.level_is_structural_depth
#check @CalmVerif.Props.C20.level_is_structural_depth
#print axioms CalmVerif.Props.C20.level_is_depth_partial
#check @CalmVerif.Props.C20.level_is_depth_partial
#print axioms CalmVerif.Props.C20.newline_handler_indents_by_level
#check @CalmVerif.Props.C20.newline_handler_indents_by_level
#print axioms CalmVerif.Props.C20.fuel_is_only_a_recursion_device
#check @CalmVerif.Props.C20.fuel_is_only_a_recursion_device
#print axioms CalmVerif.Props.C20.indent_table_facts
#check @CalmVerif.Props.C20.indent_table_facts
#print axioms CalmVerif.Props.C20.pretty_chunks_line
#check @CalmVerif.Props.C20.pretty_chunks_line
#print axioms CalmVerif.Props.C20.pretty_lines_indented
#check @CalmVerif.Props.C20.pretty_lines_indented
#print axioms CalmVerif.Props.C20.pretty_text_ends_with_one_newline
#check @CalmVerif.Props.C20.pretty_text_ends_with_one_newline
#print axioms CalmVerif.Props.C20.line_certificate_closed
#check @CalmVerif.Props.C20.line_certificate_closed
#print axioms CalmVerif.Props.C20.typed_line_starts_stable
#check @CalmVerif.Props.C20.typed_line_starts_stable
#print axioms CalmVerif.Props.C20.typed_program_tail_safe
#check @CalmVerif.Props.C20.typed_program_tail_safe
#print axioms CalmVerif.Props.C20.typed_tokens_edge
#check @CalmVerif.Props.C20.typed_tokens_edge
#print axioms CalmVerif.Props.C20.pretty_lines_indented_typed
#check @CalmVerif.Props.C20.pretty_lines_indented_typed
#print axioms CalmVerif.Props.C20.pretty_text_ends_with_one_newline_typed
#check @CalmVerif.Props.C20.pretty_text_ends_with_one_newline_typed
#print axioms CalmVerif.Props.C20typed.parsed_pretty_lines_indented
#check @CalmVerif.Props.C20typed.parsed_pretty_lines_indented
#print axioms CalmVerif.Props.C20typed.parsed_pretty_ends_with_one_newline
#check @CalmVerif.Props.C20typed.parsed_pretty_ends_with_one_newline
#print axioms CalmVerif.Props.C01tok.token_texts_ok
#check @CalmVerif.Props.C01tok.token_texts_ok
#print axioms CalmVerif.Props.C01tok.parsed_pretty_lines_indented'
#check @CalmVerif.Props.C01tok.parsed_pretty_lines_indented'
#print axioms CalmVerif.Props.C01tok.parsed_pretty_ends_with_one_newline'
#check @CalmVerif.Props.C01tok.parsed_pretty_ends_with_one_newline'
#print axioms CalmVerif.Props.C01typed2.parsed_pretty_lines_indented''
#check @CalmVerif.Props.C01typed2.parsed_pretty_lines_indented''
#print axioms CalmVerif.Props.C01typed2.parsed_pretty_ends_with_one_newline''
#check @CalmVerif.Props.C01typed2.parsed_pretty_ends_with_one_newline''
