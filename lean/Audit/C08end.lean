import CalmVerif.Props.C08end
open CalmVerif.Props.C08end

#print axioms attr_names_ok
#check @attr_names_ok
#print axioms parsed_tree_designates
#check @parsed_tree_designates
#print axioms printed_positions_point_at_source_tokens
#check @printed_positions_point_at_source_tokens
#print axioms sourcemap_segments_point_at_source_tokens
#check @sourcemap_segments_point_at_source_tokens
