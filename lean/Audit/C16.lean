import CalmVerif.Props.C16
import CalmVerif.Props.C16order
open CalmVerif.Props.C16 CalmVerif.Props.C16order
#print axioms children_cover
#check @children_cover
#print axioms comments_never_returned
#check @comments_never_returned
#print axioms walk_is_preorder_partial
#check @walk_is_preorder_partial
#print axioms walk_is_preorder_partial_gen
#check @walk_is_preorder_partial_gen
#print axioms walk_exactly_once_partial
#check @walk_exactly_once_partial
#print axioms walk_parents_first_partial
#check @walk_parents_first_partial
#print axioms walk_deterministic
#check @walk_deterministic
#print axioms filter_is_walk_filter
#check @filter_is_walk_filter
#print axioms extract_nth
#check @extract_nth
#print axioms extract_negative
#check @extract_negative
#print axioms witness_wf
#check @witness_wf
#print axioms comments_not_walked
#check @comments_not_walked
#print axioms walk_is_preorder_full_false
#check @walk_is_preorder_full_false
#print axioms walk_fuel_suffices
#check @walk_fuel_suffices
#print axioms children_in_print_order
#check @children_in_print_order
#print axioms children_in_print_order_nonvacuous
#check @children_in_print_order_nonvacuous
#print axioms old_dowhile_order_rejected
#check @old_dowhile_order_rejected
#print axioms definitions_read_every_child_once
#check @definitions_read_every_child_once
