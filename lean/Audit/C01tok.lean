import CalmVerif.Props.C01tok
open CalmVerif.Props.C01tok
#print axioms token_texts_ok
#check @token_texts_ok
#print axioms parsed_tree_well_typed'
#check @parsed_tree_well_typed'
#print axioms parsed_pretty_lines_indented'
#check @parsed_pretty_lines_indented'
#print axioms parsed_pretty_ends_with_one_newline'
#check @parsed_pretty_ends_with_one_newline'
