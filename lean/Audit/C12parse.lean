import CalmVerif.Props.C12parse
open CalmVerif.Props.C12parse
#print axioms parse_lexer_errors_are_syntax_errors
#check @parse_lexer_errors_are_syntax_errors
#print axioms parse_no_lexer_internal
#check @parse_no_lexer_internal
#print axioms parse_no_lexer_out_of_fuel
#check @parse_no_lexer_out_of_fuel
#print axioms parse_no_lexer_model_gap
#check @parse_no_lexer_model_gap
#print axioms p_error_raises_only_syntax_errors
#check @p_error_raises_only_syntax_errors
#print axioms run_lexer_errors_are_syntax_errors
#check @run_lexer_errors_are_syntax_errors
