import CalmVerif.Props.C01
import CalmVerif.Props.C01typed
import CalmVerif.Props.C01tok
import CalmVerif.Props.C01typed2
open CalmVerif.Props.C01

#print axioms print_ignores_positions
#check @print_ignores_positions
#print axioms print_ignores_positions_any
#check @print_ignores_positions_any
#print axioms print_fuel_irrelevant
#check @print_fuel_irrelevant
#print axioms pretty_fixpoint
#check @pretty_fixpoint
#print axioms space_table_word_pairs
#check @space_table_word_pairs
#print axioms pretty_binop_spaces_unconditional
#check @pretty_binop_spaces_unconditional
#print axioms dotaccessor_has_no_separator
#check @dotaccessor_has_no_separator
#print axioms kf01_witness
#check @kf01_witness
#print axioms token_classes_consistent
#check @token_classes_consistent
#print axioms first_last_closed_pretty
#check @first_last_closed_pretty
#print axioms pretty_stream_typed
#check @pretty_stream_typed
#print axioms direct_adjacent_safe_pretty_partial
#check @direct_adjacent_safe_pretty_partial
#print axioms direct_adjacent_safe_meaning
#check @direct_adjacent_safe_meaning
#print axioms token_codes_faithful
#check @token_codes_faithful
#print axioms separated_pairs_safe_pretty_partial
#check @separated_pairs_safe_pretty_partial
#print axioms no_unit_tuples
#check @no_unit_tuples
#print axioms pretty_relexes_partial
#check @pretty_relexes_partial
#print axioms CalmVerif.Props.C01typed.actions_typed
#check @CalmVerif.Props.C01typed.actions_typed
#print axioms CalmVerif.Props.C01typed.accept_entry_ok
#check @CalmVerif.Props.C01typed.accept_entry_ok
#print axioms CalmVerif.Props.C01typed.fixed_spellings_ok
#check @CalmVerif.Props.C01typed.fixed_spellings_ok
#print axioms CalmVerif.Props.C01typed.parsed_tree_well_typed
#check @CalmVerif.Props.C01typed.parsed_tree_well_typed
#print axioms CalmVerif.Props.C01typed.parsed_good
#check @CalmVerif.Props.C01typed.parsed_good
#print axioms CalmVerif.Props.C01tok.token_texts_ok
#check @CalmVerif.Props.C01tok.token_texts_ok
#print axioms CalmVerif.Props.C01tok.parsed_tree_well_typed'
#check @CalmVerif.Props.C01tok.parsed_tree_well_typed'
#print axioms CalmVerif.Props.C01tok.parsed_pretty_lines_indented'
#check @CalmVerif.Props.C01tok.parsed_pretty_lines_indented'
#print axioms CalmVerif.Props.C01tok.parsed_pretty_ends_with_one_newline'
#check @CalmVerif.Props.C01tok.parsed_pretty_ends_with_one_newline'
#print axioms CalmVerif.Props.C01typed2.wfVal_canon_invariant
#check @CalmVerif.Props.C01typed2.wfVal_canon_invariant
#print axioms CalmVerif.Props.C01typed2.valAll_canon_invariant
#check @CalmVerif.Props.C01typed2.valAll_canon_invariant
#print axioms CalmVerif.Props.C01typed2.parsed_canon_well_typed'
#check @CalmVerif.Props.C01typed2.parsed_canon_well_typed'
#print axioms CalmVerif.Props.C01typed2.parsed_pretty_stream_typed'
#check @CalmVerif.Props.C01typed2.parsed_pretty_stream_typed'
#print axioms CalmVerif.Props.C01typed2.parsed_minify0_stream_typed'
#check @CalmVerif.Props.C01typed2.parsed_minify0_stream_typed'
#print axioms CalmVerif.Props.C01typed2.parsed_minify1_stream_typed'
#check @CalmVerif.Props.C01typed2.parsed_minify1_stream_typed'
#print axioms CalmVerif.Props.C01typed2.parsed_pretty_relexes_partial'
#check @CalmVerif.Props.C01typed2.parsed_pretty_relexes_partial'
#print axioms CalmVerif.Props.C01typed2.parsed_minify_relexes_partial'
#check @CalmVerif.Props.C01typed2.parsed_minify_relexes_partial'
#print axioms CalmVerif.Props.C01typed2.parsed_pretty_lines_indented''
#check @CalmVerif.Props.C01typed2.parsed_pretty_lines_indented''
#print axioms CalmVerif.Props.C01typed2.parsed_pretty_ends_with_one_newline''
#check @CalmVerif.Props.C01typed2.parsed_pretty_ends_with_one_newline''
