import CalmVerif.Props.C01typed
open CalmVerif.Props.C01typed

#print axioms actions_typed
#check @actions_typed
#print axioms accept_entry_ok
#check @accept_entry_ok
#print axioms fixed_spellings_ok
#check @fixed_spellings_ok
#print axioms parsed_tree_well_typed
#check @parsed_tree_well_typed
#print axioms parsed_good
#check @parsed_good
