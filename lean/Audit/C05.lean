import CalmVerif.Props.C05
import CalmVerif.Props.C05hdr
open CalmVerif.Props.C05 CalmVerif.Props.C05lex
#print axioms simple_tokens_never_regex
#print axioms punctuators_never_div
#print axioms rparen_states_exclusive
#print axioms div_allowed_iff
#print axioms div_decision
#print axioms div_decision_independent_of_position
#check @simple_tokens_never_regex
#check @punctuators_never_div
#check @rparen_states_exclusive
#check @div_allowed_iff
#check @div_decision
#check @div_decision_independent_of_position
#print axioms CalmVerif.Props.C05.slash_classes_exclusive
#check @CalmVerif.Props.C05.slash_classes_exclusive
#print axioms CalmVerif.Props.C05.slash_reading_is_dictated
#check @CalmVerif.Props.C05.slash_reading_is_dictated
#print axioms CalmVerif.Props.C05hdr.header_keywords_are_grammar_headers
#check @CalmVerif.Props.C05hdr.header_keywords_are_grammar_headers
#print axioms CalmVerif.Props.C05hdr.grammar_header_keywords_value
#check @CalmVerif.Props.C05hdr.grammar_header_keywords_value
#print axioms CalmVerif.Props.C05hdr.kf05a_table_rejected
#check @CalmVerif.Props.C05hdr.kf05a_table_rejected
#print axioms CalmVerif.Props.C05hdr.extra_keyword_rejected
#check @CalmVerif.Props.C05hdr.extra_keyword_rejected
