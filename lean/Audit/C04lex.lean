import CalmVerif.Props.C04lex
open CalmVerif.Props.C04lex
#print axioms auto_semi_decision
#check @auto_semi_decision
#print axioms auto_semi_effect
#check @auto_semi_effect
#print axioms pushed_back_token_is_next
#check @pushed_back_token_is_next
