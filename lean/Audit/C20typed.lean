import CalmVerif.Props.C20typed
open CalmVerif.Props.C20typed

#print axioms parsed_pretty_lines_indented
#check @parsed_pretty_lines_indented
#print axioms parsed_pretty_ends_with_one_newline
#check @parsed_pretty_ends_with_one_newline
