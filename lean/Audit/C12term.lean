import CalmVerif.Props.C12term
open CalmVerif.Props.C12term
#print axioms ranks_ok
#print axioms lr_steps_bounded
#print axioms lr_out_of_fuel_bounded
#print axioms lr_fuel_suffices_partial
#print axioms list_source_bound
#print axioms lr_terminates_on_token_lists
#print axioms auto_term_is_autosemi
#print axioms auto_ok
#print axioms no_autosemi_shift_after_autosemi
#print axioms parser_source_bound
#print axioms sem_ty_autosemi
#print axioms parse_terminates
#print axioms parse_never_out_of_fuel_partial
#check @ranks_ok
#check @lr_steps_bounded
#check @lr_out_of_fuel_bounded
#check @lr_fuel_suffices_partial
#check @list_source_bound
#check @lr_terminates_on_token_lists
#check @auto_term_is_autosemi
#check @auto_ok
#check @no_autosemi_shift_after_autosemi
#check @parser_source_bound
#check @sem_ty_autosemi
#check @parse_terminates
#check @parse_never_out_of_fuel_partial
