import CalmVerif.Props.C13
open CalmVerif.Props.C13

#print axioms token_comments_transparent
#print axioms auto_semi_comments_transparent
#print axioms backtracked_token_comments_transparent
#print axioms raise_syntax_error_comments_transparent
#print axioms p_error_comments_transparent
#print axioms lr_run_comments_transparent
#print axioms comments_transparent_partial
#print axioms actions_transparent
#print axioms comments_transparent
#print axioms comments_faithful_lexer
#print axioms hidden_from_init
#print axioms comment_ok_verbatim
#print axioms set_comments_verbatim
#print axioms no_comment_attached_twice
#print axioms actions_never_read_comments
#print axioms action_slots_used_once
#print axioms actions_read_plain_attributes
#print axioms comments_attached_once
#print axioms shifted_comments_are_source_comments
#print axioms comments_faithful
#print axioms comments_in_source_order_partial
#print axioms shifted_ordered
#print axioms comments_in_source_order
#print axioms attached_comment_offsets_increasing
#print axioms comments_faithful_ordered
#print axioms line_comment_followed_by_newline
#print axioms comment_carriers_print_comments
#print axioms fixed_kf13c_case_block_prints_comments
#print axioms restricted_production_split_witness
#print axioms fixed_kf13c_witness

#check @token_comments_transparent
#check @auto_semi_comments_transparent
#check @backtracked_token_comments_transparent
#check @raise_syntax_error_comments_transparent
#check @p_error_comments_transparent
#check @lr_run_comments_transparent
#check @comments_transparent_partial
#check @actions_transparent
#check @comments_transparent
#check @comments_faithful_lexer
#check @hidden_from_init
#check @comment_ok_verbatim
#check @set_comments_verbatim
#check @no_comment_attached_twice
#check @actions_never_read_comments
#check @action_slots_used_once
#check @actions_read_plain_attributes
#check @comments_attached_once
#check @shifted_comments_are_source_comments
#check @comments_faithful
#check @comments_in_source_order_partial
#check @shifted_ordered
#check @comments_in_source_order
#check @attached_comment_offsets_increasing
#check @comments_faithful_ordered
#check @line_comment_followed_by_newline
#check @comment_carriers_print_comments
#check @fixed_kf13c_case_block_prints_comments
#check @restricted_production_split_witness
#check @fixed_kf13c_witness
