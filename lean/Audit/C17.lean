import CalmVerif.Props.C17
open CalmVerif.Props.C17
#print axioms tables_equal_fresh
#print axioms tables_equal_reopt
#print axioms lexer_rules_equal
#print axioms tables_same
#print axioms configs_agree
#check @tables_equal_fresh
#check @tables_equal_reopt
#check @lexer_rules_equal
#check @tables_same
#check @configs_agree
