import CalmVerif.Props.C11
import CalmVerif.Props.C11comp
open CalmVerif.Props.C11
#print axioms actions_anchor_ok
#print axioms actions_cover_grammar
#check @actions_anchor_ok
#check @actions_cover_grammar

open CalmVerif.Props.C11comp

#print axioms extra_ok
#check @extra_ok
#print axioms only_element_list_untracked
#check @only_element_list_untracked
#print axioms tracking_invariant
#check @tracking_invariant
#print axioms empty_production_pos
#check @empty_production_pos
#print axioms composition
#check @composition
#print axioms built_nodes_cover
#check @built_nodes_cover
#print axioms node_anchor_ok
#check @node_anchor_ok
#print axioms tokmap_entries_ok
#check @tokmap_entries_ok
#print axioms elision_runs_ok
#check @elision_runs_ok
#print axioms node_positions_summary
#check @node_positions_summary
#print axioms parse_configs_reachable
#check @parse_configs_reachable

