import CalmVerif.Props.C11
import CalmVerif.Props.C11comp
import CalmVerif.Props.C11tok
open CalmVerif.Props.C11
#print axioms actions_anchor_ok
#print axioms actions_cover_grammar
#check @actions_anchor_ok
#check @actions_cover_grammar

open CalmVerif.Props.C11comp

#print axioms extra_ok
#check @extra_ok
#print axioms only_element_list_untracked
#check @only_element_list_untracked
#print axioms tracking_invariant
#check @tracking_invariant
#print axioms empty_production_pos
#check @empty_production_pos
#print axioms composition
#check @composition
#print axioms built_nodes_cover
#check @built_nodes_cover
#print axioms node_anchor_ok
#check @node_anchor_ok
#print axioms tokmap_entries_ok
#check @tokmap_entries_ok
#print axioms elision_runs_ok
#check @elision_runs_ok
#print axioms node_positions_summary
#check @node_positions_summary
#print axioms parse_configs_reachable
#check @parse_configs_reachable

#print axioms CalmVerif.Props.C11tok.config_good
#check @CalmVerif.Props.C11tok.config_good
#print axioms CalmVerif.Props.C11tok.lexer_state_reachable
#check @CalmVerif.Props.C11tok.lexer_state_reachable
#print axioms CalmVerif.Props.C11tok.line_table_prefix_stable
#check @CalmVerif.Props.C11tok.line_table_prefix_stable
#print axioms CalmVerif.Props.C11tok.token_column_stable
#check @CalmVerif.Props.C11tok.token_column_stable
#print axioms CalmVerif.Props.C11tok.shifted_tokens_tokOK
#check @CalmVerif.Props.C11tok.shifted_tokens_tokOK
#print axioms CalmVerif.Props.C11tok.shifted_tokens_spellingOK
#check @CalmVerif.Props.C11tok.shifted_tokens_spellingOK
#print axioms CalmVerif.Props.C11tok.node_positions_ok
#check @CalmVerif.Props.C11tok.node_positions_ok
#print axioms CalmVerif.Props.C11tok.elision_runs_counted
#check @CalmVerif.Props.C11tok.elision_runs_counted
#print axioms CalmVerif.Proofs.LinesBridge.lineCol_bridge
#check @CalmVerif.Proofs.LinesBridge.lineCol_bridge
#print axioms CalmVerif.Proofs.LexerSpelling.term_spelling_from_lexer_tables
#check @CalmVerif.Proofs.LexerSpelling.term_spelling_from_lexer_tables
#print axioms CalmVerif.Proofs.ParserDrive.pinv_rewind
#check @CalmVerif.Proofs.ParserDrive.pinv_rewind
