import CalmVerif.Props.C18

#print axioms CalmVerif.IO.write_closes_exactly_once
#print axioms CalmVerif.IO.read_closes_exactly_once
#print axioms CalmVerif.IO.read_relabels
#print axioms CalmVerif.IO.read_sets_sourcepath
#print axioms CalmVerif.IO.write_text_is_printer_text
#print axioms CalmVerif.IO.write_content_is_printer_text
#print axioms CalmVerif.IO.map_text_is_lowlevel_map

#check @CalmVerif.IO.write_closes_exactly_once
#check @CalmVerif.IO.read_closes_exactly_once
#check @CalmVerif.IO.read_relabels
#check @CalmVerif.IO.read_sets_sourcepath
#check @CalmVerif.IO.write_text_is_printer_text
#check @CalmVerif.IO.write_content_is_printer_text
#check @CalmVerif.IO.map_text_is_lowlevel_map
#print axioms CalmVerif.IO.url_verbatim_unless_both_absolute
#check @CalmVerif.IO.url_verbatim_unless_both_absolute
