import CalmVerif.Props.C19
open CalmVerif.Props.C19

#print axioms string_value_agree_partial
#check @string_value_agree_partial
#print axioms string_value_agree_refuted_solidus
#check @string_value_agree_refuted_solidus
#print axioms string_value_agree_refuted_surrogates
#check @string_value_agree_refuted_surrogates
#print axioms number_literal_agree
#check @number_literal_agree
#print axioms number_value_agree
#check @number_value_agree
#print axioms minus_agree
#check @minus_agree
#print axioms extract_of_walk
#check @extract_of_walk
#print axioms extract_json_partial
#check @extract_json_partial
#print axioms extract_json_refuted_solidus
#check @extract_json_refuted_solidus
#print axioms extract_json_refuted_surrogates
#check @extract_json_refuted_surrogates
