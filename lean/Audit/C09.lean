import CalmVerif.Props.C09
import CalmVerif.Props.C09C10
open CalmVerif.Props.C09
#print axioms write_decodes
#check @write_decodes
#print axioms write_decodes_normalized
#check @write_decodes_normalized
#print axioms indices_in_range
#check @indices_in_range
#print axioms gen_columns_monotone
#check @gen_columns_monotone
#print axioms line_count
#check @line_count
#print axioms write_WFMappings
#check @write_WFMappings
#print axioms multi_source
#check @multi_source
#print axioms written_text
#check @written_text

#print axioms CalmVerif.Props.C09C10.written_mappings_string_roundtrip
#check @CalmVerif.Props.C09C10.written_mappings_string_roundtrip
