import CalmVerif.Props.C09
#print axioms CalmVerif.Props.C09.stub
#check @CalmVerif.Props.C09.stub
