import CalmVerif.Props.C04
open CalmVerif.Props.C04 CalmVerif.Props.C04lex
#print axioms asi_grammar_facts
#print axioms asi_twins_same_tree
#print axioms auto_semi_decision
#print axioms auto_semi_effect
#print axioms pushed_back_token_is_next
#check @asi_grammar_facts
#check @asi_twins_same_tree
#check @auto_semi_decision
#check @auto_semi_effect
#check @pushed_back_token_is_next
