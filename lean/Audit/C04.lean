import CalmVerif.Props.C04
import CalmVerif.Props.C04parse
open CalmVerif.Props.C04 CalmVerif.Props.C04lex
#print axioms asi_grammar_facts
#print axioms asi_twins_same_tree
#print axioms auto_semi_decision
#print axioms auto_semi_effect
#print axioms pushed_back_token_is_next
#check @asi_grammar_facts
#check @asi_twins_same_tree
#check @auto_semi_decision
#check @auto_semi_effect
#check @pushed_back_token_is_next
#print axioms CalmVerif.Props.C04parse.autosemi_justified
#check @CalmVerif.Props.C04parse.autosemi_justified
#print axioms CalmVerif.Props.C04parse.autosemi_is_exactly_the_inserted_tokens
#check @CalmVerif.Props.C04parse.autosemi_is_exactly_the_inserted_tokens
#print axioms CalmVerif.Props.C04parse.model_condition_implies_es5
#check @CalmVerif.Props.C04parse.model_condition_implies_es5
#print axioms CalmVerif.Props.C04parse.offending_has_line_terminator
#check @CalmVerif.Props.C04parse.offending_has_line_terminator
