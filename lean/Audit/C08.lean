import CalmVerif.Props.C11
open CalmVerif.Props.C11
#print axioms actions_anchor_ok
#print axioms actions_cover_grammar
#check @actions_anchor_ok
#check @actions_cover_grammar
