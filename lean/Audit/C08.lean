import CalmVerif.Props.C08
import CalmVerif.Props.C08end
/- C08 audit (unparser side): axioms and statements of every property theorem -/
#print axioms CalmVerif.Props.C08.space_fragments_unpositioned
#check @CalmVerif.Props.C08.space_fragments_unpositioned
#print axioms CalmVerif.Props.C08.resolve_is_hook_or_absent
#check @CalmVerif.Props.C08.resolve_is_hook_or_absent
#print axioms CalmVerif.Props.C08.mkCfg_resolveStr
#check @CalmVerif.Props.C08.mkCfg_resolveStr
#print axioms CalmVerif.Props.C08.fragment_position_from_tokmap
#check @CalmVerif.Props.C08.fragment_position_from_tokmap
#print axioms CalmVerif.Props.C08.fragment_source_is_stack_top
#check @CalmVerif.Props.C08.fragment_source_is_stack_top
#print axioms CalmVerif.Props.C08.fragments_of_all_rule_sets
#check @CalmVerif.Props.C08.fragments_of_all_rule_sets
#print axioms CalmVerif.Props.C08end.attr_names_ok
#check @CalmVerif.Props.C08end.attr_names_ok
#print axioms CalmVerif.Props.C08end.parsed_tree_designates
#check @CalmVerif.Props.C08end.parsed_tree_designates
#print axioms CalmVerif.Props.C08end.printed_positions_point_at_source_tokens
#check @CalmVerif.Props.C08end.printed_positions_point_at_source_tokens
#print axioms CalmVerif.Props.C08end.sourcemap_segments_point_at_source_tokens
#check @CalmVerif.Props.C08end.sourcemap_segments_point_at_source_tokens
