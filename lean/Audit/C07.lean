import CalmVerif.Props.C07
import CalmVerif.Props.C07kw
open CalmVerif.Props.C07

#print axioms generated_not_reserved
#check @generated_not_reserved
#print axioms generated_not_reserved_tree
#check @generated_not_reserved_tree
#print axioms minify_generated_not_reserved
#check @minify_generated_not_reserved
#print axioms generator_fresh
#check @generator_fresh
#print axioms generator_fresh_any
#check @generator_fresh_any
#print axioms remap_tables_capture_free
#check @remap_tables_capture_free
#print axioms top_level_unchanged
#check @top_level_unchanged
#print axioms prewalk_leak_invariant
#check @prewalk_leak_invariant
#print axioms remap_injective_visible
#check @remap_injective_visible
#print axioms scopeOK_spelled
#check @scopeOK_spelled
#print axioms only_identifiers_change_walk
#check @only_identifiers_change_walk
#print axioms identifier_fragment_shape
#check @identifier_fragment_shape
#print axioms kf07a_scopeAgree_fails
#check @kf07a_scopeAgree_fails
#print axioms kf07a_binding_not_preserved
#check @kf07a_binding_not_preserved
#print axioms kf07b_scopeAgree_fails
#check @kf07b_scopeAgree_fails
#print axioms kf07b_binding_not_preserved
#check @kf07b_binding_not_preserved
#print axioms kf07c_scopeAgree_fails
#check @kf07c_scopeAgree_fails
#print axioms kf07c_binding_not_preserved
#check @kf07c_binding_not_preserved
#print axioms ok_program_preserved
#check @ok_program_preserved
#print axioms only_identifiers_change
#check @only_identifiers_change
#print axioms only_identifiers_change_printer
#check @only_identifiers_change_printer
#print axioms fragSim_spelled
#check @fragSim_spelled
#print axioms resolution_commutes_with_renaming
#check @resolution_commutes_with_renaming
#print axioms binding_preserved_partial
#check @binding_preserved_partial
#print axioms binding_preserved_pointwise
#check @binding_preserved_pointwise
#print axioms kf07a_excluded
#check @kf07a_excluded
#print axioms kf07b_excluded
#check @kf07b_excluded
#print axioms kf07c_excluded
#check @kf07c_excluded
#print axioms ok_program_aligned
#check @ok_program_aligned
#print axioms ok_program_keysPlain
#check @ok_program_keysPlain
#print axioms arguments_regression
#check @arguments_regression
#print axioms capture_free_of_walk_facts
#check @capture_free_of_walk_facts
#print axioms binding_preserved_simple_partial
#check @binding_preserved_simple_partial
#print axioms ok_program_facts
#check @ok_program_facts
#print axioms aligned_of_walk_facts
#check @aligned_of_walk_facts
#print axioms catch_program_facts
#check @catch_program_facts
#print axioms self_program_facts
#check @self_program_facts
#print axioms label_program_facts
#check @label_program_facts
#print axioms binding_preserved_of_walk_facts_partial
#check @binding_preserved_of_walk_facts_partial
#print axioms CalmVerif.Props.C07kw.obfuscator_reserved_list_is_lexer_keywords
#check @CalmVerif.Props.C07kw.obfuscator_reserved_list_is_lexer_keywords
#print axioms CalmVerif.Props.C07kw.lexer_keywords_are_es5_reserved_words
#check @CalmVerif.Props.C07kw.lexer_keywords_are_es5_reserved_words
#print axioms CalmVerif.Props.C07kw.rules_obfuscate_default_list_is_empty
#check @CalmVerif.Props.C07kw.rules_obfuscate_default_list_is_empty
