import CalmVerif.Props.C07
open CalmVerif.Props.C07

#print axioms generated_not_reserved
#check @generated_not_reserved
#print axioms generated_not_reserved_tree
#check @generated_not_reserved_tree
#print axioms minify_generated_not_reserved
#check @minify_generated_not_reserved
#print axioms generator_fresh
#check @generator_fresh
#print axioms generator_fresh_any
#check @generator_fresh_any
#print axioms remap_tables_capture_free
#check @remap_tables_capture_free
#print axioms top_level_unchanged
#check @top_level_unchanged
