import CalmVerif.Props.C12
open CalmVerif.Props.C12
#print axioms lexer_terminates
#print axioms token_terminates
#print axioms lr_run_total
#print axioms outcomes_are_explicit
#check @lexer_terminates
#check @token_terminates
#check @lr_run_total
#check @outcomes_are_explicit
