import CalmVerif.Props.C12
open CalmVerif.Props.C12
#print axioms lexer_terminates
#print axioms token_terminates
#print axioms lr_run_total
#print axioms outcomes_are_explicit
#check @lexer_terminates
#check @token_terminates
#check @lr_run_total
#check @outcomes_are_explicit
#print axioms driver_total
#print axioms lr_driver_no_internal
#print axioms parse_no_driver_internal
#check @driver_total
#check @lr_driver_no_internal
#check @parse_no_driver_internal
open CalmVerif.Props.C12lex
#print axioms lexer_no_internal
#print axioms token_no_internal
#print axioms backtracked_token_no_internal
#check @lexer_no_internal
#check @token_no_internal
#check @backtracked_token_no_internal
