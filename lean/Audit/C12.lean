import CalmVerif.Props.C12all
import CalmVerif.Props.C12
import CalmVerif.Props.C12parse
import CalmVerif.Props.C12act
import CalmVerif.Props.C12term
import CalmVerif.Props.C12pos
open CalmVerif.Props.C12
#print axioms lexer_terminates
#print axioms token_terminates
#print axioms lr_run_total
#print axioms outcomes_are_explicit
#check @lexer_terminates
#check @token_terminates
#check @lr_run_total
#check @outcomes_are_explicit
#print axioms driver_total
#print axioms lr_driver_no_internal
#print axioms parse_no_driver_internal
#check @driver_total
#check @lr_driver_no_internal
#check @parse_no_driver_internal
open CalmVerif.Props.C12lex
#print axioms lexer_no_internal
#print axioms token_no_internal
#print axioms backtracked_token_no_internal
#check @lexer_no_internal
#check @token_no_internal
#check @backtracked_token_no_internal
#print axioms CalmVerif.Props.C12parse.parse_lexer_errors_are_syntax_errors
#check @CalmVerif.Props.C12parse.parse_lexer_errors_are_syntax_errors
#print axioms CalmVerif.Props.C12parse.parse_no_lexer_internal
#check @CalmVerif.Props.C12parse.parse_no_lexer_internal
#print axioms CalmVerif.Props.C12parse.parse_no_lexer_out_of_fuel
#check @CalmVerif.Props.C12parse.parse_no_lexer_out_of_fuel
#print axioms CalmVerif.Props.C12parse.parse_no_lexer_model_gap
#check @CalmVerif.Props.C12parse.parse_no_lexer_model_gap
#print axioms CalmVerif.Props.C12parse.p_error_raises_only_syntax_errors
#check @CalmVerif.Props.C12parse.p_error_raises_only_syntax_errors
#print axioms CalmVerif.Props.C12parse.run_lexer_errors_are_syntax_errors
#check @CalmVerif.Props.C12parse.run_lexer_errors_are_syntax_errors
#print axioms CalmVerif.Props.C12act.actions_closed
#check @CalmVerif.Props.C12act.actions_closed
#print axioms CalmVerif.Props.C12act.action_call_no_internal
#check @CalmVerif.Props.C12act.action_call_no_internal
#print axioms CalmVerif.Props.C12act.run_no_action_internal
#check @CalmVerif.Props.C12act.run_no_action_internal
#print axioms CalmVerif.Props.C12act.parse_no_action_internal
#check @CalmVerif.Props.C12act.parse_no_action_internal
#print axioms CalmVerif.Props.C12act.parse_action_errors_are_production_errors
#check @CalmVerif.Props.C12act.parse_action_errors_are_production_errors
#print axioms CalmVerif.Props.C12term.ranks_ok
#print axioms CalmVerif.Props.C12term.lr_steps_bounded
#print axioms CalmVerif.Props.C12term.lr_out_of_fuel_bounded
#print axioms CalmVerif.Props.C12term.lr_fuel_suffices_partial
#print axioms CalmVerif.Props.C12term.list_source_bound
#print axioms CalmVerif.Props.C12term.lr_terminates_on_token_lists
#print axioms CalmVerif.Props.C12term.auto_term_is_autosemi
#print axioms CalmVerif.Props.C12term.auto_ok
#print axioms CalmVerif.Props.C12term.no_autosemi_shift_after_autosemi
#print axioms CalmVerif.Props.C12term.parser_source_bound
#print axioms CalmVerif.Props.C12term.sem_ty_autosemi
#print axioms CalmVerif.Props.C12term.parse_terminates
#print axioms CalmVerif.Props.C12term.parse_never_out_of_fuel_partial
#check @CalmVerif.Props.C12term.ranks_ok
#check @CalmVerif.Props.C12term.lr_steps_bounded
#check @CalmVerif.Props.C12term.lr_out_of_fuel_bounded
#check @CalmVerif.Props.C12term.lr_fuel_suffices_partial
#check @CalmVerif.Props.C12term.list_source_bound
#check @CalmVerif.Props.C12term.lr_terminates_on_token_lists
#check @CalmVerif.Props.C12term.auto_term_is_autosemi
#check @CalmVerif.Props.C12term.auto_ok
#check @CalmVerif.Props.C12term.no_autosemi_shift_after_autosemi
#check @CalmVerif.Props.C12term.parser_source_bound
#check @CalmVerif.Props.C12term.sem_ty_autosemi
#check @CalmVerif.Props.C12term.parse_terminates
#check @CalmVerif.Props.C12term.parse_never_out_of_fuel_partial
#print axioms CalmVerif.Props.C12term.parse_never_out_of_fuel
#check @CalmVerif.Props.C12term.parse_never_out_of_fuel
#print axioms CalmVerif.Props.C12all.parse_total
#check @CalmVerif.Props.C12all.parse_total
#print axioms CalmVerif.Props.C12all.parse_no_recovery
#check @CalmVerif.Props.C12all.parse_no_recovery
#print axioms CalmVerif.Props.C12pos.raiseSyntaxError_message
#check @CalmVerif.Props.C12pos.raiseSyntaxError_message
#print axioms CalmVerif.Props.C12pos.raiseSyntaxError_lexer_error
#check @CalmVerif.Props.C12pos.raiseSyntaxError_lexer_error
#print axioms CalmVerif.Props.C12pos.auto_offending_not_shown
#check @CalmVerif.Props.C12pos.auto_offending_not_shown
#print axioms CalmVerif.Props.C12pos.raise_tokens_realAt
#check @CalmVerif.Props.C12pos.raise_tokens_realAt
#print axioms CalmVerif.Props.C12pos.pErrorCall_step
#check @CalmVerif.Props.C12pos.pErrorCall_step
#print axioms CalmVerif.Props.C12pos.syntax_error_tokens_located_partial
#check @CalmVerif.Props.C12pos.syntax_error_tokens_located_partial
#print axioms CalmVerif.Props.C12pos.syntax_error_message_at_call
#check @CalmVerif.Props.C12pos.syntax_error_message_at_call
#print axioms CalmVerif.Props.C12pos.run_syntax_error_located_partial
#check @CalmVerif.Props.C12pos.run_syntax_error_located_partial
#print axioms CalmVerif.Props.C12pos.parse_syntax_error_located_partial
#check @CalmVerif.Props.C12pos.parse_syntax_error_located_partial
#print axioms CalmVerif.Props.C12pos.next_token_may_be_inserted
#check @CalmVerif.Props.C12pos.next_token_may_be_inserted
#print axioms CalmVerif.Props.C12pos.full_claim_false
#check @CalmVerif.Props.C12pos.full_claim_false
#print axioms CalmVerif.Props.C12pos.quotedAt_spec
#check @CalmVerif.Props.C12pos.quotedAt_spec
#print axioms CalmVerif.Props.C12pos.offending_token_located
#check @CalmVerif.Props.C12pos.offending_token_located
#print axioms CalmVerif.Props.C12pos.parse_offending_token_located
#check @CalmVerif.Props.C12pos.parse_offending_token_located
#print axioms CalmVerif.Props.C12pos.run_syntax_error_call
#check @CalmVerif.Props.C12pos.run_syntax_error_call
#print axioms CalmVerif.Props.C12pos.unexpected_is_offending
#check @CalmVerif.Props.C12pos.unexpected_is_offending
#print axioms CalmVerif.Props.C12pos.messageOf_unexpected
#check @CalmVerif.Props.C12pos.messageOf_unexpected
#print axioms CalmVerif.Props.C12pos.unexpected_may_be_next_token
#check @CalmVerif.Props.C12pos.unexpected_may_be_next_token
#print axioms CalmVerif.Props.C12pos.raise_state_ok
#check @CalmVerif.Props.C12pos.raise_state_ok
