import CalmVerif.Props.C15
open CalmVerif.Props.C15
#print axioms parser_state_fresh
#print axioms parser_state_fresh_clauses
#print axioms lexer_fields_observed
#print axioms module_state_readonly
#print axioms module_state_observed
#print axioms parse_history_independent
#print axioms parse_repeatable
#print axioms reused_parser_is_not_pure
#check @parser_state_fresh
#check @parser_state_fresh_clauses
#check @lexer_fields_observed
#check @module_state_readonly
#check @module_state_observed
#check @parse_history_independent
#check @parse_repeatable
#check @reused_parser_is_not_pure
