import CalmVerif.Props.C06
import CalmVerif.Props.C12lex
open CalmVerif.Props.C06
#print axioms lexer_terminates
#check @lexer_terminates
#print axioms token_terminates
#check @token_terminates
#print axioms tokens_partition_input
#check @tokens_partition_input
#print axioms tokens_strictly_ordered
#check @tokens_strictly_ordered
#print axioms ignore_set_is_es5_whitespace
#check @ignore_set_is_es5_whitespace
#print axioms punctuators_longest_first
#check @punctuators_longest_first
#print axioms punctuator_maximal_munch
#check @punctuator_maximal_munch
#print axioms id_keyword_iff
#check @id_keyword_iff
#print axioms keyword_exact
#check @keyword_exact
#print axioms positions_are_counted
#check @positions_are_counted
#print axioms CalmVerif.Props.C12lex.lexer_no_internal
#check @CalmVerif.Props.C12lex.lexer_no_internal
#print axioms CalmVerif.Props.C12lex.token_no_internal
#check @CalmVerif.Props.C12lex.token_no_internal
#print axioms CalmVerif.Props.C12lex.backtracked_token_no_internal
#check @CalmVerif.Props.C12lex.backtracked_token_no_internal
#print axioms CalmVerif.Props.C12lex.lexer_no_model_gap_rules
#check @CalmVerif.Props.C12lex.lexer_no_model_gap_rules
