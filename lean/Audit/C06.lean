import CalmVerif.Props.C06
open CalmVerif.Props.C06
#print axioms lexer_terminates
#check @lexer_terminates
#print axioms token_terminates
#check @token_terminates
#print axioms tokens_partition_input
#check @tokens_partition_input
#print axioms tokens_strictly_ordered
#check @tokens_strictly_ordered
#print axioms ignore_set_is_es5_whitespace_plus_ls_ps
#check @ignore_set_is_es5_whitespace_plus_ls_ps
#print axioms punctuators_longest_first
#check @punctuators_longest_first
#print axioms punctuator_maximal_munch
#check @punctuator_maximal_munch
#print axioms id_keyword_iff
#check @id_keyword_iff
#print axioms keyword_exact
#check @keyword_exact
