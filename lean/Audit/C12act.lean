import CalmVerif.Props.C12act
open CalmVerif.Props.C12act

#print axioms actions_closed
#check @actions_closed
#print axioms action_call_no_internal
#check @action_call_no_internal
#print axioms run_no_action_internal
#check @run_no_action_internal
#print axioms parse_no_action_internal
#check @parse_no_action_internal
#print axioms parse_action_errors_are_production_errors
#check @parse_action_errors_are_production_errors
