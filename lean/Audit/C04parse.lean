import CalmVerif.Props.C04parse
open CalmVerif.Props.C04parse
#print axioms autosemi_justified
#check @autosemi_justified
#print axioms autosemi_is_exactly_the_inserted_tokens
#check @autosemi_is_exactly_the_inserted_tokens
#print axioms model_condition_implies_es5
#check @model_condition_implies_es5
#print axioms offending_has_line_terminator
#check @offending_has_line_terminator
#print CalmVerif.Proofs.ParserAsi.AsiReason
