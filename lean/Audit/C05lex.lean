import CalmVerif.Props.C05lex
open CalmVerif.Props.C05lex
#print axioms slash_reaches_decision
#check @slash_reaches_decision
#print axioms check_token_is_last_significant
#check @check_token_is_last_significant
#print axioms div_allowed_iff
#check @div_allowed_iff
#print axioms div_decision
#check @div_decision
#print axioms div_decision_independent_of_position
#check @div_decision_independent_of_position
