import CalmVerif.Props.C14
open CalmVerif.Props.C14
#print axioms per_call_objects_fresh
#print axioms per_call_objects_observed
#print axioms persistent_state_readonly
#print axioms persistent_state_observed
#print axioms configs_are_per_call
#print axioms print_history_independent
#print axioms print_prefix_of_fresh_run
#print axioms print_calls_independent
#print axioms shortcuts_agree
#print axioms shortcuts_agree_text
#print axioms shared_state_hazard
#check @per_call_objects_fresh
#check @per_call_objects_observed
#check @persistent_state_readonly
#check @persistent_state_observed
#check @configs_are_per_call
#check @print_history_independent
#check @print_prefix_of_fresh_run
#check @print_calls_independent
#check @shortcuts_agree
#check @shortcuts_agree_text
#check @shared_state_hazard
