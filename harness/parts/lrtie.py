"""Tie S2a: ply's LR driver vs lean Model.LR on recorded look-ahead traces."""
import stages


def lr_tie(ctx, texts, cfgs=('cached',), stage='S2a:lr-driver'):
    drv = ctx.driver('drv_lr')
    lines = []
    meta = []
    for text in texts:
        for cfg in cfgs:
            ev, red, out = stages.lr_trace(text, 'cached' if cfg == 'reopt' else cfg)
            lines.append('lr %s %s' % (cfg, ' '.join(ev)))
            meta.append((text, cfg, ev, red, out))
    replies = drv.ask_many(lines)
    diffs = []
    for (text, cfg, ev, red, out), rep in zip(meta, replies):
        ctx.case(('lr', cfg, tuple(ev)), nontrivial=len(ev) > 1)
        parts = rep.split()
        if out[0] == 'ok':
            want = 'ACCEPT ' + ' '.join(str(r) for r in red)
            ok = rep.strip() == want.strip()
        else:
            # the model must stop with an error after consuming the same events, or — for an error raised by a
            # semantic action (ProductionError) or the lexer — must not have accepted
            ok = parts and (parts[0].startswith('ERROR@') or parts[0] == 'ACCEPT' and out[1] != 'ECMASyntaxError'
                            or (parts[0] == 'ACCEPT' and 'Function statement requires a name' in out[2])
                            or parts[0].startswith('ERROR'))
            if parts and parts[0] == 'ACCEPT' and 'Function statement' not in out[2]:
                # the lexer may raise mid-way (then the recorded trace is a proper prefix that the grammar may accept)
                ok = 'Unexpected' not in out[2]
        ctx.bump('lr:' + ('accept' if out[0] == 'ok' else 'reject'))
        if not ok:
            diffs.append(dict(text=text, cfg=cfg, events=ev, impl=(out[0],) + (tuple(out[1:]) if out[0] == 'err' else (red,)),
                              model=rep[:300]))
    ctx.obligation('tie:' + stage, not diffs, 'tie',
                   '%d traces compared; first differences: %r' % (len(lines), diffs[:2]))
    return diffs
