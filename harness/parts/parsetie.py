"""Tie S2b: (ply driver + p_* actions + setpos) vs lean (Model.LR + Model.Actions over Gen.Actions) on recorded token traces."""
import proto
import stages
import treedump


def parse_tie(ctx, texts, with_comments=(False, True), cfg='cached', stage='S2b:lr+actions'):
    drv = ctx.driver('drv_parse')
    reqs, meta = [], []
    for text in texts:
        for wc in with_comments:
            req, out = stages.parse_trace(text, cfg, wc)
            reqs.append(req)
            meta.append((text, wc, out))
    replies = drv.ask_many(reqs)
    diffs = []
    for (text, wc, out), rep in zip(meta, replies):
        ctx.case(('parse', wc, text), nontrivial=len(text) > 3)
        if out[0] == 'ok':
            want = 'OK ' + proto.render(treedump.dump(out[1], pos=True, tokmap=True, comments=True))
            ok = rep == want
            ctx.bump('S2b:accept')
        else:
            ctx.bump('S2b:reject')
            msg = out[2]
            if 'Function statement requires a name' in msg:
                ok = rep == 'PRODERR ' + proto.enc_str(msg)
            elif out[1] in ('ECMASyntaxError', 'ECMARegexSyntaxError'):
                # raised by p_error (model: ERROR@n) or by the lexer mid-way (model sees a truncated trace: any
                # non-accepting answer, or accept of the truncated token sequence, is consistent)
                ok = rep.startswith('ERROR@') or 'Unexpected' not in msg
            else:
                ok = True    # other exception types are C12's subject
        if not ok:
            diffs.append(dict(text=text, with_comments=wc, impl=(out[0],) + (() if out[0] == 'ok' else tuple(out[1:])),
                              model=rep[:400], want=(want[:400] if out[0] == 'ok' else None)))
    ctx.obligation('tie:' + stage, not diffs, 'tie', '%d traces compared; first differences: %r' % (len(reqs), diffs[:2]))
    return diffs


def full_tie(ctx, texts, with_comments=(False, True), stage='S2:text->tree (lexer+LR+actions)'):
    """Tie S2: the real parse(text, with_comments) vs the composed lean model Model.Parser.parse:
    identical trees (positions, token maps, comments) or identical exception class + message."""
    from calmjs.parse.parsers.es5 import parse
    from calmjs.parse.exceptions import ECMASyntaxError
    drv = ctx.driver('drv_parse')
    texts = [t for t in texts if not any(0xD800 <= ord(c) <= 0xDFFF for c in t)]
    reqs, meta = [], []
    for t in texts:
        for wc in with_comments:
            reqs.append('text %d %s' % (1 if wc else 0, proto.enc_str(t)))
            meta.append((t, wc))
    reps = drv.ask_many(reqs)
    diffs = []
    for (t, wc), r in zip(meta, reps):
        try:
            want = 'OK ' + proto.render(treedump.dump(parse(t, with_comments=wc), pos=True, tokmap=True, comments=True))
            ctx.bump('S2:accept')
        except ECMASyntaxError as e:
            want = ('REGEXSYNTAX ' if type(e).__name__ == 'ECMARegexSyntaxError' else 'SYNTAX ') + proto.enc_str(str(e))
            ctx.bump('S2:syntax-error')
        except Exception as e:
            want = 'INTERNAL ' + type(e).__name__
            ctx.bump('S2:other-exception')
        ctx.case(('S2', wc, t), nontrivial=len(t) > 3)
        if r != want and not (r.startswith('INTERNAL') and want.startswith('INTERNAL')):
            diffs.append(dict(text=t, with_comments=wc, model=r[:400], impl=want[:400]))
    ctx.obligation('tie:' + stage, not diffs, 'tie', '%d parses compared; first differences: %r' % (len(reqs), diffs[:2]))
    return diffs
