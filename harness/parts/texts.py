"""Shared input streams for the parser-side checks."""
import corpus
import genjs


def es5_lines(text):
    """offsets at which a new line starts, counting LF, CR, CRLF (as one), U+2028, U+2029"""
    starts = [0]
    i, n = 0, len(text)
    while i < n:
        c = text[i]
        if c == '\r':
            if i + 1 < n and text[i + 1] == '\n':
                i += 1
            starts.append(i + 1)
        elif c in '\n\u2028\u2029':
            starts.append(i + 1)
        i += 1
    return starts


def line_col(text, offset, starts=None):
    """1-based (line, column) of an offset under ES5 line-terminator counting"""
    import bisect
    starts = starts or es5_lines(text)
    k = bisect.bisect_right(starts, offset) - 1
    return k + 1, offset - starts[k] + 1


def valid_texts(ctx, n_g1, n_g2, label='texts', opts=None, layouts=None, extra_corpus=None):
    rng = ctx.sub_rng(label)
    texts = []
    if extra_corpus:
        texts += [e['text'] if isinstance(e, dict) else e for e in corpus.extra(extra_corpus)]
    g1 = corpus.g1_valid()
    texts += rng.sample(g1, min(n_g1, len(g1)))
    stats = {}
    for text, toks, lo in genjs.programs(rng, n_g2, opts=opts, layouts=layouts, stats=stats):
        texts.append(text)
    for k, v in stats.items():
        ctx.bump('gen:' + k, v)
    ctx.bump('texts:g1', min(n_g1, len(g1)))
    ctx.bump('texts:g2', n_g2)
    return texts


def invalid_texts(ctx, n_mut, n_raw, label='invalid'):
    rng = ctx.sub_rng(label)
    texts = list(corpus.g1_invalid())
    for text, toks, lo in genjs.programs(rng, n_mut):
        texts += list(genjs.token_mutations(rng, toks, 2))
    for _ in range(n_raw):
        texts.append(''.join(rng.choice('ab1 \n/*"\'\\{}();=+.[],é\u2028') for _ in range(rng.randint(1, 12))))
    return texts
