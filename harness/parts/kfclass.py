"""
Structural classes of known deviations of calmjs.parse from ES5 (known_findings.json), as predicates over a
token list (list of token texts; '\n' etc. stand for line terminators, '/*c*/' and '//c' tokens for comments).

A generated input that falls in a class is not judged (the class is reported through its recorded witness);
every other disagreement is a violation.  The predicates are purely syntactic and deliberately narrow.
"""
import re

RESTRICTED = ('return', 'break', 'continue', 'throw')
IDENT = re.compile(r'^[A-Za-z_$][\w$]*$')
HEADER_KW = ('if', 'for', 'while', 'with')
BINARY_OPS = ('==', '!=', '===', '!==', '<', '>', '<=', '>=', '+', '-', '*', '/', '%', '<<', '>>', '>>>', '&', '|', '^', '&&', '||',
              'instanceof', '?', ',', '=', '+=', '-=', '*=', '/=', '%=', '<<=', '>>=', '>>>=', '&=', '|=', '^=')
SUFFIX_AFTER_BRACE = ('(', '.', '[', '/', '/=', '*', '%', '+', '-', '<', '>', '=', '==', '&', '|', '^', '?', ',', 'in',
                      'instanceof', '&&', '||', '++', '--', '<<', '>>', '>>>', '<=', '>=', '!=', '===', '!==')


def is_lt(t):
    return t in ('\n', '\r', '\r\n', ' ', ' ')


def is_comment(t):
    return t.startswith('/*') or t.startswith('//')


def starts_slash(t):
    return t is not None and t.startswith('/') and not is_comment(t)


NOT_AN_OPERAND_END = set(BINARY_OPS) | {';', '{', '(', '[', ':', '!', '~', '++', '--', 'else', 'do', 'return', 'typeof', 'in', 'new',
                                         'delete', 'void', 'throw', 'case', 'var', 'default', 'try', 'finally'}


def _postfix_possible(tokens, i):
    """KF-04c (no restricted production for postfix ++ / --) needs an operand in front of the line terminator at index i: the
    previous significant token ends a LeftHandSideExpression.  After `;`, `{`, an operator, `else` / `do` / … or the `)` that closes
    an if / while / for / with HEADER the `++` can only be a prefix operator, and calmjs reads it so: such inputs are judged."""
    k = i - 1
    while k >= 0 and (is_lt(tokens[k]) or is_comment(tokens[k])):
        k -= 1
    if k < 0:
        return False
    prev = tokens[k]
    if prev in NOT_AN_OPERAND_END:
        return False
    if prev == ')':
        depth = 0
        while k >= 0:
            if tokens[k] == ')':
                depth += 1
            elif tokens[k] == '(':
                depth -= 1
                if depth == 0:
                    break
            k -= 1
        q = k - 1
        while q >= 0 and (is_lt(tokens[q]) or is_comment(tokens[q])):
            q -= 1
        if q >= 0 and tokens[q] in HEADER_KW:
            r = q - 1
            while r >= 0 and (is_lt(tokens[r]) or is_comment(tokens[r])):
                r -= 1
            if not (r >= 0 and tokens[r] == '.'):
                return False
    return True


def classes(tokens):
    """set of KF ids whose structural pattern occurs in the token list"""
    out = set()
    n = len(tokens)
    sig = [t for t in tokens if not is_lt(t) and not is_comment(t)]       # significant tokens
    nolt = [t for t in tokens if not is_lt(t)]
    for i, t in enumerate(tokens):
        prv = tokens[i - 1] if i > 0 else None
        nxt = tokens[i + 1] if i + 1 < n else None
        # next significant token
        j = i + 1
        while j < n and (is_lt(tokens[j]) or is_comment(tokens[j])):
            j += 1
        nsig = tokens[j] if j < n else None
        if t in ('get', 'set'):
            # the accessor form `get name (` is the one use calmjs handles
            k = j + 1
            while k < n and (is_lt(tokens[k]) or is_comment(tokens[k])):
                k += 1
            n2 = tokens[k] if k < n else None
            proper = nsig is not None and IDENT.match(nsig) and n2 == '(' and nxt == nsig
            if not proper:
                out.add('KF-03b')
        if is_lt(t) and nsig in ('++', '--') and _postfix_possible(tokens, i):
            out.add('KF-04c')
        if t in RESTRICTED and nxt is not None and is_lt(nxt):
            if nsig in (';', ':') or prv in ('get', 'set'):
                out.add('KF-04f')
        if t in RESTRICTED and nxt is not None and is_comment(nxt):
            out.add('KF-04d')
        if is_comment(t):
            # comments are raw tokens for calmjs's look-behind (`prev_token`): a comment DIRECTLY before a significant token
            # hides a line terminator that precedes it (or that it contains) from the ASI test, and a comment directly before a
            # `/` disturbs the regex/division decision.  A comment followed by a line terminator is harmless (the look-behind
            # then sees the terminator), except after a restricted keyword (KF-04d, above).
            directly_before_token = nxt is not None and not is_lt(nxt) and not is_comment(nxt)
            if directly_before_token:
                k = i
                lt_seen = False
                while k >= 0 and (is_lt(tokens[k]) or is_comment(tokens[k])):
                    if is_lt(tokens[k]) or any(c in tokens[k] for c in '\n\r\u2028\u2029'):
                        lt_seen = True
                    k -= 1
                if lt_seen and k >= 0:
                    out.add('KF-04a')
                if starts_slash(nxt):
                    out.add('KF-04a')
            if prv is not None and prv in HEADER_KW:
                out.add('KF-04a')
        if t in ('/', '/=') and nxt is not None and is_lt(nxt):
            out.add('KF-03f')
        if t in ('++', '--', '}') and nsig is not None and nsig.startswith('/=') and not is_comment(nsig):
            out.add('KF-05e')
        if t in HEADER_KW and nxt is not None and (is_lt(nxt) or is_comment(nxt)):
            out.add('KF-05b')       # header keyword separated from its `(` by a line terminator or comment
        if t == ')' and nxt is not None and (is_lt(nxt) or is_comment(nxt)) and starts_slash(nsig):
            out.add('KF-05b')       # ... or the closing `)` separated from a following `/` likewise
    # --- classes found by the validation of the reference parser (see known_findings.json) ---
    for i, t in enumerate(tokens):
        nxt = tokens[i + 1] if i + 1 < n else None
        if t in ('get', 'set'):
            j = i + 1
            while j < n and (is_lt(tokens[j]) or is_comment(tokens[j])):
                j += 1
            k = tokens[j] if j < n else None
            if k is not None and (k[:1] in '\'"' or k[:1].isdigit()):
                out.add('KF-03c')       # accessor with a string / number key
        if '\\u' in t and not (t[:1] in '\'"/'):
            out.add('KF-06d')           # unicode escape in an identifier
        if ('\u200c' in t or '\u200d' in t) and not (t[:1] in '\'"/'):
            out.add('KF-06e')           # ZWNJ / ZWJ as identifier part
        if t[:1].isdigit() and nxt is not None and IDENT.match(nxt) and nxt in ('in', 'instanceof'):
            pass
    # NoIn handling: an `in` operator at bracket depth 0 inside the initialiser of a classic for(;;) header
    for i, t in enumerate(sig):
        if t == 'for' and i + 1 < len(sig) and sig[i + 1] == '(':
            depth, k, semis, seg_has_in = 0, i + 1, 0, False
            while k < len(sig):
                x = sig[k]
                if x in '([{':
                    depth += 1
                elif x in ')]}':
                    depth -= 1
                    if depth == 0:
                        break
                elif depth == 1 and x == ';':
                    semis += 1
                elif depth == 1 and x == 'in' and semis == 0:
                    seg_has_in = True
                k += 1
            if seg_has_in and semis >= 1:
                out.add('KF-03h')
            # the same root cause in a for-in header: `for (var x = a == b in c)` - the initialiser's right operand swallows
            # the `in` that belongs to the header
            if semis == 0:
                depth, k, state = 0, i + 1, 0      # state 1 after `=`, 2 after a binary operator behind it
                while k < len(sig):
                    x = sig[k]
                    if x in '([{':
                        depth += 1
                    elif x in ')]}':
                        depth -= 1
                        if depth == 0:
                            break
                    elif depth == 1:
                        if x == '=' and state == 0:
                            state = 1
                        elif state == 1 and x in BINARY_OPS:
                            state = 2
                        elif x == 'in' and state == 2:
                            out.add('KF-03h')
                            break
                    k += 1
    # a `/` first on a line after the identifier of `continue L` / `break L` / `var x` (no initialiser): the
    # grammar forbids a division there, so ES5 inserts a semicolon and reads a regex; calmjs has lexed DIV already
    for i, t in enumerate(tokens):
        if starts_slash(t) and i >= 2 and is_lt(tokens[i - 1]):
            k = i - 1
            while k >= 0 and is_lt(tokens[k]):
                k -= 1
            if k >= 1 and IDENT.match(tokens[k]):
                q = k - 1
                while q >= 0 and (is_lt(tokens[q]) or is_comment(tokens[q])):
                    q -= 1
                before = tokens[q] if q >= 0 else None
                if before in ('continue', 'break', 'var') or (before == ',' and 'var' in sig):
                    out.add('KF-05f')
    # (KF-05a, the `)` of a with header followed by `/`, was repaired by 4c0dced: no class, such inputs are judged)
    # a function at the start of a statement whose `}` is followed by something that continues an expression
    fstart = any(t == 'function' and (i == 0 or sig[i - 1] in (';', '{', '}', ')', ':', 'else', 'do'))
                 for i, t in enumerate(sig))
    # ... or first on its line (a statement may start there through semicolon insertion)
    for i, t in enumerate(tokens):
        if t == 'function':
            k = i - 1
            while k >= 0 and is_comment(tokens[k]):
                k -= 1
            if k >= 0 and is_lt(tokens[k]):
                fstart = True
    if fstart:
        for i in range(len(sig)):
            if sig[i] == '}' and (i + 1 == len(sig) and False or (i + 1 < len(sig) and (
                    sig[i + 1] in SUFFIX_AFTER_BRACE or starts_slash(sig[i + 1])))):
                out.add('KF-03a')
        if sig and sig[-1] == '}' and sig.count('function') and len(sig) >= 2:
            pass
    return out
