"""
Round-trip judges of C01 (pretty printer) and C02 (minifier), run on the IMPLEMENTATION, with the independent
ES5.1 reference parser (lean Spec.Es5Parse through `drv_spec`) as the "conforming ES5 parser".

    judge_pretty(spec, text, wc, indent)          -> Result
    judge_minify(spec, text, wc, drop_semi)       -> Result
    judge_many(spec, jobs)                         batched form; jobs = [('pretty', text, wc, indent) | ('minify', text, wc, drop)]
    classify(res)                                  -> set of known-finding class ids the failing case falls in
    targeted_programs(rng, n)                      token-adjacency programs for C02 (slot x left class x right class)

What is judged (Result.problems is a list of (code, message); empty = the property holds on the case):
  pretty  P1 the real parser re-parses the output;  P2 to the identical structure (treedump.dump, no positions);
          P3 the reference parser accepts the output;  P4 and yields the identical structure;
          P5 pretty_print(parse(output)) == output byte for byte.
  minify  M1..M4 as P1..P4 modulo  (a) line continuations removed from string literals,
          (b) with drop_semi: stand-alone EmptyStatement items of statement lists ignored;
          M5 token level: the reference parser's token sequence of the output (with the `;` its ASI inserts) equals
             the token sequence of the original (with ASI semicolons; comments dropped), modulo (a) and, with drop_semi,
             deleted `;` tokens — exactly as many as EmptyStatements removed from statement lists;
             (every `;` the minifier dropped is therefore one the reference parser's ASI re-inserts);
          M6 without drop_semi the output needs no ASI at all.
The structural class predicates (`classify`) look at the ORIGINAL tree and the fragment stream of the real printer,
never at the witness text; they are the exclusion predicates of the `..._partial` theorems in Props/C01.lean, C02.lean.
"""
import re
import unicodedata

import proto
import treedump

INDENTS = ['', ' ', '  ', '\t', ' \t', '    ']

# ES5 7.8.4 LineContinuation :: \ LineTerminatorSequence   (own definition, independent of calmjs's pattern)
LINE_CONT = re.compile('\\\\(?:\r\n|\n|\r|\u2028|\u2029)')

STMT_LIST_ATTRS = {
    'ES5Program': 'children', 'Block': 'children', 'FuncDecl': 'elements', 'FuncExpr': 'elements',
    'Case': 'elements', 'Default': 'elements', 'GetPropAssign': 'elements', 'SetPropAssign': 'elements',
}


class Result(object):
    def __init__(self, mode, text, wc, cfg):
        self.mode, self.text, self.wc, self.cfg = mode, text, wc, cfg
        self.tree = None
        self.out = None
        self.problems = []
        self.parsed = True
        self.orig_dev = False
        self.tree2 = None

    def bad(self):
        return bool(self.problems)

    def key(self):
        return (self.mode, self.text, self.wc, self.cfg)

    def replay(self):
        return dict(mode=self.mode, text=self.text, with_comments=self.wc,
                    indent=self.cfg if self.mode == 'pretty' else None,
                    drop_semi=self.cfg if self.mode == 'minify' else None,
                    output=self.out, problems=['%s: %s' % p for p in self.problems])


# ----------------------------------------------------------------------------- implementation side

def parse(text, wc=False):
    from calmjs.parse.parsers.es5 import parse as p
    return p(text, with_comments=wc)


def pretty(tree, indent):
    from calmjs.parse.unparsers import es5
    return es5.pretty_print(tree, indent_str=indent)


def minify(tree, drop):
    from calmjs.parse.unparsers import es5
    return es5.minify_print(tree, obfuscate=False, drop_semi=drop)


def printer(mode, cfg):
    from calmjs.parse.unparsers import es5
    if mode == 'pretty':
        return es5.pretty_printer(indent_str=cfg)
    return es5.minify_printer(obfuscate=False, drop_semi=cfg)


def fragments(mode, cfg, tree):
    return [f.text for f in printer(mode, cfg)(tree)]


# ----------------------------------------------------------------------------- normalisations the property grants

def strip_cont(v):
    """(a) line continuations removed from string literal values"""
    if isinstance(v, list):
        return [strip_cont(x) for x in v]
    if isinstance(v, proto.Node):
        if v.kind == 'String':
            return proto.Node(v.kind, [(k, LINE_CONT.sub('', x) if k == 'value' and isinstance(x, str) else strip_cont(x))
                                       for k, x in v.attrs])
        return proto.Node(v.kind, [(k, strip_cont(x)) for k, x in v.attrs])
    return v


def drop_empty(v):
    """(b) stand-alone EmptyStatement items of statement lists ignored; returns (value, number removed)"""
    n = [0]

    def go(v):
        if isinstance(v, list):
            return [go(x) for x in v]
        if isinstance(v, proto.Node):
            la = STMT_LIST_ATTRS.get(v.kind)
            attrs = []
            for k, x in v.attrs:
                if k == la and isinstance(x, list):
                    keep = []
                    for it in x:
                        if isinstance(it, proto.Node) and it.kind == 'EmptyStatement':
                            n[0] += 1
                        else:
                            keep.append(go(it))
                    attrs.append((k, keep))
                else:
                    attrs.append((k, go(x)))
            return proto.Node(v.kind, attrs)
        return v
    return go(v), n[0]


def norm_tree(v, drop):
    v = strip_cont(v)
    if drop:
        return drop_empty(v)
    return v, 0


def eff_tokens(toks, asis, text_len):
    """token sequence with the semicolons ASI inserts: [(cls, text)]; an inserted `;` is ('Punct', ';')"""
    out = []
    pend = sorted(asis)
    k = 0
    for t in toks:
        while k < len(pend) and pend[k] <= t.off:
            out.append(('Punct', ';'))
            k += 1
        txt = LINE_CONT.sub('', t.text) if t.cls == 'String' else t.text
        out.append((t.cls, txt))
    while k < len(pend):
        out.append(('Punct', ';'))
        k += 1
    return out


def collapse_parens(seq):
    """calmjs's trees keep ONE GroupingOp for directly nested parentheses `((x))` (tree convention shared with the
    reference parser), so the printed text has one pair: drop the outer pair of every directly nested pair"""
    stack, match = [], {}
    for i, t in enumerate(seq):
        if t == ('Punct', '('):
            stack.append(i)
        elif t == ('Punct', ')') and stack:
            match[stack.pop()] = i
    dead = set()
    for i, j in match.items():
        if i + 1 in match and match[i + 1] == j - 1:
            dead.add(i)
            dead.add(j)
    seq = [t for k, t in enumerate(seq) if k not in dead]
    # tree convention (ES5 11.1.4 / 11.1.5): the optional trailing comma of an array literal after an element and of an
    # object literal contributes nothing to the tree and is not printed
    out = []
    for k, t in enumerate(seq):
        if t == ('Punct', ',') and k + 1 < len(seq) and k > 0:
            nx, pv = seq[k + 1], seq[k - 1]
            if nx == ('Punct', '}') or (nx == ('Punct', ']') and pv not in (('Punct', ','), ('Punct', '['))):
                continue
        out.append(t)
    return out


def del_only_semis(orig, new):
    """is `new` obtainable from `orig` by deleting `;` tokens only?  -> (ok, number deleted, first mismatch)"""
    i = j = 0
    deleted = 0
    while i < len(orig):
        if j < len(new) and orig[i] == new[j]:
            i += 1
            j += 1
        elif orig[i] == ('Punct', ';'):
            deleted += 1
            i += 1
        else:
            return False, deleted, (i, orig[i], new[j] if j < len(new) else None)
    if j != len(new):
        return False, deleted, (i, None, new[j])
    return True, deleted, None


# ----------------------------------------------------------------------------- judges

def _prepare(job):
    mode, text, wc, cfg = job
    r = Result(mode, text, wc, cfg)
    try:
        r.tree = parse(text, wc)
    except RecursionError:
        r.parsed = False
        return r
    except Exception:
        r.parsed = False
        return r
    try:
        r.out = pretty(r.tree, cfg) if mode == 'pretty' else minify(r.tree, cfg)
    except RecursionError:
        r.parsed = False
    except Exception as e:
        r.out = None
        r.problems.append(('X0', 'printer raised %s: %s' % (type(e).__name__, e)))
    # the property's own sequence, with nothing in between: parse -> print -> parse (the second parse is judged later)
    r.reparse = None
    if r.parsed and r.out is not None:
        try:
            r.reparse = ('ok', parse(r.out, wc))
        except RecursionError:
            r.reparse = ('recursion', None)
        except Exception as e:
            r.reparse = ('err', e)
    return r


def judge_many(spec, jobs):
    """jobs: list of (mode, text, with_comments, cfg).  Returns one Result per job (Result.parsed False when the
    original text is not accepted by the real parser: outside the quantifier)."""
    import specclient
    res = [_prepare(j) for j in jobs]
    outs = {}
    origs = {}
    for r in res:
        if r.parsed and r.out is not None and specclient.sendable(r.out):
            outs.setdefault(r.out, None)
            if r.mode == 'minify' and specclient.sendable(r.text):
                origs.setdefault(r.text, None)
    olist = list(outs)
    for o, rep in zip(olist, spec.parse_many(olist)):
        outs[o] = rep
    # how the reference parser reads the ORIGINAL text (a C03-class deviation of the parser on the original is
    # inherited by the output; it is told apart from a printer defect)
    spec_orig = {}
    ol = sorted(set(r.text for r in res if r.parsed and specclient.sendable(r.text)))
    for o, rep in zip(ol, spec.parse_many(ol)):
        spec_orig[o] = rep
    tok_out, tok_orig = {}, {}
    mouts = sorted(set(r.out for r in res if r.parsed and r.out is not None and r.mode == 'minify' and r.out in outs))
    for o, t, a in zip(mouts, spec.tokens_many(mouts), spec.asi_many(mouts)):
        tok_out[o] = (t, a)
    glist = list(origs)
    for o, t, a in zip(glist, spec.tokens_many(glist), spec.asi_many(glist)):
        tok_orig[o] = (t, a)
    for r in res:
        if not r.parsed or r.out is None:
            continue
        if r.out not in outs:
            r.parsed = False        # lone surrogates: outside the model's and the oracle's domain
            continue
        so = spec_orig.get(r.text)
        r.orig_dev = not (so is not None and so[0] == 'ok' and so[1] == treedump.dump(r.tree))
        _judge(r, outs[r.out], tok_out.get(r.out), tok_orig.get(r.text))
    return res


def _judge(r, spec_out, tk_out, tk_orig):
    drop = (r.mode == 'minify' and bool(r.cfg))
    P = 'P' if r.mode == 'pretty' else 'M'
    want_raw = treedump.dump(r.tree)
    if r.mode == 'pretty':
        want, removed_want = want_raw, 0
    else:
        want, removed_want = norm_tree(want_raw, drop)
    # 1/2: the real parser on the output
    tree2 = None
    rp = getattr(r, 'reparse', None)
    if rp is None:
        try:
            rp = ('ok', parse(r.out, r.wc))
        except RecursionError:
            rp = ('recursion', None)
        except Exception as e:
            rp = ('err', e)
    if rp[0] == 'recursion':
        r.parsed = False
        return
    if rp[0] == 'ok':
        tree2 = rp[1]
    else:
        e = rp[1]
        r.problems.append((P + '1', 'the parser rejects its own output: %s: %s' % (type(e).__name__, e)))
    removed_got = None
    if tree2 is not None:
        got = treedump.dump(tree2)
        if r.mode == 'minify':
            got, removed_got = norm_tree(got, drop)
        if got != want:
            r.problems.append((P + '2', 're-parsed tree differs: %s' % first_tree_diff(want, got)))
    # 3/4: the reference parser on the output
    if spec_out[0] != 'ok':
        r.problems.append((P + '3', 'the ES5 reference parser rejects the output at offset %s: %s' % (spec_out[1], spec_out[2])))
    else:
        sgot = spec_out[1]
        if r.mode == 'minify':
            sgot, _ = norm_tree(sgot, drop)
        if sgot != want:
            r.problems.append((P + '4', 'the ES5 reference parser reads a different tree: %s' % first_tree_diff(want, sgot)))
    # 5: fixpoint / token level
    if r.mode == 'pretty':
        if tree2 is not None:
            try:
                out2 = pretty(tree2, r.cfg)
            except Exception as e:
                out2 = '<%s>' % type(e).__name__
            if out2 != r.out:
                r.problems.append(('P5', 'not a fixpoint: second print %r' % (out2[:300],)))
    else:
        if r.orig_dev:
            pass        # the reference parser reads the original differently: its token sequence is no yardstick
        elif tk_out is not None and tk_orig is not None and tk_out[0][0] == 'ok' and tk_orig[0][0] == 'ok' \
                and tk_out[1][0] == 'ok' and tk_orig[1][0] == 'ok':
            e_orig = collapse_parens(eff_tokens(tk_orig[0][1], tk_orig[1][1], len(r.text)))
            e_out = collapse_parens(eff_tokens(tk_out[0][1], tk_out[1][1], len(r.out)))
            if not drop:
                if e_orig != e_out:
                    r.problems.append(('M5', 'token sequence changed: %s' % (first_seq_diff(e_orig, e_out),)))
                if tk_out[1][1]:
                    r.problems.append(('M6', 'output without drop_semi relies on ASI at offsets %r' % (tk_out[1][1],)))
            else:
                ok, deleted, mm = del_only_semis(e_orig, e_out)
                if not ok:
                    r.problems.append(('M5', 'token sequence changed (other than deleted `;`): %r' % (mm,)))
                elif removed_got is not None and not r.problems:
                    # every deleted `;` is an EmptyStatement removed from a statement list
                    want_del = removed_want - removed_got
                    if deleted != want_del:
                        r.problems.append(('M5', '%d `;` tokens vanished but %d empty statements were removed' % (deleted, want_del)))
    r.tree2 = tree2


def first_seq_diff(a, b):
    for i, (x, y) in enumerate(zip(a, b)):
        if x != y:
            return 'token %d: %r became %r' % (i, x, y)
    return 'length %d became %d (%r)' % (len(a), len(b), (a[len(b):] or b[len(a):])[:3])


def first_tree_diff(a, b, path='$'):
    if isinstance(a, proto.Node) and isinstance(b, proto.Node):
        if a.kind != b.kind:
            return '%s: kind %s vs %s' % (path, a.kind, b.kind)
        ka, kb = [k for k, _ in a.attrs], [k for k, _ in b.attrs]
        if ka != kb:
            return '%s: attributes %r vs %r' % (path, ka, kb)
        for (k, x), (_, y) in zip(a.attrs, b.attrs):
            d = first_tree_diff(x, y, '%s.%s' % (path, k))
            if d:
                return d
        return None
    if isinstance(a, list) and isinstance(b, list):
        for i, (x, y) in enumerate(zip(a, b)):
            d = first_tree_diff(x, y, '%s[%d]' % (path, i))
            if d:
                return d
        if len(a) != len(b):
            return '%s: %d items vs %d' % (path, len(a), len(b))
        return None
    if a != b:
        return '%s: %r vs %r' % (path, _short(a), _short(b))
    return None


def _short(v):
    s = repr(v)
    return s if len(s) < 120 else s[:117] + '...'


def judge_pretty(spec, text, wc, indent):
    return judge_many(spec, [('pretty', text, wc, indent)])[0]


def judge_minify(spec, text, wc, drop):
    return judge_many(spec, [('minify', text, wc, drop)])[0]


# ----------------------------------------------------------------------------- structural classes of known findings

def is_id_part(c):
    """ES5 7.6 IdentifierPart (without the unicode escape)"""
    return c in '$_\u200c\u200d' or unicodedata.category(c) in ('Lu', 'Ll', 'Lt', 'Lm', 'Lo', 'Nl', 'Mn', 'Mc', 'Nd', 'Pc')


PY_W = re.compile(r'\w')
DEC_INT = re.compile(r'^(?:0|[1-9][0-9]*)$')


def is_regex_frag(t):
    return len(t) >= 2 and t[0] == '/' and t != '/=' and not t.startswith('//') and not t.startswith('/*')


def frag_pairs(frs):
    """adjacent (left, right) pairs of non-empty fragments with nothing between them"""
    xs = [f for f in frs if f != '']
    return list(zip(xs, xs[1:]))


LAYOUT_TAGS = ('{', '}')


def skeleton(tree):
    """the walk of the real definitions with a neutral rule set: text fragments as they are, `{` `}` for
    OpenBlock/CloseBlock and a tag `;<kind>` per EndStatement (`;body:<kind>` for the (OptionalSpace, EndStatement)
    run, i.e. an empty statement in a body slot introduced by OptionalSpace) — used only to classify known findings"""
    from calmjs.parse.unparsers import es5
    from calmjs.parse import ruletypes as rt
    from calmjs.parse.ruletypes import StreamFragment

    def frag(t):
        def h(dispatcher, node, before, after, prev):
            yield StreamFragment(t(node) if callable(t) else t, None, None, None, None)
        return h

    def nothing(dispatcher, node, before, after, prev):
        return
        yield       # pragma: no cover

    def rules():
        return {'layout_handlers': {
            rt.OpenBlock: frag('{'), rt.CloseBlock: frag('}'), rt.OptionalSpace: nothing,
            rt.EndStatement: frag(lambda n: ';' + type(n).__name__),
            (rt.OptionalSpace, rt.EndStatement): frag(lambda n: ';body:' + type(n).__name__),
        }}
    return [f.text for f in es5.Unparser(rules=(rules,))(tree)]


def is_end_tag(t):
    return t.startswith(';') and len(t) > 1


def kf02e(sk):
    """a statement's `;` (not an empty statement's) after which only braces and statement ends follow until the end
    of the output, the first brace being a `{`: the `;` is dropped although a `{` comes next"""
    for i, t in enumerate(sk):
        if is_end_tag(t) and t != ';EmptyStatement':
            rest = sk[i + 1:]
            if all(x in LAYOUT_TAGS or is_end_tag(x) for x in rest):
                braces = [x for x in rest if x in LAYOUT_TAGS]
                if braces and braces[0] == '{':
                    return True
    return False


RESTRICTED_KW = ('return', 'throw', 'break', 'continue')


def is_comment_frag(t):
    return t.startswith('/*') or t.startswith('//')


def kf13a(frs):
    """pretty output: a comment (which the printer always follows by a line break) directly after the keyword of a
    restricted production"""
    xs = [f for f in frs if f.strip(' \t') != '']
    return any(a in RESTRICTED_KW and is_comment_frag(b) for a, b in zip(xs, xs[1:]))


def comment_texts(node):
    """comments carried by a calmjs tree, in tree order"""
    from calmjs.parse.asttypes import Node
    out = []

    def go(n):
        if isinstance(n, Node):
            c = getattr(n, 'comments', None)
            if c is not None:
                for x in c:
                    out.append(getattr(x, 'value', None))
            for k, v in vars(n).items():
                if k == 'comments':
                    continue
                go(v)
        elif isinstance(n, (list, tuple)):
            for x in n:
                go(x)
    go(node)
    return out


def classify(r):
    """set of known-finding class ids whose structural pattern occurs in the (failing) case r"""
    out = set()
    try:
        frs = fragments(r.mode, r.cfg, r.tree)
    except Exception:
        frs = []
    for a, b in frag_pairs(frs):
        if DEC_INT.match(a) and b == '.':
            out.add('KF-01')            # decimal integer literal directly followed by the `.` of a member access
        if r.mode == 'minify':
            # (KF-02a `/` directly before a regex literal and KF-02d the dropped body `;` of `while` are FIXED in
            #  /repo, commits 9cebc23 and c249e7a: a return of either is an ordinary violation, not a class)
            if is_regex_frag(a) and b[:1] and (is_id_part(b[0])):
                out.add('KF-02b')       # regular expression literal directly followed by in / instanceof
            if a[:1].isdigit() and a[-1:] == '.' and is_id_part(b[0]):
                out.add('KF-02f')       # numeric literal ending in `.` directly followed by in / instanceof
            if a and b and is_id_part(a[-1]) and not is_regex_frag(a) and is_id_part(b[0]) and a[-1] != '$' and b[0] != '$' and \
                    not (PY_W.match(a[-1]) and PY_W.match(b[0])) and a[:1] not in '\'"':
                out.add('KF-02c')       # identifier characters outside Python's \w next to a keyword
    if r.mode == 'minify' and r.cfg:
        try:
            sk = skeleton(r.tree)
        except Exception:
            sk = []
        if kf02e(sk):
            out.add('KF-02e')
    if r.mode == 'pretty' and r.wc:
        if kf13a(frs):
            out.add('KF-13a')
        t2 = getattr(r, 'tree2', None)
        if t2 is not None and comment_texts(t2) != comment_texts(r.tree):
            out.add('KF-13b')           # the comments captured from the printed text differ from those of the tree
    return out


# ----------------------------------------------------------------------------- targeted token-adjacency programs (C02)

ID_ATOMS = ['a', '$', '_', 'a1', 'a$', '$a', 'in1', 'é', 'à', 'a‿', 'x٠', 'a‍', 'this', 'null', 'true', 'false']
NUM_ATOMS = ['0', '1', '10', '1.', '.5', '1.5', '1e3', '1e+3', '1E-3', '0x1', '0xe', '0XAB', '017', '1.e1', '.5e1']
STR_ATOMS = ["'a'", '"b"', "''", "'a\\\nb'", "'\\''", "'//'", "'/*'"]
RE_ATOMS = ['/re/', '/re/g', '/=x/', '/[/]/i', '/a\\//m', '/ /', '/*x/'.replace('*', '.'), '/x/gim']
BIN_OPS = ['||', '&&', '|', '^', '&', '==', '!=', '===', '!==', '<', '>', '<=', '>=', 'instanceof', 'in', '<<', '>>', '>>>',
           '+', '-', '*', '/', '%', ',']
ASSIGN_OPS = ['=', '+=', '-=', '*=', '/=', '%=', '<<=', '>>=', '>>>=', '&=', '|=', '^=']
UN_OPS = ['delete', 'void', 'typeof', '++', '--', '+', '-', '~', '!']


def atoms_left():
    """expressions usable as a left operand: (text, class label)"""
    out = [(x, 'id') for x in ID_ATOMS] + [(x, 'num') for x in NUM_ATOMS] + [(x, 'str') for x in STR_ATOMS]
    out += [(x, 'regex') for x in RE_ATOMS]
    out += [('a++', 'postfix'), ('a--', 'postfix'), ('(a)', 'paren'), ('[1]', 'bracket'), ('a[0]', 'bracket'), ('f()', 'paren'),
            ('a.b', 'id'), ('a.in', 'id'), ('a.typeof', 'id'), ('new f', 'id'), ('({})', 'paren'), ('1..x', 'id'), ('/re/.x', 'id'),
            ('+a', 'unary'), ('-1', 'unary'), ('typeof a', 'unary'), ('!a', 'unary')]
    return out


def atoms_right():
    out = [(x, 'id') for x in ID_ATOMS] + [(x, 'num') for x in NUM_ATOMS] + [(x, 'str') for x in STR_ATOMS]
    out += [(x, 'regex') for x in RE_ATOMS]
    out += [('(a)', 'paren'), ('[1]', 'bracket'), ('{}', 'brace'), ('{a:1}', 'brace'), ('function(){}', 'kw'), ('function f(){}', 'kw'),
            ('new f', 'kw'), ('new f()', 'kw'), ('a.b', 'id'), ('f()', 'id'), ('/re/.test(a)', 'regex'), ('/re/g.x', 'regex')]
    for op in UN_OPS:
        for v in ('b', '1', '.5', '/re/', "'s'", '+b', '-b', '++b', '--b', 'typeof b', '!b', '(b)'):
            if op in ('++', '--') and v != 'b':
                continue
            if op == 'delete' and v != 'b':
                continue
            out.append(('%s %s' % (op, v), 'unary'))
    return out


def targeted_programs():
    """-> list of (text, slot label).  Every text is built with single spaces between tokens (so that no two tokens touch
    in the SOURCE); the minifier then decides which separators to keep."""
    P = []
    L, Rr = atoms_left(), atoms_right()
    # slot: binary operands
    for l, lc in L:
        for op in BIN_OPS:
            P.append(('x = ( %s %s b ) ;' % (l, op), 'bin-left:%s:%s' % (lc, op)))
            P.append(('%s %s b' % (l, op) if not l.startswith('{') else '( %s %s b )' % (l, op), 'bin-left-stmt:%s:%s' % (lc, op)))
    for r, rc in Rr:
        for op in BIN_OPS:
            P.append(('x = ( a %s %s ) ;' % (op, r), 'bin-right:%s:%s' % (op, rc)))
            P.append(('a %s %s' % (op, r), 'bin-right-stmt:%s:%s' % (op, rc)))
    # full crosses of class representatives around the dangerous operators
    LX = ['a', '$', 'à', 'a‿', '1', '1.', '.5', '0x1', '1e3', "'a'", '/re/', '/re/g', 'a++', 'a--', '(a)', '[1]', 'this']
    RX = ['a', '$', 'é', 'in1', '1', '.5', '0x1', "'a'", '"b"', '/re/', '/=x/', '(a)', '[1]', '{}', '+ b', '- b', '++ b', '-- b', '! b',
          '~ b', 'typeof b', 'void 0', 'new f', 'function(){}']
    for l in LX:
        for op in ('in', 'instanceof', '/', '+', '-', '<', ',', '%'):
            for r in RX:
                P.append(('x = %s %s %s ;' % (l, op, r), 'bin-cross:%s' % op))
    # slot: assignment
    for op in ASSIGN_OPS:
        for r, rc in Rr:
            P.append(('a %s %s ;' % (op, r), 'assign:%s:%s' % (op, rc)))
            P.append(('var v = %s , w = %s ;' % (r, r), 'vardecl:%s' % rc))
    # slot: unary operand (incl. unary after unary)
    for r, rc in Rr:
        for op in UN_OPS:
            if op in ('++', '--', 'delete'):
                continue
            P.append(('x = %s %s ;' % (op, r), 'unary:%s:%s' % (op, rc)))
    for t in ('++ a', '-- a', '++ a . b', '-- a [ 0 ]', 'delete a . b', 'delete a [ /re/ ]', '- - a', '+ + a', '- -- a', '+ ++ a',
              '- + - + a', 'a ++ + ++ b', 'a -- - -- b', 'a ++ + + b', 'a + + + b', 'a - - - b', 'a ++ - b', 'a -- + b', 'a + ++ b',
              'a - -- b', 'a ++ + b ++', 'a ++ \n ++ b', 'typeof typeof a', 'void typeof - a', '! ! a', '~ ~ a', '! ~ - + a',
              'a < ! -- b', 'a > -- b', 'a -- > b', 'a - - > b', 'a + + b ++'):
        P.append((t + ' ;', 'unary-chain'))
    # slot: member access / call on every atom
    for l, lc in L:
        P.append(('x = %s . y ;' % l, 'member-dot:%s' % lc))
        P.append(('x = %s [ 0 ] ;' % l, 'member-bracket:%s' % lc))
        P.append(('x = %s . in . typeof ( 1 ) ;' % l, 'member-kw:%s' % lc))
        P.append(('x = a [ %s ] ;' % l, 'index:%s' % lc))
        P.append(('x = f ( %s , %s ) ;' % (l, l), 'args:%s' % lc))
        P.append(('x = [ %s , %s ] ;' % (l, l), 'array:%s' % lc))
        P.append(('x = { k : %s , \'q\' : %s , 1 : %s } ;' % (l, l, l), 'object:%s' % lc))
        P.append(('x = a ? %s : %s ;' % (l, l), 'cond:%s' % lc))
        P.append(('x = %s ? %s : b ;' % (l, l), 'cond-left:%s' % lc))
    # slot: keyword followed by an expression / statement
    for r, rc in Rr:
        if r.startswith('{') or r.startswith('function'):
            rs = '( %s )' % r
        else:
            rs = r
        P.append(('function f ( ) { return %s }' % r, 'return:%s' % rc))
        P.append(('function f ( ) { return %s ; }' % r, 'return;:%s' % rc))
        P.append(('throw %s' % r, 'throw:%s' % rc))
        P.append(('switch ( a ) { case %s : b ; case 2 : default : %s }' % (r, rs), 'case:%s' % rc))
        P.append(('x = new %s' % rs, 'new:%s' % rc))
        P.append(('if ( a ) %s ; else %s' % (rs, rs), 'else:%s' % rc))
        P.append(('do %s ; while ( %s )' % (rs, r), 'do:%s' % rc))
        P.append(('for ( a in %s ) ;' % r, 'forin:%s' % rc))
        P.append(('for ( var a in %s ) b' % r, 'forvarin:%s' % rc))
        P.append(('for ( %s ; %s ; %s ) %s' % (rs if ' in ' not in rs else 'a', r, r, rs), 'for:%s' % rc))
        P.append(('for ( var i = %s , j = %s ; ; ) ;' % (r if ' in ' not in r else 'a', r if ' in ' not in r else 'a'), 'forvar:%s' % rc))
        P.append(('while ( %s ) %s' % (r, rs), 'while:%s' % rc))
        P.append(('with ( %s ) %s' % (r, rs), 'with:%s' % rc))
        P.append(('l : %s' % rs, 'label:%s' % rc))
        P.append(('%s \n %s' % (rs, 'b'), 'stmt-seq:%s' % rc))
        P.append(('{ } %s' % rs, 'after-block:%s' % rc))
        P.append(('function g ( ) { } %s' % rs, 'after-funcdecl:%s' % rc))
        P.append(('if ( a ) { } %s' % rs, 'after-if-block:%s' % rc))
        P.append(('a ; %s' % rs, 'after-semi:%s' % rc))
    # slot: empty statements as bodies, at the end of blocks / functions / the program / clauses, followed or not
    bodies = ['while ( 1 ) ;', 'for ( ; ; ) ;', 'for ( a in b ) ;', 'for ( var a in b ) ;', 'if ( a ) ;', 'if ( a ) ; else ;',
              'if ( a ) b ; else ;', 'if ( a ) ; else b', 'with ( a ) ;', 'l : ;', 'do ; while ( 0 )', 'do ; while ( 0 ) ;',
              'if ( a ) while ( b ) ;', 'l : while ( a ) ;', 'if ( a ) l : while ( b ) ; else while ( c ) ;', 'for ( ; ; ) while ( a ) ;',
              'with ( a ) while ( b ) ;', 'while ( a ) while ( b ) ;', 'do while ( a ) ; while ( b )', 'if ( a ) for ( ; ; ) ;',
              'while ( a ) if ( b ) ;', 'while ( a ) if ( b ) ; else ;', 'while ( a ) l : ;', 'while ( a ) { }', 'while ( a ) { ; }',
              'if ( a ) while ( b ) ; else c', 'for ( x in y ) while ( z ) ;', ';', '; ;', 'a ; ;', '{ ; }', '{ }', 'a', 'a ;', 'var v',
              'return', 'break', 'continue', 'debugger', 'throw a', 'a ++', 'x = function ( ) { }', 'x = { }', 'do a ; while ( b )',
              'var v = function ( ) { while ( a ) ; }', 'x = { get p ( ) { while ( a ) ; } , set p ( v ) { while ( a ) ; } }']
    wraps = ['%s', '%s b', '%s ; b', '{ %s }', '{ %s } b', '{ %s ; }', '{ %s { } }', '%s { }', '%s { } b', '%s { b }', '%s ;', '%s ; { }',
             '{ { %s } }', 'function f ( ) { %s }', 'function f ( ) { %s } b', 'function f ( ) { %s { } }', '( function ( ) { %s } ) ( )',
             'x = function ( ) { %s }', 'x = function ( ) { %s { } }', 'switch ( a ) { case 1 : %s }', 'switch ( a ) { case 1 : %s case 2 : }',
             'switch ( a ) { default : %s { } }', 'try { %s } catch ( e ) { %s } finally { %s }', 'if ( c ) { %s } else { %s }',
             'while ( 1 ) { %s }', 'do { %s } while ( 0 )', 'l : { %s }', 'if ( c ) %s', 'x = { get p ( ) { %s } }']
    for b in bodies:
        for w in wraps:
            if b in ('return',) and 'function' not in w and 'get p' not in w:
                continue
            if b in ('break', 'continue') and 'while ( 1 ) { %s }' != w and 'do {' not in w:
                continue
            if w == 'if ( c ) %s' and (b.startswith('if') and 'else' not in b):
                pass
            P.append((w.replace('%s', b), 'empty-body'))
    # fixed extras: statement adjacency and literals in odd places
    for t in ['a \n b', 'a ; b', '{ } a', '{ } \n /re/ . test ( a )', 'if ( a ) { } b', 'function f ( ) { } a', 'var a \n var b',
              'x = 1 . y', 'x = 1 .. y', 'x = 1.0 . y', 'x = 1 [ 0 ]', 'x = 1 . toString ( )', 'x = - 1 . y', 'x = 1 . y . z',
              'x = 0 . y', 'x = 10 . y', 'x = 017 . y', 'x = 0x1 . y', 'x = 1e3 . y', 'x = .5 . y', 'x = 1. . y', 'x = ( 1 ) . y',
              'x = a / /re/', 'x = a / /re/g . y', 'x = a /= /re/', 'x = 1 / /=x/', 'x = ( a ) / /re/', 'x = a / / /',
              'x = /re/ / /re/', 'x = /re/ / 2', 'x = a / b / c', 'x = a / ( b ) / c', 'x = a ++ / b', 'x = a / ++ b',
              'x = /re/ in b', 'x = /re/g in b', 'x = /re/ instanceof b', 'x = /re/in in b', 'x = a in /re/', 'x = a in in1',
              'x = à in b', 'x = a‿ instanceof b', 'x = a in b̀', 'x = 1 in b', 'x = 1. in b',
              'x = .5 in b', 'x = 0x1 in b', "x = 'a' in b", 'x = a in 1', 'x = a in .5', "x = a in 'b'", 'x = this in b', 'x = a in this',
              'for ( à in b ) ;', 'for ( var à in b ) ;', 'x = typeof à', 'x = typeof /re/', 'x = void .5', 'x = typeof .5',
              'x = typeof 1', "x = typeof 'a'", 'x = typeof ( a )', 'x = typeof [ ]', 'x = typeof { }', 'x = typeof function ( ) { }',
              'x = new new a', 'x = new a ( ) ( )', 'x = new ( a ( ) ) ( )', 'x = new a . b ( )', 'x = new ( f ( ) . g )',
              'var a = 1 , b = .5 , c = /re/ , d', 'x = a ? .5 : .5', 'x = a ? /re/ : /x/', 'x = { a : 1 , in : 2 , 1 : 3 , "s" : 4 }',
              'x = [ , ]', 'x = [ 1 , , 2 ]', 'x = [ , , ]', 'x = [ 1 , ]', 'x = [ /re/ , /x/ ]', 'x = [ .5 , .5 ]', 'x = a , b , /re/',
              "x = 'a\\\nb' + 'c\\\r\nd'", 'x = "a\\ b"', 'function f ( a , b ) { }', 'x = function f ( ) { }',
              'x = { get a ( ) { } , set a ( v ) { } }', 'x = { get : 1 , set : 2 }', 'get = set', 'x = { get in ( ) { } }',
              'if ( a ) b ; else if ( c ) d ; else e', 'if ( a ) { } else { }', 'if ( a ) b \n else c', 'do a \n while ( b ) \n c',
              'try { } catch ( e ) { } finally { }', 'switch ( a ) { }', 'l : for ( ; ; ) { break l ; continue l }',
              'function f ( ) { return \n a }', 'function f ( ) { return ; a }', 'a \n ++ \n b'.replace('++ \n', '; ++'), 'a \n ( b )',
              'x = a \n /re/ . y'.replace('\n /re/', '; /re/'), 'var in1 = 1', 'x = a instanceof instanceof1', 'x = a < b > c',
              'x = a << b >> c >>> d', 'x = a < < b'.replace('< <', '< +'), 'x = a & & b'.replace('& &', '& ~'), 'x = a | | b'.replace('| |', '| !'),
              'x = a = = b'.replace('= =', '= +'), 'x = a ! = b'.replace('! =', '!= !'), 'x = a == = b'.replace('== =', '== -'),
              'x = a + ( + b )', 'x = a - ( - b )', 'x = ( a ++ ) + b', 'x = a + ( ++ b )', 'x = ( a , b )', 'x = ( ( a ) )',
              'debugger', 'x = this', 'this . x = null', 'x = true . y', 'x = null in false']:
        P.append((t, 'fixed'))
    seen = set()
    out = []
    for t, s in P:
        if t not in seen:
            seen.add(t)
            out.append((t, s))
    return out


# ----------------------------------------------------------------------------- shared run logic of checks C01 / C02

# word operators next to operands whose FIRST and LAST characters are in different classes (a number ending in a dot,
# an identifier ending in a combining mark / connector / non-ASCII digit): the space handlers look at one character
EDGE_OPERANDS = ['1.', '0.', '5.e1', '.5', 'A\u0300', 'a\u203f', 'caf\u00e9', 'x\u0660', '$', '_', '$a', 'a$', '"s"', '/re/', '/re/g', '[1]',
                 '(a)', '{}', 'this', '0x1F', 'e\u0301\u0301',
                 # identifier characters that are not \\w for Python (should the lexer ever accept them, the space handlers
                 # must know): Other_ID_Start, letterlike symbols, and a non-BMP letter
                 '\u2118', '\u212ea', 'b\u309b', '\U00010400x', '\u00aa', '\u00b5m', '\u02ee',
                 # identifiers spelled with unicode escapes, and characters ES5 allows that the lexer tables may lack
                 '\\u0061bc', 'a\\u0062', '\\u4e2d\\u6587', '\\u2160x', 'x\\u200c', '\u4e2d', '\ud55c', '\u2160']
EDGE_FORMS = ['typeof %s;', 'void %s;', 'delete %s;', 'x = typeof %s == y;', 'x = %s in y;', 'x = y in %s;', 'x = %s instanceof y;',
              'x = y instanceof %s;', 'function f(){ return %s; }', 'throw %s;', 'x = new %s;', 'if (a) %s; else %s;',
              'do %s; while (%s);', 'for (var k in %s);', 'x = a + %s - %s;', 'x = a + +%s - -%s;', 'var v = %s, w = %s;',
              'switch (%s) { case %s: }', 'x = a ? %s : %s;', 'x = %s / 2 / %s;']
EDGE = []
for _f in EDGE_FORMS:
    for _o in EDGE_OPERANDS:
        if _o == '{}' and _f.startswith('%s'):
            continue
        EDGE.append(_f.replace('%s', _o))

# statement boundaries: every way a statement can END (last token class; block-like statements take no `;`) next to every
# way the following statement can START (the printers put a line break resp. nothing between them; the restricted
# productions and the `(` `[` `+` `-` `/` `++` `--` continuation hazards of ASI live here), with and without a final `;`
STMT_ENDS = [('a', 1), ('f()', 1), ('a[0]', 1), ('a++', 1), ('a--', 1), ('1', 1), ("'s'", 1), ('/r/', 1), ('this', 1), ('x = {}', 1),
             ('x = function(){}', 1), ('var v', 1), ('var w = 1', 1), ('do x; while(y)', 1), ('debugger', 1), ('if (a) {}', 0),
             ('if (a) {} else {}', 0), ('function g(){}', 0), ('while(a){}', 0), ('for(;;){}', 0), ('try{}catch(e){}', 0),
             ('try{}finally{}', 0), ('switch(a){}', 0), ('l:{}', 0), ('{}', 0), ('{a}', 0), ('with(a){}', 0), (';', 0)]
STMT_STARTS = ['/re/.test(a)', '/=re/.exec(b)', '++a', '--a', '+a', '-a', '(a)', '(function(){})()', '[a].b', 'a', 'function f(){}', '!a',
               '~a', 'typeof a', "'s'.x", '1..x', '.5 + a', 'new A', 'this.x', '{}', '{b}', 'var v = 1', 'if (a) b', 'for(;;) c', 'l: d',
               'delete a.b', 'void 0', 'do x; while(y)', 'while(a);', 'debugger', 'null', 'true', 'in_', 'instanceof_']
PAIRS = []
for _e, _semi in STMT_ENDS:
    for _s in STMT_STARTS:
        PAIRS.append('%s%s%s' % (_e, ';' if _semi else '', _s))                  # no final `;`: ASI at the end of input
        PAIRS.append('%s%s\n%s;' % (_e, ';' if _semi else '', _s))
SINGLES = []
for _s in STMT_STARTS:
    SINGLES += [_s, 'function h(){%s}' % _s, 'function h(){return\n%s}' % _s, 'while(a){break\n%s}' % _s]

FIXED = [
    '', ';', 'a;', 'a', '{}', '{a;b}', 'var a;', 'var a = 1, b;', 'x = (a, b);', 'x = a ? b : c;', 'if (a) b;', 'if (a) b; else c;',
    'if (a) {} else if (b) {} else {}', 'for (;;) ;', 'for (a; b; c) d;', 'for (var i = 0, j = 1; i < j; i++) {}', 'for (a in b) c;',
    'for (var a in b) c;', 'for (var a = 1 in b) c;', 'while (a) b;', 'while (a) ;', 'do a; while (b);', 'do {} while (b)', 'do ; while (0)',
    'with (a) b;', 'l: a;', 'l: ;', 'l: for (;;) { break l; continue l; break; continue; }', 'function f() { return; return a; }',
    'function f(a, b) {}', 'x = function () {};', 'x = function g(a) { return a; };', '(function () {})();', 'throw a;',
    'try {} catch (e) {}', 'try {} finally {}', 'try { a; } catch (e) { b; } finally { c; }', 'switch (a) {}',
    'switch (a) { case 1: b; break; case 2: default: c; }', 'debugger;', 'x = this;', 'x = null;', 'x = true; y = false;',
    'x = 1; x = 1.; x = .5; x = 1.5; x = 1e3; x = 1E+3; x = 1e-3; x = 0x1F; x = 0XaB; x = 017; x = 0; x = 00;',
    "x = 'a'; x = \"b\"; x = ''; x = 'it\\'s'; x = '\\n\\x41\\u0041\\0\\101'; x = 'a\\\nb'; x = \"a\\\r\nb\";",
    'x = /re/; x = /re/gi; x = /[/]/; x = /\\//; x = /=x/; x = / /;', 'x = [];', 'x = [1, 2];', 'x = [,];', 'x = [1,,2,,];', 'x = [1,];',
    'x = {};', 'x = {a: 1, "b": 2, 3: 4, if: 5};', 'x = {get a() { return 1; }, set a(v) {}};', 'x = {a: 1,};', 'x = a.b.c;',
    'x = a[b][c];', 'x = a.if.in;', 'x = f(); x = f(a, b); x = new F; x = new F(); x = new F(a).b; x = new (f())();',
    'x = a++; x = a--; ++a; --a; x = -a; x = +a; x = !a; x = ~a; x = typeof a; x = void 0; delete a.b;',
    'x = a + b - c * d / e % f; x = a << b >> c >>> d; x = a < b > c <= d >= e; x = a == b != c === d !== e;',
    'x = a & b ^ c | d && e || f; x = a in b; x = a instanceof b; x = (a + b) * c; x = a + (b * c); x = ((a));',
    'x = a = b; x += 1; x -= 1; x *= 1; x /= 1; x %= 1; x <<= 1; x >>= 1; x >>>= 1; x &= 1; x |= 1; x ^= 1;',
    'x = a + +b; x = a - -b; x = a + ++b; x = a - --b; x = a++ + b; x = a-- - b; x = - -a; x = + +a; x = - --a;',
    'x = a / /re/; x = /re/ / a; x = a /= /re/;', 'x = typeof /re/; x = void /re/;', 'function f() { return /re/; }',
    'x = 1 .y; x = 1..y; x = 1.0.y; x = (1).y; x = 1 [0];', 'x = /re/ in b; x = /re/g instanceof b;', 'x = à in b;',
    'a\nb', 'a\n++b'.replace('\n', ';\n'), 'var a\nvar b', 'x = function () { while (1) ; };', 'function f() { while (1) ; }', 'while (a) ;',
    'a; {}', 'while (a) ; {}', '{ ; }', ';;', 'a;;b', 'if (a) ; else ;', 'if (a) while (b) ;', 'x = {a: {b: [1, {c: 2}]}};',
    '/* c */ a; // d\nb /* e */;', 'x = /* c */ 1;', 'function f() { return /* c */ 1; }', 'x = { /* c */ a: 1 };', '// only\n',
    'if (a) /* c */ b;', 'x = [ /* c */ 1, /* d */ ];', 'x = a /* c */ + /* d */ b;', 'switch (a) { /* c */ case 1: /* d */ b; }',
]


def program_texts(ctx, label, n_g1, n_gen):
    """FIXED + corpus + G1 sample + grammar-generated programs with every literal spelling, wild layouts, comments"""
    import corpus
    import genjs
    rng = ctx.sub_rng('programs:' + label)
    texts = list(FIXED)
    # the edge-operand forms: all of them in the thorough tier, a seeded sample of a third otherwise
    texts += EDGE if ctx.tier == 'thorough' else rng.sample(EDGE, len(EDGE) // 3)
    texts += SINGLES
    texts += PAIRS if ctx.tier == 'thorough' else rng.sample(PAIRS, len(PAIRS) // 6)
    for e in corpus.extra(ctx.pid):
        texts.append(e['text'] if isinstance(e, dict) else e)
    g1 = corpus.g1_valid()
    texts += rng.sample(g1, min(len(g1), n_g1))
    stats = {}
    layouts = [genjs.Layout('spaced'), genjs.Layout('min'), genjs.Layout('wild'), genjs.Layout('wild', drop_semi=0.6),
               genjs.Layout('wild', comments=0.2), genjs.Layout('spaced', drop_semi=1.0), genjs.Layout('wild', unicode_terms=True)]
    for text, toks, lo in genjs.programs(rng, n_gen, layouts=layouts, stats=stats):
        texts.append(text)
    small = genjs.Opts(max_depth=2, max_stmts=2)
    for text, toks, lo in genjs.programs(rng, n_gen, opts=small, layouts=layouts, stats=stats):
        texts.append(text)
    for k, v in sorted(stats.items()):
        ctx.bump('genjs:' + k, v)
    seen, out = set(), []
    for t in texts:
        if t not in seen:
            seen.add(t)
            out.append(t)
    return out


def job_of(r):
    return (r.mode, r.text, r.wc, r.cfg)


def known_ids(ctx):
    return {e['id'] for e in ctx.known_findings}


def classes_of(r):
    """all known-finding classes the failing case falls in (own classes + classes of a deviation on the ORIGINAL text)"""
    cls = classify(r)
    if r.orig_dev:
        from parts import kfclass
        from checks.C03 import tokenize_rough
        cls |= set(kfclass.classes(tokenize_rough(r.text)))
    codes = set(p[0] for p in r.problems)
    if r.out and codes and codes <= {'P1', 'P2', 'P5', 'M1', 'M2'}:
        # the ES5 reference parser reads the OUTPUT as the original tree, only calmjs's own parser does not: a deviation
        # of the parser on a valid text (its division/regex heuristic, C05 classes), not a printer defect
        from parts import kfclass
        from checks.C03 import tokenize_rough
        cls |= set(kfclass.classes(tokenize_rough(r.out))) & {'KF-05b', 'KF-05c'}
    return cls


def handle_results(ctx, spec, res, what, max_viol=3):
    """bookkeeping + verdict of judged cases.  Returns the list of unexplained failures (after shrinking, reported)."""
    import shrink
    import specclient
    ids = known_ids(ctx)
    unexplained = []
    n = 0
    for r in res:
        if not r.parsed:
            ctx.bump('%s:not-accepted-or-outside-domain' % what)
            continue
        n += 1
        ctx.case(r.key(), nontrivial=len(r.out or '') > 3)
        ctx.bump('%s:%s' % (what, r.mode if r.mode == 'pretty' else 'minify[drop_semi=%s]' % r.cfg))
        if r.mode == 'pretty':
            ctx.bump('indent:%r' % (r.cfg,))
        if r.wc:
            ctx.bump('%s:with-comments' % what)
        if r.orig_dev:
            ctx.bump('%s:original-read-differently-by-reference(C03 classes)' % what)
        if not r.problems:
            continue
        cls = classes_of(r) & ids
        if cls:
            for c in sorted(cls):
                ctx.bump('%s:known:%s' % (what, c))
            continue
        unexplained.append(r)
    for r in unexplained[:max_viol]:
        codes = set(p[0] for p in r.problems)

        def bad(t, r=r, codes=codes):
            if not specclient.sendable(t):
                return False
            q = judge_many(spec, [(r.mode, t, r.wc, r.cfg)])[0]
            return q.parsed and bool(set(p[0] for p in q.problems) & codes) and not (classes_of(q) & ids)
        small = shrink.shrink_text(r.text, bad, max_tests=500)
        q = judge_many(spec, [(r.mode, small, r.wc, r.cfg)])[0]
        if not (q.parsed and q.problems):
            q = r
        rep = q.replay()
        rep['original'] = r.text
        rep['classes_not_listed_for_this_property'] = sorted(classes_of(q))
        ctx.violation('%s %s: %s' % (what, q.mode + ('' if q.mode == 'pretty' else '[drop_semi=%s]' % q.cfg),
                                      '; '.join('%s %s' % p for p in q.problems[:2])), rep, True)
    return unexplained, n


def known_witnesses(ctx, spec):
    """replay of every open known finding of this property: KNOWN-FINDING line when it still fails in its class"""
    for e in ctx.known_findings:
        w = e.get('witness') or {}
        if 'text' not in w:
            continue
        mode = w.get('mode', 'pretty')
        cfg = w.get('indent', '  ') if mode == 'pretty' else bool(w.get('drop_semi'))
        r = judge_many(spec, [(mode, w['text'], bool(w.get('with_comments')), cfg)])[0]
        if r.parsed and r.problems and e['id'] in classes_of(r):
            ctx.known(e['id'], '%s (witness %r -> %r: %s)' % (e['what'], w['text'], r.out, r.problems[0][1][:160]))
        elif r.parsed and r.problems:
            ctx.violation('witness of %s fails outside its class: %s' % (e['id'], r.problems[0][1]), r.replay(), True)
        else:
            ctx.note('known finding %s no longer reproduces on its witness %r' % (e['id'], w['text']))


def tie(ctx, spec, texts, configs, judge_jobs_of):
    """S3/S4 (real printers vs Model.Unparse) on the texts and S2 (real parser vs Model.Parser) on the printed outputs.
    A difference is shrunk and judged; it is a violation only if the judge fails on it."""
    import shrink
    from parts import unparse_tie as ut
    from parts import parsetie
    if not getattr(ctx, 'drivers_ok', True):
        ctx.obligation('tie:S3', False, 'tie', 'drivers not built')
        return
    diffs = ut.unparse_tie(ctx, texts, configs, record=True, texts=True)
    by_id = dict((c.id, c) for c in configs)
    for d in diffs[:2]:
        if d['text'] is None:
            continue
        cfg = by_id[d['config']]

        def differs(t, cfg=cfg, wc=d['with_comments']):
            return bool(ut.unparse_tie(ctx, [(t, wc)], [cfg], record=False, texts=True))
        small = shrink.shrink_text(d['text'], differs, max_tests=200)
        res = judge_many(spec, judge_jobs_of(small))
        handle_results(ctx, spec, res, 'tie-difference')
    # S2 on printed outputs
    outs = []
    for t in texts:
        for job in judge_jobs_of(t)[:2]:
            r = _prepare(job)
            if r.parsed and r.out:
                outs.append(r.out)
    d2 = parsetie.full_tie(ctx, sorted(set(outs)), stage='S2:text->tree on printed outputs (lexer+LR+actions)')
    for d in d2[:2]:
        res = judge_many(spec, judge_jobs_of(d['text']))
        handle_results(ctx, spec, res, 'tie-difference')


def slot_typing(ctx, spec, results):
    """The hypothesis `wfVal` of the `*_stream_typed` theorems (Props/C01, C02): every tree the check printed — the
    parsed original and the tree read back from the output — respects the slot typing `es5Slot` (lean
    Model/TokenAdj.lean), evaluated by `drv_rt wf <tree>`.  A failure is a broken obligation; the judge has already
    run on the same case (a judge failure there is reported as a violation by `handle_results`)."""
    import shrink
    if not getattr(ctx, 'drivers_ok', True):
        ctx.obligation('slot typing holds on every parsed tree', False, 'tie', 'drivers not built')
        return
    drv = ctx.driver('drv_rt')
    seen = {}
    for r in results:
        if not r.parsed or r.tree is None:
            continue
        seen.setdefault((r.text, r.wc), r.tree)
        t2 = getattr(r, 'tree2', None)
        if t2 is not None and r.out is not None:
            seen.setdefault((r.out, r.wc), t2)
    keys = list(seen)
    lines = []
    for k in keys:
        try:
            lines.append('wf ' + proto.render(treedump.dump(seen[k], comments=True)))
        except RecursionError:
            lines.append('wf N')
    bad = []
    for i in range(0, len(lines), 200):
        for k, rep in zip(keys[i:i + 200], drv.ask_many(lines[i:i + 200])):
            ctx.bump('wf:' + ('T' if rep == 'T' else rep.split(' ')[0]))
            if rep != 'T':
                bad.append((k, rep))
    detail = '%d distinct (text, comments) trees evaluated by drv_rt; %d fail' % (len(keys), len(bad))
    for (text, wc), rep in bad[:2]:
        def still(t, wc=wc):
            try:
                tr = parse(t, wc)
            except Exception:
                return False
            return drv.ask('wf ' + proto.render(treedump.dump(tr, comments=True))) != 'T'
        small = shrink.shrink_text(text, still, max_tests=300) if still(text) else text
        detail += '; %r (with_comments=%s): %s, shrunk %r' % (text[:120], wc, rep, small[:120])
        # verdict logic: the property judge on the shrunk case decides whether this is a violation with an input
        res = judge_many(spec, [(m, small, wc, c) for m, c in (('pretty', '  '), ('minify', False), ('minify', True))])
        handle_results(ctx, spec, res, 'slot-typing-failure')
    ctx.obligation('slot typing holds on every parsed tree (hypothesis wfVal of pretty_stream_typed / minify*_stream_typed)',
                   not bad, 'tie', detail)


def replay_case(ctx, path):
    import json
    import specclient
    d = json.load(open(path))['replay']
    if 'text' not in d:
        print('replay file names broken obligations only:', json.dumps(d)[:2000])
        return 1
    spec = specclient.Spec(ctx)
    mode = d.get('mode', 'pretty')
    cfg = d.get('indent', '  ') if mode == 'pretty' else bool(d.get('drop_semi'))
    r = judge_many(spec, [(mode, d['text'], bool(d.get('with_comments')), cfg)])[0]
    print('mode     :', mode, repr(cfg), 'with_comments=%s' % bool(d.get('with_comments')))
    print('text     :', repr(d['text']))
    if not r.parsed:
        print('the text is not accepted by the parser (outside the quantifier)')
        return 2
    print('output   :', repr(r.out))
    for p in r.problems:
        print('problem  : %s %s' % p)
    print('classes  :', sorted(classes_of(r)))
    try:
        from parts import unparse_tie as ut
        cfgs = [c for c in ut.default_configs(obf=False, indents=[cfg] if mode == 'pretty' else [])
                if (mode == 'pretty' and c.ruleset == 'indent' and c.indent == cfg) or
                (mode == 'minify' and c.ruleset == 'minify%d' % cfg)]
        for c in cfgs[:1]:
            real, names = ut.real_fragments(c, r.tree)
            model = ut.model_fragments(ctx, c, r.tree, names)
            print('model agrees with implementation (fragments):', ut.first_diff(real, model) is None)
    except Exception as e:
        print('model side not available: %s' % e)
    return 1 if r.problems else 0
