"""
Tie S3 (fragment streams) and S4 (printed text): the real unparsers of calmjs.parse against the Lean
model (lean/CalmVerif/Model/Unparse.lean through `drv_unparse`), for every rule set users can build.

    unparse_tie(ctx, items, configs=None, stage='S3', record=True) -> list of differences

items    texts (parsed by the real parser, without and with comments), `(text, with_comments)` pairs,
         or asttypes nodes (used as they are: hand-built trees, trees with `sourcepath`s set, …)
configs  list of `Config` (default: `default_configs()`); a config knows how to build the real printer,
         the id of the generated rule set and the indent string handed to the Indentator.

What is compared, per (tree, config):
  S3  list(printer(tree)) fragment by fragment — text, lineno, colno, name, source (None vs NotImplemented
      kept apart) — or the exception class;   against `unparse <ruleset> <indent> <tree>`
  S4  ''.join(texts) through the shortcut functions pretty_print / minify_print where the config has one;
      against `text <ruleset> <indent> <tree>`
For the obfuscating configs the names `Obfuscator.resolve` returned, in call order, are recorded on the real
run and handed to the model's Resolve hook (`unparseR`): the obfuscation model is another component, the hook
plumbing, `token_handler_unobfuscate` and the position/name look-ups are what is tied here.

Differences are returned as dicts (and, with record=True, one tie obligation per stage is registered).
A difference is not a violation: the caller shrinks it and runs its property judge (BUILDERS.md).
"""
import proto
import treedump

NI = ('NotImplemented',)


class Config(object):
    def __init__(self, cid, ruleset, indent, make, text_fn=None, obf=False):
        self.id = cid
        self.ruleset = ruleset      # id in Gen.Rules.ruleSets
        self.indent = indent        # None or str: Indentator(indent_str)
        self.make = make            # () -> real unparser object
        self.text_fn = text_fn      # tree -> str through a shortcut function, or None
        self.obf = obf

    def indent_tok(self):
        return 'N' if self.indent is None else proto.enc_str(self.indent)

    def __repr__(self):
        return 'Config(%s)' % self.id


INDENTS = ['', ' ', '  ', '\t', ' \t']


def default_configs(obf=True, indents=None):
    from calmjs.parse import rules
    from calmjs.parse.unparsers import es5
    import inspect
    out = []
    dflt = inspect.signature(es5.pretty_printer).parameters['indent_str'].default
    for s in (INDENTS if indents is None else indents):
        out.append(Config('pretty[%r]' % s, 'indent', s,
                          (lambda s=s: es5.pretty_printer(indent_str=s)),
                          (lambda t, s=s: es5.pretty_print(t, indent_str=s))))
    out.append(Config('pretty[default]', 'indent', dflt, es5.pretty_printer))
    out.append(Config('indent[None]', 'indent', None, lambda: es5.Unparser(rules=(rules.indent(),))))
    for b in (False, True):
        out.append(Config('minify[drop_semi=%s]' % b, 'minify%d' % b, None,
                          (lambda b=b: es5.minify_printer(drop_semi=b)),
                          (lambda t, b=b: es5.minify_print(t, drop_semi=b))))
    out.append(Config('default', 'default', None, es5.Unparser))
    out.append(Config('minimum', 'minimum', None, lambda: es5.Unparser(rules=(rules.minimum(),))))
    out.append(Config('none', 'none', None, lambda: es5.Unparser(rules=())))
    if obf:
        for b in (False, True):
            out.append(Config('minify_obf[drop_semi=%s]' % b, 'minify%d_obf' % b, None,
                              (lambda b=b: es5.minify_printer(obfuscate=True, drop_semi=b)),
                              (lambda t, b=b: es5.minify_print(t, obfuscate=True, drop_semi=b)), obf=True))
        out.append(Config('minify_obf[globals]', 'minify0_obf', None,
                          lambda: es5.minify_printer(obfuscate=True, obfuscate_globals=True), obf=True))
        out.append(Config('indent_obf', 'indent_obf', '  ',
                          lambda: es5.Unparser(rules=(rules.indent('  '), rules.obfuscate())), obf=True))
        out.append(Config('obfuscate', 'obfuscate', None,
                          lambda: es5.Unparser(rules=(rules.obfuscate(obfuscate_globals=True),)), obf=True))
    return out


def pretty_configs(indents=None):
    return [c for c in default_configs(obf=False, indents=indents) if c.ruleset == 'indent']


# ----------------------------------------------------------------------------- trees

def _fix(pnode, node):
    """treedump always writes `@tokmap`; a node without a `_token_map` attribute must not have one
    (Node.getpos then answers (None, None, None))"""
    from calmjs.parse.asttypes import Node
    if isinstance(pnode, list):
        for p, n in zip(pnode, node):
            _fix(p, n)
        return
    if not isinstance(pnode, proto.Node):
        return
    if not hasattr(node, '_token_map'):
        pnode.attrs = [(k, v) for k, v in pnode.attrs if k != '@tokmap']
    d = vars(node)
    for k, v in pnode.attrs:
        if k == '@comments':
            _fix(v, node.comments)
        elif k == 'children' and '_children_list' in d:
            _fix(v, d['_children_list'])
        elif not k.startswith('@'):
            _fix(v, d[k])


def dump_tree(node):
    """the tree as the model reads it (proto value)"""
    d = treedump.dump(node, pos=True, tokmap=True, comments=True)
    _fix(d, node)
    return d


def tree_line(node):
    return proto.render(dump_tree(node))


def parse_items(items):
    """-> list of (label, tree, with_comments|None); texts that do not parse are skipped"""
    from calmjs.parse.asttypes import Node
    from calmjs.parse.parsers.es5 import parse
    out = []
    for it in items:
        if isinstance(it, Node):
            out.append((None, it, None))
            continue
        if isinstance(it, tuple):
            text, wcs = it[0], [it[1]]
        else:
            text, wcs = it, [False, True]
        for wc in wcs:
            try:
                tree = parse(text, with_comments=wc)
            except Exception:
                continue
            out.append((text, tree, wc))
    return out


# ----------------------------------------------------------------------------- the two sides

def canon_frag(f):
    src = f.source
    if src is NotImplemented:
        src = NI
    return (f.text, f.lineno, f.colno, f.name, src)


def exc_class(e):
    for cls in (AttributeError, KeyError, TypeError, IndexError):
        if isinstance(e, cls):
            return cls.__name__
    return type(e).__name__


def real_fragments(cfg, tree):
    """('OK', [fragments], resolved names) | ('ERR', class)"""
    names = []
    restore = None
    if cfg.obf:
        from calmjs.parse.handlers.obfuscation import Obfuscator
        orig = vars(Obfuscator)['resolve']

        def rec(self, dispatcher, node):
            r = orig(self, dispatcher, node)
            names.append(r)
            return r
        Obfuscator.resolve = rec
        restore = (Obfuscator, orig)
    try:
        try:
            frags = [canon_frag(f) for f in cfg.make()(tree)]
        except RecursionError:
            raise
        except Exception as e:
            return ('ERR', exc_class(e)), names
        return ('OK', frags), names
    finally:
        if restore:
            restore[0].resolve = restore[1]


def parse_reply(rep):
    if rep.startswith('OK '):
        v = proto.parse(rep[3:])
        out = []
        for f in v:
            text, line, col, name, src = f
            if isinstance(src, proto.Node):
                src = NI
            out.append((text, line, col, name, src))
        return ('OK', out)
    ts = rep.split(' ')
    if ts[0] == 'ERR' and len(ts) >= 2:
        return ('ERR', ts[1])
    return ('BAD', rep[:200])


def model_request(cfg, line, names=None):
    if cfg.obf:
        return 'unparseR %s %s %s %s' % (cfg.ruleset, cfg.indent_tok(), proto.render(list(names or [])), line)
    return 'unparse %s %s %s' % (cfg.ruleset, cfg.indent_tok(), line)


def model_fragments(ctx, cfg, tree, names=None):
    return parse_reply(ctx.driver('drv_unparse').ask(model_request(cfg, tree_line(tree), names)))


def first_diff(a, b):
    if a[0] != b[0]:
        return 'outcome %r vs %r' % (a[0], b[0] if b[0] != 'ERR' else b)
    if a[0] != 'OK':
        return None if a == b else 'error %r vs %r' % (a, b)
    for i, (x, y) in enumerate(zip(a[1], b[1])):
        if x != y:
            return 'fragment %d: real %r model %r' % (i, x, y)
    if len(a[1]) != len(b[1]):
        return 'length: real %d model %d' % (len(a[1]), len(b[1]))
    return None


def unparse_tie(ctx, items, configs=None, stage='S3', record=True, texts=True):
    configs = default_configs() if configs is None else configs
    drv = ctx.driver('drv_unparse')
    trees = parse_items(items)
    diffs3, diffs4 = [], []
    n3 = n4 = 0
    for label, tree, wc in trees:
        line = tree_line(tree)
        reqs, metas = [], []
        for cfg in configs:
            real, names = real_fragments(cfg, tree)
            reqs.append(model_request(cfg, line, names))
            metas.append((cfg, real))
        replies = [drv.ask(r) for r in reqs]     # one by one: lines are long, pipelining could fill the pipes
        treqs, tmetas = [], []
        for (cfg, real), rep in zip(metas, replies):
            model = parse_reply(rep)
            n3 += 1
            ctx.case(('S3', cfg.id, line), nontrivial=real[0] == 'OK' and len(real[1]) > 1)
            ctx.bump('tie:%s:%s' % (stage, cfg.ruleset))
            if real[0] != 'OK':
                ctx.bump('tie:%s:real-error:%s' % (stage, real[1]))
            if cfg.obf and real[0] != 'OK':
                # the exception may come from the obfuscator's prewalk, which is not part of this model
                ctx.bump('tie:%s:obf-real-error-not-compared' % stage)
                continue
            d = first_diff(real, model)
            if d:
                diffs3.append(dict(stage=stage, config=cfg.id, ruleset=cfg.ruleset, indent=cfg.indent, text=label,
                                   with_comments=wc, tree=line if label is None else None, diff=d))
            if texts and cfg.text_fn is not None and not cfg.obf:
                try:
                    rt = ('OK', cfg.text_fn(tree))
                except RecursionError:
                    raise
                except Exception as e:
                    rt = ('ERR', exc_class(e))
                treqs.append('text %s %s %s' % (cfg.ruleset, cfg.indent_tok(), line))
                tmetas.append((cfg, rt))
        for (cfg, rt), rep in zip(tmetas, [drv.ask(r) for r in treqs]):
            n4 += 1
            if rep.startswith('OK '):
                mt = ('OK', proto.dec_str(rep[3:]))
            else:
                mt = ('ERR', (rep.split(' ') + ['?'])[1])
            if mt != rt:
                diffs4.append(dict(stage='S4', config=cfg.id, ruleset=cfg.ruleset, indent=cfg.indent, text=label,
                                   with_comments=wc, tree=line if label is None else None,
                                   diff='text: real %r model %r' % (rt, mt)))
    if record:
        ctx.obligation('tie:%s fragment streams, real unparsers vs Model.Unparse (all rule sets)' % stage, not diffs3, 'tie',
                       '%d (tree, config) pairs over %d trees and %d configs; first differences: %r'
                       % (n3, len(trees), len(configs), diffs3[:2]))
        if texts:
            ctx.obligation('tie:S4 printed text, pretty_print/minify_print vs Model.Unparse', not diffs4, 'tie',
                           '%d texts; first differences: %r' % (n4, diffs4[:2]))
    return diffs3 + diffs4
