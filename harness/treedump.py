"""
Canonical dump of calmjs asttypes trees into proto.Node values.

Convention (shared with lean Spec/TreeConv and every model that reads trees):
  kind  = class name of the node
  attrs = every public entry of vars(node) except lexpos/lineno/colno/sourcepath/comments,
          nodes without own constructor attributes (ES5Program, Block, VarStatement, CaseBlock, Comments)
          expose their `_children_list` as attribute `children`;
          attributes are sorted by name; meta attributes come first (`@` sorts before letters):
  @comments   dump of node.comments (only if comments=True and not None)
  @pos        [lexpos, lineno, colno]          (only if pos=True)
  @sourcepath string                           (only if set and pos=True)
  @tokmap     [[text, [[lexpos, lineno, colno], …]], …] sorted by text   (only if tokmap=True)
"""
import proto

META = ('lexpos', 'lineno', 'colno', 'sourcepath', 'comments')


def conv(v, **kw):
    from calmjs.parse.asttypes import Node
    if isinstance(v, Node):
        return dump(v, **kw)
    if isinstance(v, (list, tuple)):
        return [conv(x, **kw) for x in v]
    if v is None or isinstance(v, (bool, int, str)):
        return v
    raise TypeError('unexpected attribute value %r' % (v,))


def dump(node, pos=False, tokmap=False, comments=False):
    kw = dict(pos=pos, tokmap=tokmap, comments=comments)
    attrs = []
    d = vars(node)
    for k, v in d.items():
        if k.startswith('_') or k in META:
            continue
        attrs.append((k, conv(v, **kw)))
    if '_children_list' in d:
        attrs.append(('children', conv(d['_children_list'], **kw)))
    if comments and getattr(node, 'comments', None) is not None:
        attrs.append(('@comments', dump(node.comments, **kw)))
    if pos:
        attrs.append(('@pos', [node.lexpos, node.lineno, node.colno]))
        if getattr(node, 'sourcepath', None):
            attrs.append(('@sourcepath', node.sourcepath))
    if tokmap:
        tm = getattr(node, '_token_map', None) or {}
        attrs.append(('@tokmap', [[k, [list(p) for p in tm[k]]] for k in sorted(tm)]))
    attrs.sort(key=lambda kv: kv[0])
    return proto.Node(type(node).__name__, attrs)


def structure(node):
    """structure only: kinds, nesting, operators, identifier and literal spellings"""
    return dump(node)


def all_nodes(v, out=None):
    out = [] if out is None else out
    if isinstance(v, proto.Node):
        out.append(v)
        for _, x in v.attrs:
            all_nodes(x, out)
    elif isinstance(v, list):
        for x in v:
            all_nodes(x, out)
    return out
