"""
C06  Token stream is a faithful, gap-free, correctly located segmentation.

proof   Props/C06: tokens_partition_input, tokens_strictly_ordered, ignore_set_is_es5_whitespace, positions_are_counted
        (full strength), punctuators_longest_first / punctuator_maximal_munch, id_keyword_iff / keyword_exact,
        lexer_terminates; Props/C12lex: lexer_no_internal, token_no_internal — all about Model.Lexer, whose rule
        order / ignore strings / keyword table / punctuator spellings / character classes are regenerated from /repo
        (gen: tables, lexdata).
tie S1  real `Lexer(with_comments=…, yield_comments=…)` iteration vs `drv_lex lex`: the token lists (type, value,
        lexpos, lineno, colno, hidden comments) and the exception (class + exact message; internal errors by class).
tie S1b scripted sessions on one lexer object (token / auto_semi / backtracked_token / lookup_colno as the parser
        drives them) vs `drv_lex script`: results and the final state (lexpos, lineno, newline_idx, token_stack shape).
judge   on the real token stream, independent of the model: ordered, non-overlapping, text[pos:pos+len] == value, gaps
        made only of ES5 WhiteSpace / LineTerminator / comments (own ES5 definitions below), line/column by counting
        ES5 line terminator sequences, punctuator maximal munch against the ES5 punctuator list, keyword exactness
        against the ES5 reserved word list.
"""
import json
import unicodedata

import corpus
import genjs
import proto
import shrink

SPEC = dict(gen=['tables', 'lexdata'], props=['CalmVerif.Props.C06', 'CalmVerif.Props.C12lex'], drivers=['drv_lex'],
            audit='Audit/C06.lean')

# ---------------------------------------------------------------------------------------------------------------
# ES5.1 definitions used by the judge (ECMA-262 5.1 §7.2, §7.3, §7.4, §7.6.1, §7.7) — written from the standard
# ---------------------------------------------------------------------------------------------------------------
ES5_LT = '\n\r\u2028\u2029'
ES5_WS_NAMED = '\t\x0b\x0c \xa0\ufeff'


def es5_ws(c):
    return c in ES5_WS_NAMED or unicodedata.category(c) == 'Zs'


ES5_PUNCT = ('{ } ( ) [ ] . ; , < > <= >= == != === !== + - * % ++ -- << >> >>> & | ^ ! ~ && || ? : = += -= *= %= '
             '<<= >>= >>>= &= |= ^= / /=').split()
ES5_RESERVED = ('break case catch continue debugger default delete do else finally for function if in instanceof new '
                'return switch this throw try typeof var void while with '
                'class const enum export extends import super null true false').split()
ES5_PUNCT_SET = set(ES5_PUNCT)


def es5_linecol(text, off):
    """1-based line/column of offset `off`: count LineTerminatorSequences (CRLF once) ending at or before off"""
    line, last, i = 1, 0, 0
    while i < off:
        c = text[i]
        if c == '\r' and i + 1 < len(text) and text[i + 1] == '\n':
            if i + 2 <= off:
                line += 1
                last = i + 2
            i += 2
        elif c in ES5_LT:
            line += 1
            last = i + 1
            i += 1
        else:
            i += 1
    return line, off - last + 1


def gap_scan(text, a, b, allow_comments):
    """is text[a:b] made only of WhiteSpace, LineTerminators and (if allowed) comments?  Returns (ok, reason, bare)
    where bare = offsets of U+2028 / U+2029 occurring outside comments in the gap."""
    i = a
    bare = []
    while i < b:
        c = text[i]
        if c in '\u2028\u2029':
            bare.append(i)
            i += 1
        elif c in ES5_LT or es5_ws(c):
            i += 1
        elif allow_comments and text.startswith('/*', i):
            j = text.find('*/', i + 2)
            if j < 0 or j + 2 > b:
                return False, 'unterminated comment in gap at %d' % i, bare
            i = j + 2
        elif allow_comments and text.startswith('//', i):
            j = i + 2
            while j < b and text[j] not in ES5_LT:
                j += 1
            i = j
        else:
            return False, 'gap character %r at %d' % (c, i), bare
    return True, '', bare


# ---------------------------------------------------------------------------------------------------------------
# implementation side
# ---------------------------------------------------------------------------------------------------------------

def tok_val(t):
    return [t.type, t.value, t.lexpos, t.lineno, t.colno, [tok_val(h) for h in getattr(t, 'hidden_tokens', [])]]


def status_of(e):
    n = type(e).__name__
    if n in ('ECMASyntaxError', 'ECMARegexSyntaxError'):
        return 'ERR %s %s' % (n, proto.enc_str(str(e)))
    return 'INTERNAL ' + n


_FAST = {}


def make_lexer(yc, wc, fast=True):
    """A fresh lexer object.  `Lexer.__init__` costs 0.6 ms because `build()` re-reflects the rule set through
    ply.lex.lex(); the fast path runs the real `__init__` but lets `build()` take ply's own `Lexer.clone(object)` of a
    pristine, never used template lexer instead (same tables, methods rebound to the new object).  run() re-checks a
    sample of cases against plainly constructed `Lexer(...)` objects (obligation `harness:fast-lexer`)."""
    from calmjs.parse.lexers.es5 import Lexer
    if not fast:
        return Lexer(with_comments=wc, yield_comments=yc)
    if 'cls' not in _FAST:
        tmpl = Lexer()

        class FastLexer(Lexer):
            def build(self, **kwargs):
                self.lexer = tmpl.lexer.clone(self)
                # clone() rebinds the per-state tables only; select them (lexre, lexerrorf, lexignore) for the copy
                self.lexer.begin('INITIAL')
        _FAST['cls'] = FastLexer
        _FAST['tmpl'] = tmpl
    return _FAST['cls'](with_comments=wc, yield_comments=yc)


def impl_lex(text, yc, wc, fast=True):
    """-> (status, tokens as values, token objects)"""
    lx = make_lexer(yc, wc, fast)
    lx.input(text)
    toks, objs = [], []
    try:
        for t in lx:
            toks.append(tok_val(t))
            objs.append(t)
        st = 'OK'
    except Exception as e:     # every exception class is an outcome to compare
        st = status_of(e)
    return st, toks, objs


def impl_line(text, yc, wc):
    st, toks, _ = impl_lex(text, yc, wc)
    return st + ' ' + proto.render(toks)


def impl_script(text, yc, wc, ops):
    lx = make_lexer(yc, wc)
    lx.input(text)
    res = []
    last = None
    st = 'OK'
    try:
        for op in ops:
            if op == 't':
                last = lx.token()
                res.append(tok_val(last) if last is not None else None)
            elif op == 'a':
                r = lx.auto_semi(last)
                res.append(tok_val(r) if r is not None else None)
            elif op == 'A':
                r = lx.auto_semi(None)
                res.append(tok_val(r) if r is not None else None)
            elif op == 'b':
                last = lx.backtracked_token(1)
                res.append(tok_val(last) if last is not None else None)
            else:
                l, p = op[1:].split(':')
                res.append(int(lx.lookup_colno(int(l), int(p))))
    except Exception as e:
        st = status_of(e)
    state = [lx.lexer.lexpos, lx.lexer.lineno, list(lx.newline_idx),
             [[m.type if m is not None else None, len(inner)] for m, inner in lx.token_stack],
             len(lx.next_tokens), len(lx.hidden_tokens)]
    # the state after an exception is not compared (the model returns no state with an error)
    return '%s %s' % (st, proto.render(res)) + (' ' + proto.render(state) if st == 'OK' else '')


# ---------------------------------------------------------------------------------------------------------------
# the judge (independent of the model)
# ---------------------------------------------------------------------------------------------------------------

def judge(text, yc, toks, objs, complete):
    """Returns list of (kind, detail, kf) failures of C06 on the real token stream.  `complete`: lexing ended without
    error (then the trailing gap is judged too).  kf = id of the structural known-finding class, or None."""
    from calmjs.parse.lexers.tokens import AutoLexToken
    from calmjs.parse.lexers.es5 import Lexer
    kw_types = set(Lexer.keywords)
    fails = []
    pos = 0
    bare_before = []       # U+2028/9 seen so far outside tokens and comments
    prev_sig = None        # text of the last real token that is not a comment (IdentifierName after `.`: property name)
    for tv, obj in zip(toks, objs):
        ty, val, lexpos, lineno, colno = tv[:5]
        if isinstance(obj, AutoLexToken):
            # an inserted token: must sit on a line terminator of the gap, carries no input text
            if not (ty == 'AUTOSEMI' and val == ';' and pos <= lexpos < len(text) and text[lexpos] in ES5_LT):
                fails.append(('auto-token', 'inserted token %r not on a line terminator of the gap' % (tv[:5],), None))
            continue
        if lexpos < pos:
            fails.append(('order', 'token %r starts before the end %d of its predecessor' % (tv[:5], pos), None))
            break
        ok, why, bare = gap_scan(text, pos, lexpos, not yc)
        bare_before += bare
        if not ok:
            fails.append(('gap', why, None))
        if text[lexpos:lexpos + len(val)] != val or not val:
            fails.append(('text', 'token %r is not the input at its offset (%r)' % (tv[:5], text[lexpos:lexpos + len(val)]), None))
        el, ec = es5_linecol(text, lexpos)
        if (lineno, colno) != (el, ec):
            fails.append(('position', 'token %r is at %d:%d by counting ES5 line terminators' % (tv[:5], el, ec),
                          'KF-06a' if bare_before else None))
        if val in ES5_PUNCT_SET and ty not in ('STRING', 'REGEX'):
            longest = max((p for p in ES5_PUNCT if text.startswith(p, lexpos)), key=len, default=None)
            if longest is not None and longest != val:
                fails.append(('munch', 'punctuator %r at %d although %r is a prefix of the rest' % (val, lexpos, longest), None))
        if ty in kw_types or ty == 'ID':
            is_res = val in ES5_RESERVED
            if ty == 'ID' and is_res and prev_sig != '.':
                # (after `.` an IdentifierName is a property name: ES5 11.2.1; the lexer types it ID)
                fails.append(('keyword', 'reserved word %r typed ID' % val, None))
            if ty in kw_types and val != ty.lower():
                fails.append(('keyword', 'lexeme %r typed %s' % (val, ty), None))
            if ty in kw_types and not is_res:
                fails.append(('keyword', 'non-reserved %r typed %s' % (val, ty), None))
        pos = lexpos + len(val)
        if not (val.startswith('//') or val.startswith('/*')) or ty in ('STRING', 'REGEX'):
            prev_sig = val
    if complete and not fails:
        ok, why, _ = gap_scan(text, pos, len(text), not yc)
        if not ok:
            fails.append(('gap', 'trailing: ' + why, None))
    return fails


# ---------------------------------------------------------------------------------------------------------------
# generators
# ---------------------------------------------------------------------------------------------------------------
BOUNDARY_CPS = sorted(set(
    [0x09, 0x0a, 0x0b, 0x0c, 0x0d, 0x1c, 0x1d, 0x1e, 0x1f, 0x20, 0x85, 0xa0, 0x1680, 0x180e, 0x2000, 0x2001, 0x2002,
     0x2003, 0x2004, 0x2005, 0x2006, 0x2007, 0x2008, 0x2009, 0x200a, 0x200b, 0x200c, 0x200d, 0x2028, 0x2029, 0x202f,
     0x205f, 0x2060, 0x3000, 0xfeff, 0x00, 0x7f, 0xad, 0x24, 0x5f, 0x40, 0x23, 0x60, 0x5c,
     0xaa, 0xb5, 0x2b0, 0x300, 0x660, 0x203f, 0x2160, 0x3007, 0x4e00, 0xac00, 0xd7a3, 0xe000, 0xfffd, 0xffff,
     0x10000, 0x1d7ce, 0x1f600, 0x10ffff]))
TOKEN_REPS = ['a', 'if', 'return', 'get', '1', '1.', '.5', '0x1', '07', "'s'", '"d"', '/r/g', '+', '++', '/', '/=', ')', ']',
              '}', '(', '{', ';', '.', '<<=', '/*c*/', '//c', 'é', 'this']
NUM_INT = ['', '0', '00', '07', '08', '09', '1', '10', '0x', '0x1f', '0XAg', '0X', '7']
NUM_FRAC = ['', '.', '.5', '.e', '.5.']
NUM_EXP = ['', 'e', 'e5', 'e+', 'e+5', 'E-5', 'e5.', 'e-', 'ee5', 'x']
STR_ITEMS = ['a', ' ', 'é', '\U0001F600', '\\n', "\\'", '\\"', '\\\\', '\\x41', '\\x4', '\\xg1', '\\u0041', '\\u004', '\\u{41}',
             '\\0', '\\00', '\\07', '\\08', '\\1', '\\12', '\\123', '\\1234', '\\377', '\\400', '\\8', '\\9', '\\ ', '\\U', '\\X',
             '\\é', '\\\n', '\\\r', '\\\r\n', '\\\u2028', '\\\u2029', '\n', '\r', '\u2028', '\u2029', '\\', '\t', '\x00', '/', '*',
             '\\-', '\\x-1', '\\u-123']
RE_ITEMS = ['a', '*', '+', '\\/', '\\\\', '\\\n', '[', ']', '[/]', '[\\]]', '[]', '[^]', '[a', '\n', '\u2028', ' ', '/', '\\', '(', '=', '[[]', '[\\', 'é']
RE_FLAGS = ['', 'g', 'gim', 'g1', 'é', ' g']
LEX_ALPHABET = ['a', '1', '0', '.', '/', '*', '=', '+', "'", '"', '\\', '\n', ' ', '(', ')', 'e', '\xa0', '\u2028', '<', '}']


def gen_texts(ctx):
    """yields (label, text)"""
    rng = ctx.sub_rng('texts')
    for e in corpus.extra('C06'):
        yield 'corpus', e['text'] if isinstance(e, dict) else e
    g1v, g1i = corpus.g1_valid(), corpus.g1_invalid()
    for t in rng.sample(g1v, ctx.n(120, len(g1v))):
        yield 'g1-valid', t
    for t in rng.sample(g1i, ctx.n(24, len(g1i))):
        yield 'g1-invalid', t
    stats = {}
    variants = [
        ('g2-default', None, None),
        ('g2-unicode', genjs.Opts(cjk_idents=True, getset_anykey=True, getset_anyspace=True, kw_before_div=True),
         [genjs.Layout('wild', unicode_terms=True, comments=0.3, comments_at_asi=True, comments_before_regex=True,
                       unicode_space_before_regex=True, drop_semi=0.5),
          genjs.Layout('wild', unicode_terms=True, comments=0.1),
          genjs.Layout('spaced', drop_semi=1.0)]),
    ]
    for label, opts, layouts in variants:
        for text, toks, lo in genjs.programs(rng, ctx.n(60, 700), opts, layouts, stats=stats):
            yield label, text
            if rng.random() < 0.15:
                k = rng.randrange(len(text) + 1)
                yield 'g4-truncated', text[:k]
                yield 'g4-corrupt', text[:k] + rng.choice(LEX_ALPHABET + ['@', '#', '\u180e', '\x85']) + text[k + 1:]
    for k, v in stats.items():
        ctx.bump('gen:' + k, v)
    # boundary code points between all token classes
    reps = TOKEN_REPS
    pairs = [(a, b) for a in reps for b in reps]
    if ctx.tier != 'thorough':
        pairs = rng.sample(pairs, 90)
    for a, b in pairs:
        cps = BOUNDARY_CPS if ctx.tier == 'thorough' else rng.sample(BOUNDARY_CPS, 6)
        for cp in cps:
            yield 'boundary', a + chr(cp) + b
        yield 'boundary', a + '\r\n' + b
        yield 'boundary', a + b
    for a in reps:
        for cp in BOUNDARY_CPS:
            yield 'boundary-end', a + chr(cp)
            yield 'boundary-end', a + chr(cp) + ' '
            yield 'boundary-start', chr(cp) + a
    # literal spellings
    for i in NUM_INT:
        for f in NUM_FRAC:
            for e in NUM_EXP:
                yield 'number', i + f + e
                if rng.random() < 0.2:
                    yield 'number', 'x=' + i + f + e + ';'
    for q in '\'"':
        for a in STR_ITEMS:
            yield 'string', q + a + q
            yield 'string', q + a
            for b in (STR_ITEMS if ctx.tier == 'thorough' else rng.sample(STR_ITEMS, 5)):
                yield 'string', q + a + b + q + ' z'
        yield 'string', q + 'abcdefghijklmno' + q[:0] + ' \t tail'
        yield 'string', q + 'abcdefghijklmn  \n'
        yield 'string', q + 'x' * 40
    for a in RE_ITEMS:
        for b in (RE_ITEMS if ctx.tier == 'thorough' else rng.sample(RE_ITEMS, 6)):
            for fl in (RE_FLAGS if ctx.tier == 'thorough' else rng.sample(RE_FLAGS, 2)):
                yield 'regex', '/' + a + b + '/' + fl
                yield 'regex', 'x = /' + a + b + '/' + fl + ' ;'
        yield 'regex', '/' + a
        yield 'regex', ' \t/' + a + '/'
        yield 'regex', 'a \xa0/' + a + '/'
    # comments
    for body in ['', '*', '/', '**', '*/', '/*', '\n', '\r\n', '\u2028', ' * ', '//', 'é']:
        for tail in ['', '*/', '*/ a', '*/\nb', '**/', '/']:
            yield 'comment', '/*' + body + tail
            yield 'comment', 'a /*' + body + tail
        for lt in ['', '\n', '\r', '\r\n', '\u2028', '\u2029']:
            yield 'comment', '//' + body + lt + 'b'
    # G5 raw strings
    alphabet = LEX_ALPHABET + ['\r', '\t', 'x', 'g', 'e', 't', 'i', 'f', ';', '-', '>', '!', '&', '|', '8', ':', ',', '[', ']',
                               '{', 'é', '\u2029', '\ufeff', '日', '@', '\u200a', '\x0b', '$', '_', '\u0300', '\u0660', '\u203f']
    for _ in range(ctx.n(1500, 20000)):
        yield 'g5-raw', ''.join(rng.choice(alphabet) for _ in range(rng.randint(1, 14)))
    for _ in range(ctx.n(100, 2000)):
        yield 'g5-unicode', ''.join(chr(rng.choice([rng.randrange(0x20, 0x7f), rng.randrange(0xa0, 0x3100),
                                                     rng.randrange(0x10000, 0x10ffff), rng.choice(BOUNDARY_CPS)]))
                                    for _ in range(rng.randint(1, 10)))
    # exhaustive short strings over the lexical alphabet
    import itertools
    for n in range(1, ctx.n(2, 4) + 1):
        for tup in itertools.product(LEX_ALPHABET, repeat=n):
            yield 'exhaustive', ''.join(tup)
    if ctx.tier != 'thorough':
        for _ in range(2500):
            yield 'exhaustive-sampled', ''.join(rng.choice(LEX_ALPHABET) for _ in range(rng.choice([3, 3, 4])))


def gen_scripts(ctx, texts):
    rng = ctx.sub_rng('scripts')
    pool = [t for t in texts if 2 < len(t) < 400]
    for _ in range(ctx.n(300, 4000)):
        text = rng.choice(pool)
        ops = []
        seen_tok = False
        for _ in range(rng.randint(1, 40)):
            r = rng.random()
            if r < 0.7 or not seen_tok:
                ops.append('t')
                seen_tok = True
            elif r < 0.85:
                ops.append('a')
            elif r < 0.9:
                ops.append('b')
            elif r < 0.93:
                ops.append('A')
            else:
                ops.append('c%d:%d' % (rng.randint(0, 6), rng.randint(0, len(text))))
        yield text, rng.random() < 0.3, rng.random() < 0.5, ops


def valid_text(t):
    return not any(0xD800 <= ord(c) <= 0xDFFF for c in t)


# ---------------------------------------------------------------------------------------------------------------

def shrink_case(text, bad):
    try:
        return shrink.shrink_text(text, bad, 1500)
    except Exception:
        return text


def run(ctx):
    ctx.rule('texts: repo manifests (G1), grammar-generated programs in default and unicode/comment-heavy layouts (G2), '
             'truncations and one-character corruptions (G4), every white-space / line-terminator / boundary code point '
             'between, before and after all token classes, systematic number / string / regex / comment spellings, raw '
             'random strings (G5), all strings up to length 2 plus 2500 sampled of length 3-4 (thorough: all up to length 4) over a 20-character lexical alphabet; each '
             'lexed stand-alone under (yield_comments, with_comments) in {(0,0),(1,0),(0,1)}; non-trivial = at least two '
             'tokens or an error; distinct by (flags, text)')
    ctx.trusted += ['Lean 4.33 kernel', 'translators harness/gen/g_tables.py (rule order, ignore strings) and '
                    'g_lexdata.py (keyword table, punctuator spellings, heuristic sets, character classes enumerated over '
                    'all code points from the compiled regexes)',
                    "CPython's re engine on the token regexes and ply's token loop are modelled by hand "
                    '(Model.TokenRegex, Model.PlyLex) and covered by the tie S1, not proved',
                    'the ES5 definitions of white space, line terminators, comments, punctuators and reserved words in '
                    'checks/C06.py and Spec/LinesRef.lean, Props/C06.lean as readings of ECMA-262 5.1 §7']
    ctx.assumptions += ['texts are sequences of Unicode scalar values (no lone surrogates)',
                        'AutoLexToken instances (AUTOSEMI inserted after break/continue/return/throw + line terminator) '
                        'are inserted tokens, not segments of the input: the judge only requires them to sit on a line '
                        'terminator of the gap; they are excluded from the text/position clauses',
                        'Unicode Zs as of the running interpreter (%s) for ES5 WhiteSpace' % unicodedata.unidata_version]
    known_ids = set(e.get('id') for e in ctx.known_findings)
    drv = ctx.driver('drv_lex') if getattr(ctx, 'drivers_ok', True) else None

    cases = []
    seen = set()
    for label, text in gen_texts(ctx):
        if not valid_text(text) or (label, text) in seen:
            continue
        seen.add((label, text))
        cases.append((label, text))
    flagsets = ((False, False), (True, False), (False, True))

    # ---- the judge on the implementation (always) + data for the tie
    impl = {}
    judge_fail = None
    kf_hits = {}
    for label, text in cases:
        ctx.bump('texts:' + label)
        for yc, wc in flagsets:
            st, toks, objs = impl_lex(text, yc, wc)
            impl[(text, yc, wc)] = st + ' ' + proto.render(toks)
            ctx.case((yc, wc, text), nontrivial=len(toks) >= 2 or st != 'OK')
            ctx.bump('outcome:' + st.split(' ')[0] + (':' + st.split(' ')[1] if st.startswith(('ERR', 'INTERNAL')) else ''))
            fails = judge(text, yc, toks, objs, st == 'OK')
            for kind, detail, kf in fails:
                if kf and kf in known_ids:
                    kf_hits.setdefault(kf, (text, detail))
                elif judge_fail is None:
                    judge_fail = (text, yc, wc, kind, detail)
    for kf, (text, detail) in sorted(kf_hits.items()):
        ctx.known(kf, 'line/column of a token after a bare U+2028/U+2029 (treated as white space by t_ignore): %r: %s'
                  % (text[:60], detail))
    if judge_fail is not None:
        text, yc, wc, kind, detail = judge_fail

        def bad(t):
            if not t or not valid_text(t):
                return False
            st, toks, objs = impl_lex(t, yc, wc)
            return any(k == kind and not (kf and kf in known_ids) for k, _, kf in judge(t, yc, toks, objs, st == 'OK'))
        small = shrink_case(text, bad)
        st, toks, objs = impl_lex(small, yc, wc)
        fs = [f for f in judge(small, yc, toks, objs, st == 'OK') if f[0] == kind]
        ctx.violation('C06 judge (%s) fails on the implementation: %s' % (kind, fs[0][1] if fs else detail),
                      dict(text=small, yield_comments=yc, with_comments=wc, kind=kind, tokens=toks, status=st,
                           original=text[:500]), True)
    ctx.obligation('judge: ordered, non-overlapping, faithful text, ES5 gaps, counted positions, maximal munch, keyword '
                   'exactness on the real token stream', judge_fail is None, 'judge',
                   '%d texts x 3 flag settings' % len(cases))
    ctx.sample(dict(text=cases[0][1][:120], result=impl[(cases[0][1], False, False)][:300]))

    # the fast construction path against plainly constructed lexers
    rs = ctx.sub_rng('fast-lexer')
    bad_fast = None
    sample = rs.sample(cases, min(len(cases), ctx.n(400, 3000)))
    for _, text in sample:
        for yc, wc in flagsets:
            st, toks, _ = impl_lex(text, yc, wc, fast=False)
            if st + ' ' + proto.render(toks) != impl[(text, yc, wc)] and bad_fast is None:
                bad_fast = (text, yc, wc)
    ctx.obligation('harness:fast-lexer (cloned ply lexer behaves as a constructed one)', bad_fast is None, 'tie',
                   repr(bad_fast) if bad_fast else '%d texts re-lexed with Lexer(...)' % len(sample))

    if drv is None:
        ctx.obligation('tie:S1 token stream', False, 'tie', 'driver drv_lex not built')
        return

    # ---- tie S1
    keys = [(text, yc, wc) for _, text in cases for yc, wc in flagsets]
    reqs = ['lex %d %d %s' % (yc, wc, proto.enc_str(text)) for text, yc, wc in keys]
    replies = drv.ask_many(reqs)
    diffs = [(k, r) for k, r in zip(keys, replies) if impl[k] != r]
    gaps = [d for d in diffs if d[1].startswith(('GAP', 'FUEL'))]
    if diffs:
        (text, yc, wc), r = diffs[0]

        def differs(t):
            if not t or not valid_text(t):
                return False
            return impl_line(t, yc, wc) != drv.ask('lex %d %d %s' % (yc, wc, proto.enc_str(t)))
        small = shrink_case(text, differs)
        st, toks, objs = impl_lex(small, yc, wc)
        fs = [f for f in judge(small, yc, toks, objs, st == 'OK') if not (f[2] and f[2] in known_ids)]
        detail = dict(text=small, yield_comments=yc, with_comments=wc, implementation=impl_line(small, yc, wc),
                      model=drv.ask('lex %d %d %s' % (yc, wc, proto.enc_str(small))), differences=len(diffs),
                      model_gaps=len(gaps))
        if fs:
            ctx.violation('model and implementation differ and the C06 judge fails there: %s' % fs[0][1], detail, True)
        ctx.obligation('tie:S1 token stream (type, value, lexpos, lineno, colno, hidden comments, exception)', False, 'tie',
                       json.dumps(detail, default=repr)[:1800])
    else:
        ctx.obligation('tie:S1 token stream (type, value, lexpos, lineno, colno, hidden comments, exception)', True, 'tie',
                       '%d stand-alone lexings compared' % len(keys))

    # ---- tie S1b: scripted sessions
    n = 0
    first = None
    skipped = 0
    for text, yc, wc, ops in gen_scripts(ctx, [t for _, t in cases]):
        a = impl_script(text, yc, wc, ops)
        b = drv.ask('script %d %d %s %s' % (yc, wc, proto.enc_str(text), ','.join(ops)))
        n += 1
        ctx.case(('script', yc, wc, text, tuple(ops)))
        if b.startswith('GAP'):
            skipped += 1
            continue
        if a != b and first is None:
            first = dict(text=text, yield_comments=yc, with_comments=wc, ops=','.join(ops), implementation=a, model=b)
    ctx.bump('scripts', n)
    ctx.bump('scripts-outside-model', skipped)
    ctx.obligation('tie:S1b scripted sessions (token / auto_semi / backtracked_token / lookup_colno, final state)',
                   first is None, 'tie', json.dumps(first, default=repr)[:1800] if first else '%d sessions compared' % n)

    # ---- KF witness replay
    for e in ctx.known_findings:
        w = e.get('witness')
        if isinstance(w, dict):
            w = w.get('text')
        if not w:
            continue
        st, toks, objs = impl_lex(w, False, False)
        fs = judge(w, False, toks, objs, st == 'OK')
        if any(f[2] == e.get('id') for f in fs):
            ctx.known(e['id'], 'witness %r still fails: %s' % (w, [f[1] for f in fs if f[2] == e.get('id')][0]))
        else:
            ctx.note('known finding %s: witness %r no longer fails' % (e.get('id'), w))


def replay(ctx, path):
    d = json.load(open(path))['replay']
    if 'text' not in d:
        print('no input recorded:', json.dumps(d)[:2000])
        return 1
    text, yc, wc = d['text'], bool(d.get('yield_comments')), bool(d.get('with_comments'))
    st, toks, objs = impl_lex(text, yc, wc)
    print('text          :', repr(text))
    print('implementation:', st, toks)
    fs = judge(text, yc, toks, objs, st == 'OK')
    for f in fs:
        print('judge fails   :', f)
    rc = 1 if fs else 0
    try:
        import framework
        drv = framework.Driver('drv_lex')
        if 'ops' in d:
            a = impl_script(text, yc, wc, d['ops'].split(','))
            b = drv.ask('script %d %d %s %s' % (yc, wc, proto.enc_str(text), d['ops']))
        else:
            a = st + ' ' + proto.render(toks)
            b = drv.ask('lex %d %d %s' % (yc, wc, proto.enc_str(text)))
        print('model         :', b)
        if a != b:
            print('model and implementation DIFFER')
            rc = 1
        drv.close()
    except Exception as e:
        print('model not available:', e)
    return rc
