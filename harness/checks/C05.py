"""
C05  Every `/` is read as division or regex start as the grammar dictates.

proof   Props/C05: simple_tokens_never_regex, punctuators_never_div, rparen_states_exclusive (kernel decisions over
        the regenerated LALR tables and heuristic sets); Props/C05lex: div_allowed_iff, div_decision,
        div_decision_independent_of_position (lexer model, all states).
tie     S2 on slash-heavy programs.
judge   for programs with `/` in every slot x preceding construct x layout: the class calmjs gives to every `/`
        (DIV / DIVEQUAL / start of REGEX, by source offset) equals the class the reference parser's syntactic
        grammar dictates (drv_spec `tokens`), and acceptance + tree agree.
"""
import json

import genjs
import specclient
from parts import kfclass, parsetie
from checks import C03

SPEC = dict(gen=['tables', 'actions', 'lexdata', 'unicodecat'], props=['CalmVerif.Props.C05', 'CalmVerif.Props.C05hdr'],
            drivers=['drv_parse', 'drv_spec'], audit='Audit/C05.lean')

BEFORE = ['a', '1', "'s'", '/r/', 'this', 'null', 'true', 'a++', 'a--', '(a)', 'f(a)', 'a[0]', '[1]', '({})', 'x = {}', 'function(){}',
          'a.b', 'a +', 'a =', 'a ,', 'a ?', 'a ? b :', '(', '[', '!', 'typeof', 'void', 'delete', 'new', 'a in', 'a instanceof', '+',
          '-', '++', '--', '~', 'a <', 'a ==', 'a &&', 'a ||', 'a *', 'a /', 'a %', 'a +=', 'a /=',
          # reserved words used as property names (IdentifierName), also called: the `)` closes a call, not a statement header
          'a.with(b)', 'a.if(b)', 'a.while(b)', 'a.for(b)', 'a.with', 'a.in', 'a.typeof(b)', 'a.return', 'a.this', 'a.function(b)',
          '{with: 1}.with', 'a.b.with(c)(d)', 'a[with_](b)',
          # ... with layout between the `.` and the reserved-word property name (7.6: any IdentifierName after `.`)
          'a.\ntypeof', 'a./*c*/if(b)', 'a.\r\nwhile(b)', 'a. //c\nfor(b)', 'a.\u2028return', 'a.\n\nin', 'a .\n with(b)',
          'a.\tvoid', 'a./**/\n/**/delete']
# contexts that put the statement inside a still open parenthesis / bracket of an enclosing expression
WRAPPERS = ['f(function(){ %s })', '(function(){ %s })()', '[function(){ %s }]', 'x = (a, function(){ %s })', 'g(1, (function(){ %s }))',
            'if (function(){ %s }) y', 'for (x = function(){ %s };;) ;', 'a[function(){ %s }]', 'new (function(){ %s })']
STMT_BEFORE = ['if (a)', 'while (a)', 'for (;;)', 'for (a in b)', 'if (a) b; else', 'do', '{}', '{ a }', ';', 'function f(){}',
               'x: ', 'switch (a) { case 1:', 'try {} finally {}', 'return', 'throw', 'var a =', 'if (f(a))', 'if ((a))', 'while (a) {}',
               'for (var i = 0; i < (n); i++)', 'a = {}', 'a = function(){}', 'case']
AFTER = ['/ b', '/b/', '/b/.test(c)', '/b/g', '/= b', '/=b/', '/ b / c', '/ 2', '/[/]/', '/ (b) / c',
         '/b/g / 2', '/b/ / 2 / 1', '/b/g /= 2', '/b/ / /c/', '/b/g\n/ 2', '/b/ /**/ / 2']
SEPS = ['', ' ', '  ', '\t', '\n', '\r\n']


def slash_classes_calm(text):
    """{offset: 'div'|'diveq'|'regex'} for every token starting with `/` that the real lexer delivered to the parser"""
    from calmjs.parse.parsers.es5 import Parser
    p = Parser()
    out = {}
    orig = p.lexer.token

    def token():
        t = orig()
        if t is not None and t.type in ('DIV', 'DIVEQUAL', 'REGEX'):
            out[t.lexpos] = {'DIV': 'div', 'DIVEQUAL': 'diveq', 'REGEX': 'regex'}[t.type]
        return t
    p.lexer.token = token
    try:
        p.parse(text)
        return ('ok', out)
    except Exception as e:
        return ('err', type(e).__name__)


def slash_classes_spec(spec, text):
    r = spec.tokens(text)
    if r[0] != 'ok':
        return r
    out = {}
    for t in r[1]:
        if t.text.startswith('/'):
            out[t.off] = 'regex' if t.cls == 'Regex' else ('diveq' if t.text == '/=' else 'div')
    return ('ok', out)


def cases(ctx):
    rng = ctx.sub_rng('slash')
    out = []
    for b in BEFORE:
        for a in AFTER:
            for s in (SEPS if ctx.tier == 'thorough' else rng.sample(SEPS, 2)):
                out.append('x = %s%s%s;' % (b, s, a))
                out.append('%s%s%s' % (b, s, a))
    for b in STMT_BEFORE:
        for a in AFTER:
            for s in (SEPS if ctx.tier == 'thorough' else rng.sample(SEPS, 2)):
                out.append('%s%s%s' % (b, s, a))
                out.append('function g(){ %s%s%s }' % (b, s, a))
    for w in WRAPPERS:
        for b in STMT_BEFORE + ['a', '(a)', 'a.with(b)', 'f(a)']:
            for a in (AFTER if ctx.tier == 'thorough' else rng.sample(AFTER, 4)):
                s = rng.choice(SEPS[:4])
                out.append(w % ('%s%s%s' % (b, s, a)))
                out.append('y = ' + (w % ('%s%s%s' % (b, s, a))) + ' / 2 / 1')
    # generated programs rich in regexes and divisions
    opts = genjs.Opts(with_stmt=False, regex=True, p_binop=0.12)
    for text, toks, lo in genjs.programs(rng, ctx.n(250, 3000), opts=opts):
        if '/' in text:
            out.append(text)
    return out


def run(ctx):
    ctx.rule('%d preceding expression contexts x %d statement contexts x %d following texts x layouts (spaces, tabs, LF, CRLF), at '
             'top level and inside a function body, plus grammar-generated programs containing `/`; judged: the class of every `/` '
             'token by source offset and the tree vs the Lean ES5.1 reference; non-trivial = contains `/`; distinct by text'
             % (len(BEFORE), len(STMT_BEFORE), len(AFTER)))
    ctx.trusted += ['Lean 4.33 kernel', 'translators', 'Spec.Es5Parse (goal symbol chosen by the reference parser) as the oracle']
    spec = specclient.Spec(ctx)
    C03.known_witnesses(ctx, spec)
    known_ids = {e['id'] for e in ctx.known_findings}
    texts = [t for t in cases(ctx) if specclient.sendable(t)]
    for text in texts:
        s = slash_classes_spec(spec, text)
        c = slash_classes_calm(text)
        ctx.case(text, nontrivial='/' in text)
        if s[0] != 'ok' and c[0] != 'ok':
            ctx.bump('slash:both-reject')
            continue
        if s[0] == 'ok' and c[0] == 'ok' and s[1] == c[1]:
            # classes agree; also the trees must agree
            v = C03.verdict(C03.calm(text), spec.parse(text))
            ctx.bump('slash:classes-agree:' + v)
            if v == 'same':
                continue
        else:
            ctx.bump('slash:classes-differ')
        if kfclass.classes(C03.tokenize_rough(text)) & known_ids:
            ctx.bump('slash:in-known-class')
            continue
        import shrink

        def bad(t):
            if not specclient.sendable(t) or kfclass.classes(C03.tokenize_rough(t)) & known_ids:
                return False
            s2, c2 = slash_classes_spec(spec, t), slash_classes_calm(t)
            if s2[0] != 'ok' and c2[0] != 'ok':
                return False
            return not (s2[0] == 'ok' and c2[0] == 'ok' and s2[1] == c2[1] and
                        C03.verdict(C03.calm(t), spec.parse(t)) == 'same')
        m = shrink.shrink_text(text, bad, 500)
        ctx.violation('a `/` is classified differently from the ES5 grammar', dict(
            text=m, original=text, calmjs=repr(slash_classes_calm(m))[:300], reference=repr(slash_classes_spec(spec, m))[:300]))
        return
    ctx.sample(dict(text=texts[0], classes=slash_classes_calm(texts[0])))
    if getattr(ctx, 'drivers_ok', True):
        parsetie.full_tie(ctx, texts[:ctx.n(300, 3000)], with_comments=(False,))


def replay(ctx, path):
    d = json.load(open(path))['replay']
    spec = specclient.Spec(ctx)
    s, c = slash_classes_spec(spec, d['text']), slash_classes_calm(d['text'])
    print('calmjs   :', c)
    print('reference:', s)
    ok = (s[0] != 'ok' and c[0] != 'ok') or (s[0] == 'ok' and c[0] == 'ok' and s[1] == c[1])
    return 0 if ok else 1
