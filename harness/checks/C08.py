"""
C08  Emitted fragments carry the true source position of their token.

proof   Props/C11 actions_anchor_ok (every token-map entry of every node records its key text at a position where
        exactly that text occurs, kernel decision over the regenerated action table) composed with the unparser-side
        theorems of Props/C08 (every explicitly positioned fragment takes its position from a token-map look-up of the
        emitting node under the fragment's text / original name; sources come from the sourcepath stack).
tie     S3: fragment streams (text, line, column, name, source) of every rule set, real vs model (unparse_tie);
        S2 for the trees consumed.
judge   on the implementation: for every explicitly positioned fragment of every printer configuration the source text
        at (line, column) - ES5 line counting - begins with the fragment's first token, or with the recorded original
        name; in chained multi-file streams the effective source (last non-None source) is the file the fragment came
        from; semicolons supplied by ASI are exempt.
"""
import itertools
import json

import genjs
from parts import parsetie, texts as T, unparse_tie as ut
from checks import C11

SPEC = dict(gen=['tables', 'actions', 'lexdata', 'defs', 'rules'], props=['CalmVerif.Props.C11'],
            drivers=['drv_parse', 'drv_unparse'], audit='Audit/C08.lean')

try:        # the unparser-side theorems are delivered by the unparse builder; use them as soon as they exist
    import os
    import framework
    if os.path.exists(os.path.join(framework.LEAN, 'CalmVerif', 'Props', 'C08.lean')):
        SPEC['props'] = ['CalmVerif.Props.C11', 'CalmVerif.Props.C08']
    if os.path.exists(os.path.join(framework.LEAN, 'CalmVerif', 'Props', 'C08end.lean')):
        SPEC['props'].append('CalmVerif.Props.C08end')      # capstone: C11 x C08 x C09 composed on the models
except Exception:       # pragma: no cover
    pass


def offset_of(starts, line, col):
    if not (1 <= line <= len(starts)):
        return None
    return starts[line - 1] + col - 1


def first_token(text):
    return text


def judge_stream(text, frags, auto, sourcepath=None, eff_source_check=None):
    """frags: list of StreamFragment of ONE tree printed from `text`; returns complaints"""
    starts = T.es5_lines(text)
    bad = []
    for f in frags:
        if not f.lineno or not f.colno:
            continue
        off = offset_of(starts, f.lineno, f.colno)
        tok = f.name if f.name is not None else f.text
        if off is None:
            bad.append('line-out-of-range:%r at %s:%s' % (tok[:20], f.lineno, f.colno))
            continue
        if tok == ';' and off in auto and text[off:off + 1] != ';':
            continue        # a semicolon supplied by automatic insertion has no source counterpart
        if set(tok) == {','} and len(tok) > 1:
            tok = ','       # the comma run of an array elision: located at its first comma
        if not text.startswith(tok, off):
            bad.append('fragment-not-at-position:%r claims %s:%s where the source has %r' % (
                tok[:30], f.lineno, f.colno, text[off:off + max(len(tok), 1) + 3]))
    return bad


def A_walk(n):
    from calmjs.parse import asttypes as A
    yield n
    for k, v in vars(n).items():
        if k.startswith('_') and k != '_children_list':
            continue
        for x in (v if isinstance(v, list) else [v]):
            if isinstance(x, A.Node):
                for y in A_walk(x):
                    yield y


def configs():
    from calmjs.parse.unparsers import es5
    from calmjs.parse import rules
    out = [('pretty', lambda: es5.pretty_printer()), ('pretty-tab', lambda: es5.pretty_printer('\t')),
           ('default', lambda: es5.Unparser()), ('minimum', lambda: es5.Unparser(rules=(rules.minimum(),)))]
    for ds in (False, True):
        out.append(('minify ds=%s' % ds, lambda ds=ds: es5.minify_printer(drop_semi=ds)))
        for og, sf in itertools.product((False, True), repeat=2):
            out.append(('obfuscate ds=%s globals=%s shadow=%s' % (ds, og, sf),
                        lambda ds=ds, og=og, sf=sf: es5.minify_printer(obfuscate=True, obfuscate_globals=og,
                                                                       shadow_funcname=sf, drop_semi=ds)))
    out.append(('indent+obfuscate', lambda: es5.Unparser(rules=(rules.indent(), rules.obfuscate(obfuscate_globals=True)))))
    return out


def run(ctx):
    from itertools import chain
    ctx.rule('G1 manifests and G2 generated programs (multi-line tokens, CR/LF/CRLF/U+2028/9, comments) x 14 printer '
             'configurations (pretty, default, minimum, minify, obfuscate x flags, indent+obfuscate) x with/without comment capture; '
             'chained streams of 2-3 files with distinct sourcepaths; judged: every explicitly positioned fragment; non-trivial = '
             'stream has an explicitly positioned fragment; distinct by (config, comments flag, text)')
    ctx.trusted += ['Lean 4.33 kernel', 'translators g_actions.py / g_defs.py / g_rules.py', 'unparser model tied by S3 on every run']
    known_ids = {e['id'] for e in ctx.known_findings}
    layouts = [genjs.Layout('wild', unicode_terms=True), genjs.Layout('wild', comments=0.15, unicode_terms=True),
               genjs.Layout('spaced', drop_semi=0.7, unicode_terms=True), genjs.Layout('min')]
    texts = T.valid_texts(ctx, ctx.n(60, 392), ctx.n(80, 800), layouts=layouts, opts=genjs.Opts(with_stmt=False),
                          extra_corpus='C08')
    cfgs = configs()
    trees = []
    for text in texts:
        for wc in (False, True):
            try:
                tree, auto = C11.parse_recording_asi(text, wc)
            except Exception:
                continue
            trees.append((text, wc, tree, auto))
            for name, make in cfgs:
                try:
                    frags = list(make()(tree))
                except Exception as e:
                    ctx.bump('printer-raised:' + type(e).__name__)
                    continue
                ctx.case((name, wc, text), nontrivial=any(f.lineno and f.colno for f in frags))
                bad = judge_stream(text, frags, auto)
                if bad:
                    ctx.violation('%s (with_comments=%s): %s' % (name, wc, bad[0]),
                                  dict(text=text, with_comments=wc, config=name, complaints=bad[:5]))
                    return
    # several files combined: the effective source of every explicitly positioned fragment is its own file
    rng = ctx.sub_rng('multi')
    nmulti = 0
    for _ in range(ctx.n(60, 600)):
        group = rng.sample(trees, rng.choice([2, 3]))
        name, make = rng.choice(cfgs)
        if 'obfuscate' in name:
            continue
        streams = []
        for i, (text, wc, tree, auto) in enumerate(group):
            tree.sourcepath = 'file%d.js' % i
            try:
                streams.append(list(make()(tree)))
            except Exception:
                streams.append([])
            finally:
                tree.sourcepath = None
        cur = None
        first_wrong = None
        for i, frags in enumerate(streams):
            for f in frags:
                if f.source is not None:
                    cur = f.source
                if f.lineno and f.colno and cur != 'file%d.js' % i and first_wrong is None:
                    first_wrong = (i, f, cur)
        nmulti += 1
        ctx.case(('multi', name, tuple(g[0] for g in group)), nontrivial=True)
        if first_wrong:
            i, f, cur = first_wrong
            what = 'fragment %r of file%d.js (at %s:%s) is attributed to source %r' % (f.text, i, f.lineno, f.colno, cur)
            if 'KF-08c' in known_ids and f.source is None and f.text in ('{', '}', ';'):
                ctx.known('KF-08c', 'layout fragments `{`, `}`, `;` carry source=None; at the start of a chained file they are '
                                    'attributed to the previous file')
                continue
            ctx.violation('multi-file stream: ' + what, dict(texts=[g[0] for g in group], config=name, fragment=list(f)))
            return
    ctx.bump('multi-file streams', nmulti)
    # nested sources: a subtree that comes from another file inside a tree of the first file; fragments emitted by the
    # outer file AFTER the inner subtree must name the outer file again (sourcepath stack)
    from calmjs.parse import asttypes as A
    nnest = 0
    pool = [t for t in trees if not t[1]]
    for _ in range(ctx.n(40, 400)):
        (otext, _, otree, oauto), (itext, _, itree, iauto) = rng.sample(pool, 2)
        outer, oauto2 = C11.parse_recording_asi(otext, False)
        inner, iauto2 = C11.parse_recording_asi(itext, False)
        # graft: replace one element of some statement list of the outer tree by the inner program's block
        hosts = [n for n in A_walk(outer) if isinstance(getattr(n, '_children_list', None), list) and n._children_list]
        if not hosts or not inner._children_list:
            continue
        host = rng.choice(hosts)
        k = rng.randrange(len(host._children_list))
        blk = inner._children_list[0]
        blk.sourcepath = 'inner.js'
        outer.sourcepath = 'outer.js'
        host._children_list[k] = blk
        name, make = rng.choice([c for c in cfgs if 'obfuscate' not in c[0]])
        try:
            frags = list(make()(outer))
        except Exception:
            continue
        nnest += 1
        ctx.case(('nested', name, otext, itext), nontrivial=True)
        texts_by_src = {'outer.js': (otext, oauto2), 'inner.js': (itext, iauto2)}
        for f in frags:
            if not f.lineno or not f.colno or f.source not in texts_by_src:
                continue
            t, au = texts_by_src[f.source]
            bad = judge_stream(t, [f], au)
            if bad:
                ctx.violation('nested sources (%s): fragment %r names %s but %s' % (name, f.text, f.source, bad[0]),
                              dict(outer=otext, inner=itext, config=name, host=type(host).__name__, index=k, fragment=list(f)))
                return
    ctx.bump('nested-source streams', nnest)
    ctx.sample(dict(text=texts[0][:120], configs=[c[0] for c in cfgs][:5]))
    if getattr(ctx, 'drivers_ok', True):
        ut.unparse_tie(ctx, texts[:ctx.n(40, 400)])
        parsetie.full_tie(ctx, texts[:ctx.n(100, 800)])


def replay(ctx, path):
    d = json.load(open(path))['replay']
    if 'text' not in d:
        print('multi-file replay: re-run the check')
        return 1
    tree, auto = C11.parse_recording_asi(d['text'], d.get('with_comments', False))
    for name, make in configs():
        if name == d['config']:
            bad = judge_stream(d['text'], list(make()(tree)), auto)
            print('complaints:', bad)
            return 1 if bad else 0
    return 2
