"""
C07  Name obfuscation is a consistent, capture-free renaming.

proof   lean/CalmVerif/Props/C07.lean over Model/Obfuscate.lean (see the file for the exact statements).
tie S7  the real Obfuscator after the prewalk of an actual printer run (the instance is caught by recording
        Obfuscator.__init__; no /repo edits): scope tree in creation order — class, node path, referenced_symbols,
        local_declared_symbols, catch symbol + usage, remapped_symbols — and, per registered Identifier in
        registration order, (path, value, scope, resolved name); against `drv_obf obf`.
        NameGenerator(skip, charset) on random skip sets and alphabets against `drv_obf gen`.
tie S4  fragment streams (text, line, col, name, source) of minify_printer(obfuscate=True, obfuscate_globals x
        shadow_funcname x drop_semi) and of Unparser(rules=(rules.indent(), rules.obfuscate(...))) against
        `drv_obf frags` (prewalk model + main walk of Model.Unparse with the model's resolve as hook).
        ScopeAgree (model scope tree vs Spec.Scope) is evaluated per program (`agree`) and reported in the distribution.
judge   (independent of the model, on the implementation, always)  for programs without with / direct eval:
        the obfuscated output must parse with the real parser AND with the reference parser (drv_spec);
        token-wise (drv_spec `tokens`) it differs from the un-obfuscated output of the same printer only in
        identifier spellings; the reference parser's trees of both outputs are equal up to `Identifier` values
        (so property names are unchanged); binding resolution by Spec.Scope (ES5 §10, `drv_obf scope`) of both trees
        is compared occurrence by occurrence: the map original binder -> new binder must be a one-to-one function
        preserving kind and scope (same partition into variables), free names / `arguments` / labels-as-such and
        - unless obfuscate_globals - top-level names keep their spelling, no new name is an ES5 reserved word.
Known findings are classified structurally on the shrunk program and only if the id is in ctx.known_findings.
"""
import json

import boot
import corpus
import framework
import genjs
import proto
import shrink
import specclient
from parts import unparse_tie as ut

SPEC = dict(gen=['defs', 'rules', 'obfdata', 'unicodecat', 'lexdata'], props=['CalmVerif.Props.C07', 'CalmVerif.Props.C07kw'],
            drivers=['drv_obf', 'drv_unparse', 'drv_spec'], audit='Audit/C07.lean')

# ES5.1 §7.6.1 reserved words (non-strict code): keywords, future reserved words, null and boolean literals
ES5_RESERVED = set('''break do instanceof typeof case else new var catch finally return void continue for switch while
debugger function this with default if throw delete in try class enum extends super const export import
null true false'''.split())
ES5_STRICT_RESERVED = set('implements let private public yield interface package protected static'.split())

KF_A, KF_B, KF_C, KF_D = 'KF-07a', 'KF-07b', 'KF-07c', 'KF-07d'
KF_WHAT = {
    KF_A: 'a `var` / function declaration of the catch parameter\'s name inside the catch block is treated as the catch '
          'parameter itself: the hoisted function-level variable and its other references are renamed apart',
    KF_B: 'the name of a named function expression is declared in the ENCLOSING scope: a free (or outer) reference to '
          'that name elsewhere in the enclosing function is renamed with it',
    KF_D: 'rules.obfuscate() built without reserved_keywords (its default) generates ES5 reserved words (`do`, `if`, `in`) as '
          'names once a scope needs more than 226 of them',
    KF_C: 'labels are renamed as if they were variables: a label with the name of a catch parameter is renamed only '
          'inside the catch block (`break` then targets an undefined label)',
}

# ----------------------------------------------------------------------------- configurations


class PCfg(object):
    """one obfuscating printer: how to build it, its un-obfuscated twin, the model's rule set and flags"""

    def __init__(self, kind, og, sf, drop_semi=False):
        self.kind, self.og, self.sf, self.ds = kind, og, sf, drop_semi
        self.id = '%s[og=%d,sf=%d%s]' % (kind, og, sf, ',drop_semi' if drop_semi else '')
        if kind == 'minify':
            self.ruleset, self.indent, self.kw = 'minify%d_obf' % drop_semi, None, 'K'
        elif kind == 'indent':
            # rules.obfuscate() with its default reserved_keywords=()
            self.ruleset, self.indent, self.kw = 'indent_obf', None, 'E'
        elif kind == 'indentK':
            # rules.obfuscate(reserved_keywords=Lexer.keywords_dict.keys()), as minify_printer passes them
            self.ruleset, self.indent, self.kw = 'indent_obf', None, 'K'
        else:
            raise ValueError(kind)

    reuse = False       # True: every make() answers the SAME printer object (a printer is reusable: C14)

    def make(self):
        if self.reuse:
            if getattr(self, '_inst', None) is None:
                self._inst = self._make()
            return self._inst
        return self._make()

    def _make(self):
        from calmjs.parse import rules
        from calmjs.parse.unparsers import es5
        if self.kind == 'minify':
            return es5.minify_printer(obfuscate=True, obfuscate_globals=self.og, shadow_funcname=self.sf,
                                      drop_semi=self.ds)
        if self.kind == 'indentK':
            from calmjs.parse.lexers.es5 import Lexer
            return es5.Unparser(rules=(rules.indent(), rules.obfuscate(
                obfuscate_globals=self.og, shadow_funcname=self.sf, reserved_keywords=Lexer.keywords_dict.keys())))
        return es5.Unparser(rules=(rules.indent(), rules.obfuscate(obfuscate_globals=self.og,
                                                                  shadow_funcname=self.sf)))

    def make_plain(self):
        from calmjs.parse import rules
        from calmjs.parse.unparsers import es5
        if self.kind == 'minify':
            return es5.minify_printer(obfuscate=False, drop_semi=self.ds)
        return es5.Unparser(rules=(rules.indent(),))

    def flags(self):
        return '%d %d %s' % (self.og, self.sf, self.kw)

    def indent_tok(self):
        return 'N' if self.indent is None else proto.enc_str(self.indent)

    def todict(self):
        return dict(kind=self.kind, og=self.og, sf=self.sf, drop_semi=self.ds)

    @staticmethod
    def fromdict(d):
        return PCfg(d['kind'], bool(d['og']), bool(d['sf']), bool(d.get('drop_semi')))


def all_cfgs():
    out = []
    for og in (False, True):
        for sf in (False, True):
            out.append(PCfg('minify', og, sf, False))
            out.append(PCfg('minify', og, sf, True))
            out.append(PCfg('indent', og, sf))
            out.append(PCfg('indentK', og, sf))
    return out


# ----------------------------------------------------------------------------- generators

POOL = ['a', 'b', 'c', 'x', 'y', 'z', 'i', 'k', 'o', 'v', 'w', 'foo', 'bar', 'n', 'p', 'q']
FREE = ['window', 'console', 'Math', 'undefinedName', 'a', 'b', 'd', 'JSON']
CATCH = ['e', 'err', 'ex', 'a']
FNAMES = ['nf', 'named', 'self', 'rec']
LABELS = ['L', 'outer', 'lbl']
PROPS = ['a', 'b', 'length', 'do', 'if', 'x', 'prop']


class ScopeGen(object):
    """scope-heavy programs: nested functions, shadowing, hoisting, named function expressions, catch, closures"""

    def __init__(self, rng, risky=0.0, maxdepth=4):
        self.r = rng
        self.risky = risky          # probability of the constructs of the known-finding classes
        self.maxdepth = maxdepth
        self.stats = {}

    def hit(self, k):
        self.stats[k] = self.stats.get(k, 0) + 1

    def ch(self, p):
        return self.r.random() < p

    def name(self):
        if self.ch(self.risky * 0.2):
            self.hit('risky:declares-arguments')
            return 'arguments'
        return self.r.choice(POOL)

    def ref(self):
        if self.ch(0.15):
            return self.r.choice(FREE)
        if self.ch(0.03):
            return 'arguments'
        return self.name()

    def program(self):
        return '\n'.join(self.stmts(0, self.r.randint(2, 5), False, [], []))

    def stmts(self, depth, n, infunc, catches, labels):
        return [self.stmt(depth, infunc, catches, labels) for _ in range(n)]

    def block(self, depth, infunc, catches, labels, n=None):
        n = self.r.randint(0, 3) if n is None else n
        return '{' + ' '.join(self.stmts(depth + 1, n, infunc, catches, labels)) + '}'

    def params(self):
        return ', '.join(self.name() for _ in range(self.r.randint(0, 3)))

    def funcbody(self, depth):
        return '{' + ' '.join(self.stmts(depth + 1, self.r.randint(1, 4), True, [], [])) + '}'

    def stmt(self, depth, infunc, catches, labels):
        r = self.r.random()
        deep = depth >= self.maxdepth
        if r < 0.18:
            self.hit('var')
            ds = []
            for _ in range(self.r.randint(1, 3)):
                n = self.name()
                if catches and self.ch(self.risky):
                    n = catches[-1]
                    self.hit('risky:var-catch-param')
                ds.append(n + (' = ' + self.expr(depth) if self.ch(0.6) else ''))
            return 'var ' + ', '.join(ds) + ';'
        if r < 0.30 and not deep:
            self.hit('funcdecl')
            n = self.name()
            if catches and self.ch(self.risky):
                n = catches[-1]
                self.hit('risky:funcdecl-catch-param')
            return 'function %s(%s) %s' % (n, self.params(), self.funcbody(depth))
        if r < 0.40 and not deep:
            self.hit('try')
            c = self.r.choice(CATCH)
            s = 'try ' + self.block(depth, infunc, catches, labels)
            if self.ch(0.85):
                s += ' catch (%s) %s' % (c, self.block(depth, infunc, catches + [c], labels, self.r.randint(1, 3)))
                if self.ch(0.2):
                    s += ' finally ' + self.block(depth, infunc, catches, labels)
            else:
                s += ' finally ' + self.block(depth, infunc, catches, labels)
            return s
        if r < 0.46 and not deep:
            self.hit('for')
            return 'for (var %s = 0; %s < %s; %s++) %s' % (
                (self.name(),) * 2 + (self.ref(), self.name(), self.block(depth, infunc, catches, labels)))
        if r < 0.51 and not deep:
            self.hit('forin')
            v = self.name()
            if catches and self.ch(self.risky):
                v = catches[-1]
            head = ('var ' + v) if self.ch(0.6) else v
            return 'for (%s in %s) %s' % (head, self.ref(), self.block(depth, infunc, catches, labels))
        if r < 0.57 and not deep:
            self.hit('label')
            lb = self.r.choice(LABELS)
            if self.ch(0.3):
                lb = self.name()
            if catches and self.ch(self.risky):
                lb = catches[-1]
            return '%s: while (%s) %s' % (lb, self.ref(), self.block(depth, infunc, catches, labels + [lb]))
        if r < 0.61 and labels:
            self.hit('break-label')
            lb = self.r.choice(labels)
            return '%s %s;' % (self.r.choice(['break', 'continue']), lb)
        if r < 0.66 and not deep:
            self.hit('if')
            s = 'if (%s) %s' % (self.expr(depth), self.block(depth, infunc, catches, labels))
            if self.ch(0.3):
                s += ' else ' + self.block(depth, infunc, catches, labels)
            return s
        if r < 0.72 and infunc:
            self.hit('return')
            return 'return %s;' % self.expr(depth)
        if r < 0.80:
            self.hit('assign')
            return '%s = %s;' % (self.ref(), self.expr(depth))
        self.hit('exprstmt')
        return self.expr(depth) + ';' if not self.ch(0.3) else '(%s);' % self.expr(depth)

    def expr(self, depth):
        r = self.r.random()
        deep = depth >= self.maxdepth
        if r < 0.30:
            return self.ref()
        if r < 0.38:
            return str(self.r.randint(0, 9))
        if r < 0.48:
            return '%s %s %s' % (self.ref(), self.r.choice(['+', '*', '<', '===', '&&', 'in', 'instanceof']), self.expr(depth))
        if r < 0.56:
            return '%s(%s)' % (self.ref(), ', '.join(self.expr(depth + 1) for _ in range(self.r.randint(0, 2))))
        if r < 0.63:
            return '%s.%s' % (self.ref(), self.r.choice(PROPS))
        if r < 0.67:
            return '%s[%s]' % (self.ref(), self.expr(depth + 1))
        if r < 0.76 and not deep:
            self.hit('funcexpr')
            return 'function (%s) %s' % (self.params(), self.funcbody(depth))
        if r < 0.86 and not deep:
            self.hit('named-funcexpr')
            n = self.r.choice(FNAMES)
            if self.ch(self.risky):
                n = self.name()
                self.hit('risky:funcexpr-pool-name')
            return 'function %s(%s) %s' % (n, self.params(), self.funcbody(depth))
        if r < 0.92 and not deep:
            self.hit('object')
            ps = []
            for _ in range(self.r.randint(0, 3)):
                k = self.r.random()
                if k < 0.5:
                    ps.append('%s: %s' % (self.r.choice(PROPS), self.expr(depth + 1)))
                elif k < 0.7:
                    ps.append('get %s() %s' % (self.r.choice(PROPS), self.funcbody(depth)))
                elif k < 0.9:
                    ps.append('set %s(%s) %s' % (self.r.choice(PROPS), self.name(), self.funcbody(depth)))
                else:
                    ps.append('"%s": %s' % (self.r.choice(PROPS), self.ref()))
            return '({%s})' % ', '.join(ps)
        if r < 0.96:
            return 'typeof ' + self.ref()
        return '(%s, %s)' % (self.ref(), self.ref())


def big_scope(rng, n, nested=True, short=()):
    """a function with n declared names used with different frequencies, closures referring to some of them, free
    names that look like generated ones (`a`, `b`, `do`-neighbours) so that skipping and multi-letter names occur;
    `short`: additional declared names that ARE spelled like generated ones (one or two characters), referenced once
    each, so that they rank last and meet replacements longer than themselves"""
    names = ['v%d' % i for i in range(n)]
    out = ['function big(p0, p1) {']
    if short:
        out.append('var ' + ', '.join(short) + ';')
        out.append(' + '.join(short) + ';')
    for i in range(0, n, 40):
        out.append('var ' + ', '.join(names[i:i + 40]) + ';')
    uses = []
    for i, v in enumerate(names):
        k = (i * 7919) % 5
        uses.extend([v] * k)
    rng.shuffle(uses)
    for i in range(0, len(uses), 20):
        out.append(' + '.join(uses[i:i + 20]) + ';')
    out.append('a; dn; ie; Zz; %s;' % rng.choice(['b', 'c', '_', 'aa']))
    if nested:
        picks = rng.sample(names, min(len(names), 12))
        out.append('function inner(q) { var loc0, loc1; try { loc0 = %s; } catch (e) { loc1 = e + %s; } '
                   'return function () { return q + loc0 + %s; }; }' % (picks[0], picks[1], ' + '.join(picks[2:])))
        out.append('var fe = function named() { return named(%s); };' % picks[3])
    # a catch clause directly in the big scope: its parameter is named after all the others (keyword collisions)
    out.append('try { %s; } catch (err) { %s = err; try { err; } catch (err2) { err2 + err; } }' % (names[0], names[-1]))
    out.append('return p0 + p1; }')
    out.append('big(1, 2);')
    return '\n'.join(out)


HAND = [
    'function f(){try{}catch(e){var e=1}return e}',
    'function outer(){ var f = function g(){return g}; return g; }',
    'function f(){x: try{throw 1}catch(x){break x}}',
    'var a = 1; function f(b){ var c = a + b; return function(d){ return c + d + a; }; }',
    'function f(a){ function a(){} var a; return a; }',
    'function f(){ return x; var x; function g(){ x = 1; y = 2; } }',
    'function f(x){ try { throw x; } catch (e) { (function(){ return e + x; })(); } }',
    'function f(){ var e = 1; try {} catch (e) { e; } return e; }',
    'function f(){ try {} catch (e) { try {} catch (e2) { e + e2; } } }',
    'try {} catch (e) { e; var x = e; } x;',
    'var o = {get a(){ var t; return t; }, set a(v){ var t = v; }, b: function n(q){ return n(q); }};',
    'function f(){ L: for (var i in o) { for (;;) { continue L; } } }',
    'function f(){ var f; return f; } f();',
    '(function(){ var a, b; a: for(;;){ break a; } return a + b; })();',
    'function f(arguments){ return arguments; } function g(){ return arguments[0]; }',
    'function f(){ var x1, x2, x3; x1; x1; x2; return function(){ return x3 + a; }; }',
    'var f = function g(g){ return g; };',
    'function outer(g){ var f = function g(){ return g; }; return g; }',
    'function f(){ if (1) { function h(){} } return h; }',
    'function f(){ for (var k in window) { k; } return k; }',
    'function f(arguments){ return function(){ return arguments; }; }',
    'var arguments = 5; function g(){ return arguments; }',
]


# ----------------------------------------------------------------------------- the real side

def node_paths(tree):
    """id(node) -> root-first path text, with the step convention of the model / treedump"""
    from calmjs.parse.asttypes import Node
    out = {}

    def go(node, path):
        out[id(node)] = '/'.join(path)
        d = vars(node)
        items = [(k, v) for k, v in d.items() if not k.startswith('_') and k not in ('lexpos', 'lineno', 'colno', 'sourcepath', 'comments')]
        if '_children_list' in d:
            items.append(('children', d['_children_list']))
        for k, v in items:
            if isinstance(v, Node):
                go(v, path + ['%s.0' % k])
            elif isinstance(v, (list, tuple)):
                for i, x in enumerate(v):
                    if isinstance(x, Node):
                        go(x, path + ['%s.%d' % (k, i)])
    go(tree, [])
    return out


def run_real(cfg, tree):
    """one run of the obfuscating printer -> (('OK', frags) | ('ERR', cls), Obfuscator instance or None)"""
    from calmjs.parse.handlers.obfuscation import Obfuscator
    made = []
    orig = Obfuscator.__init__

    def rec(self, *a, **kw):
        made.append(self)
        orig(self, *a, **kw)
    Obfuscator.__init__ = rec
    try:
        try:
            res = ('OK', [ut.canon_frag(f) for f in cfg.make()(tree)])
        except RecursionError:
            raise
        except Exception as e:
            res = ('ERR', ut.exc_class(e))
    finally:
        Obfuscator.__init__ = orig
    return res, (made[-1] if made else None)


def dump_real_state(obf, tree):
    """-> (scope proto.Node, identifiers list) in the vocabulary of drv_obf `obf`"""
    from calmjs.parse.handlers.obfuscation import CatchScope
    paths = node_paths(tree)
    ids = {}
    counter = [0]

    def go(scope):
        sid = counter[0]
        counter[0] += 1
        ids[id(scope)] = sid
        catch = isinstance(scope, CatchScope)
        node = None if scope.node is None else paths.get(id(scope.node), '?')
        kids = [go(c) for c in scope.children]
        return proto.Node('Scope', [
            ('id', sid), ('kind', 'catch' if catch else 'func'), ('node', node),
            ('sym', scope.catch_symbol if catch else None),
            ('usage', scope.catch_symbol_usage if catch else None),
            ('refs', [[k, v] for k, v in sorted(scope.referenced_symbols.items())]),
            ('decl', sorted(scope.local_declared_symbols)),
            ('remapped', [[k, v] for k, v in sorted(scope.remapped_symbols.items())]),
            ('children', kids)])
    tree_dump = go(obf.global_scope)
    idents = [[paths.get(id(n), '?'), n.value, ids.get(id(s), -1), obf.resolve(None, n)]
              for n, s in obf.identifiers.items()]
    return tree_dump, idents


def parse_obf_reply(rep):
    if not rep.startswith('OK '):
        ts = rep.split(' ')
        return ('ERR', ts[1] if len(ts) > 1 else '?')
    toks = rep[3:].split(' ')
    v, i = proto.parse_toks(toks, 0)
    w, j = proto.parse_toks(toks, i)
    return ('OK', v, w)


# ----------------------------------------------------------------------------- the judge

def strip_ident(v):
    """tree with the spelling of every Identifier (not PropIdentifier) masked"""
    if isinstance(v, proto.Node):
        if v.kind == 'Identifier':
            return proto.Node('Identifier', [])
        return proto.Node(v.kind, [(k, strip_ident(x)) for k, x in v.attrs if not k.startswith('@')])
    if isinstance(v, list):
        return [strip_ident(x) for x in v]
    return v


class Judge(object):
    def __init__(self, ctx):
        self.ctx = ctx
        self.spec = specclient.Spec(ctx)
        self.drv = ctx.driver('drv_obf')
        self.quiet = False

    def scope(self, tree):
        rep = self.drv.ask('scope ' + proto.render(tree))
        if not rep.startswith('OK '):
            raise framework.Infra('drv_obf scope: %s' % rep[:200])
        flag, _, rest = rep[3:].partition(' ')
        occs = proto.parse(rest)
        return flag == 'T', [(p, n, [tuple(b) for b in bs]) for p, n, bs in occs]

    def out_of_scope(self, text):
        """uses with / direct eval (decided on the reference parser's tree of the source)"""
        r = self.spec.parse(text)
        if r[0] != 'ok':
            return None
        return self.scope(r[1])[0]

    def judge(self, cfg, tree):
        """-> list of (category, message); [] = the property holds for this (program, printer)"""
        from calmjs.parse.parsers.es5 import parse
        fails = []
        try:
            out = ''.join(f.text for f in cfg.make()(tree))
            plain = ''.join(f.text for f in cfg.make_plain()(tree))
        except RecursionError:
            raise
        except Exception as e:
            return [('printer-raises', '%s: %s' % (type(e).__name__, e))]
        if not (specclient.sendable(out) and specclient.sendable(plain)):
            return []
        so, sp = self.spec.parse(out), self.spec.parse(plain)
        plain_ok = sp[0] == 'ok'
        if plain_ok:
            try:
                parse(plain)
            except RecursionError:
                raise
            except Exception:
                plain_ok = False
        if not plain_ok:
            # the un-obfuscated output of the same printer does not parse either: not this property's business (C01/C02)
            if not self.quiet:
                self.ctx.bump('judge:plain-output-does-not-parse(not C07)')
            return fails
        try:
            parse(out)
        except RecursionError:
            raise
        except Exception as e:
            fails.append(('output-rejected-by-calmjs', '%s; output %r' % (e, out[:300])))
        if so[0] != 'ok':
            fails.append(('output-not-es5', 'reference parser: %r; output %r' % (so[1:], out[:300])))
            # which word made it unparsable?  compare the identifier-like words of the two outputs position by position
            import re
            wo, wp = re.findall(r'[A-Za-z_$][\w$]*', out), re.findall(r'[A-Za-z_$][\w$]*', plain)
            if len(wo) == len(wp):
                for x, y in zip(wo, wp):
                    if x != y and x in ES5_RESERVED:
                        fails.append(('reserved-word-generated-in-output', '%s -> %s' % (y, x)))
                        break
            return fails
        # token-wise: only identifier spellings differ
        to, tp = self.spec.tokens(out), self.spec.tokens(plain)
        if to[0] == 'ok' and tp[0] == 'ok':
            a, b = to[1], tp[1]
            if len(a) != len(b):
                fails.append(('token-count', '%d vs %d tokens' % (len(a), len(b))))
            else:
                for x, y in zip(a, b):
                    if x.cls != y.cls or (x.text != y.text and x.cls != 'Ident'):
                        fails.append(('non-identifier-token-changed', '%r vs %r' % (tuple(y[:2]), tuple(x[:2]))))
                        break
        else:
            fails.append(('tokens', 'reference lexer fails on an output'))
        if strip_ident(so[1]) != strip_ident(sp[1]):
            fails.append(('tree-shape', 'trees of obfuscated and plain output differ beyond Identifier spellings'))
            return fails
        _, occ_p = self.scope(sp[1])
        _, occ_o = self.scope(so[1])
        if [o[0] for o in occ_p] != [o[0] for o in occ_o]:
            fails.append(('occurrences', 'different identifier occurrences'))
            return fails
        fwd, bwd = {}, {}
        for (path, n0, bs0), (_, n1, bs1) in zip(occ_p, occ_o):
            if n1 != n0 and (n1 in ES5_RESERVED):
                fails.append(('reserved-word-generated', '%s -> %s at %s' % (n0, n1, path)))
            if n1 != n0 and n1 in ES5_STRICT_RESERVED and not self.quiet:
                self.ctx.bump('judge:strict-mode-reserved-word-generated')
            if len(bs0) != len(bs1):
                fails.append(('binding', '%s at %s: %r becomes %r' % (n0, path, bs0, bs1)))
                continue
            for b0, b1 in zip(bs0, bs1):
                k0, s0, m0 = b0
                k1, s1, m1 = b1
                if (k0, s0) != (k1, s1):
                    fails.append(('binding', '%s at %s: bound by %r, after renaming (%s) by %r' % (n0, path, b0, n1, b1)))
                    continue
                if fwd.setdefault(b0, b1) != b1 or bwd.setdefault(b1, b0) != b0:
                    fails.append(('binding', '%s at %s: %r -> %r is not one-to-one (%r / %r)'
                                  % (n0, path, b0, b1, fwd.get(b0), bwd.get(b1))))
                    continue
                keep = k0 in ('free', 'args', 'nolabel') or (k0 == 'global' and not cfg.og)
                if keep and m0 != m1:
                    fails.append(('must-keep-name', '%s name %s renamed to %s at %s' % (k0, m0, m1, path)))
        # deduplicate by category, keep the first message
        seen, out_f = set(), []
        for c, m in fails:
            if c not in seen:
                seen.add(c)
                out_f.append((c, m))
        return out_f


# ----------------------------------------------------------------------------- known-finding classes (structural)

FUNC_KINDS = ('FuncDecl', 'FuncExpr', 'GetPropAssign', 'SetPropAssign')


def _ident(v):
    if isinstance(v, proto.Node) and v.kind == 'Identifier':
        return v.get('value')
    return None


def _walk(v, fn, stop_funcs=False, top=True):
    """pre-order over proto values; with stop_funcs the bodies of nested functions are not entered"""
    if isinstance(v, proto.Node):
        fn(v)
        if stop_funcs and not top and v.kind in FUNC_KINDS:
            return
        for k, x in v.attrs:
            if not k.startswith('@'):
                _walk(x, fn, stop_funcs, False)
    elif isinstance(v, list):
        for x in v:
            _walk(x, fn, stop_funcs, False)


def class_kf_a(tree):
    """a VarDecl / FuncDecl of the catch parameter's name inside the catch block (not in a nested function)"""
    hit = []

    def on(n):
        if n.kind == 'Catch':
            c = _ident(n.get('identifier'))

            def inner(m):
                if m.kind in ('VarDecl', 'VarDeclNoIn', 'FuncDecl') and _ident(m.get('identifier')) == c:
                    hit.append(c)
            _walk(n.get('elements'), inner, stop_funcs=True, top=False)
    _walk(tree, on)
    return bool(hit)


def class_kf_c(tree):
    """a label (definition or break/continue target) spelled like the parameter of an enclosing catch clause, inside
    that catch block, or a labelled statement around the try whose label is a catch parameter's name used inside"""
    hit = []

    def on(n):
        if n.kind == 'Catch':
            c = _ident(n.get('identifier'))

            def inner(m):
                if m.kind in ('Label', 'Break', 'Continue') and _ident(m.get('identifier')) == c:
                    hit.append(c)
            _walk(n.get('elements'), inner, stop_funcs=True, top=False)
    _walk(tree, on)
    return bool(hit)


def class_kf_b(occs):
    """Spec.Scope occurrences: the own name of a function expression (binder kind self at p) is also the spelling of an
    occurrence OUTSIDE that function expression which is not bound by it"""
    selfs = set((s, m) for _, _, bs in occs for k, s, m in bs if k == 'self')
    for path, n, bs in occs:
        for s, m in selfs:
            if n == m and not (path == s or path.startswith(s + '/') or s == '') and all(b[0] != 'self' or b[1] != s for b in bs):
                return True
    return False


# ----------------------------------------------------------------------------- the check

class Check(object):
    def __init__(self, ctx):
        self.ctx = ctx
        self.drv = ctx.driver('drv_obf')
        self.judge = Judge(ctx)
        self.kf = set(e.get('id') for e in ctx.known_findings)
        self.tie_diffs = {'S7': [], 'S4': [], 'gen': []}
        self.found = {}
        self.shrinks_left = ctx.n(12, 40)
        self.n7 = self.n4 = self.nj = 0
        self.n_impl, self.impl_fail = 0, []

    # ---- one program
    def parse(self, text):
        from calmjs.parse.parsers.es5 import parse
        try:
            return parse(text)
        except RecursionError:
            raise
        except Exception:
            return None

    def tie_case(self, text, tree, cfg, line=None):
        """-> list of difference strings for (program, cfg)"""
        line = line or ut.tree_line(tree)
        diffs = []
        real, obf = run_real(cfg, tree)
        rep = self.drv.ask('obf %s %s' % (cfg.flags(), line))
        model = parse_obf_reply(rep)
        self.n7 += 1
        if real[0] != 'OK' or obf is None:
            if model[0] == 'OK' or model[1] != real[1]:
                diffs.append(('S7', 'real raises %r, model %r' % (real, model[:2])))
        elif model[0] != 'OK':
            diffs.append(('S7', 'model error %r' % (rep[:200],)))
        else:
            rs, ri = dump_real_state(obf, tree)
            if rs != model[1]:
                diffs.append(('S7', 'scope trees differ: real %s model %s' % (proto.render(rs)[:600], proto.render(model[1])[:600])))
            elif ri != model[2]:
                d = [(a, b) for a, b in zip(ri, model[2]) if a != b][:2]
                diffs.append(('S7', 'identifier resolution differs: %r (lengths %d / %d)' % (d, len(ri), len(model[2]))))
        rep = self.drv.ask('frags %s %s %s %s' % (cfg.ruleset, cfg.indent_tok(), cfg.flags(), line))
        mf = ut.parse_reply(rep)
        self.n4 += 1
        d = ut.first_diff(real, mf)
        if d:
            diffs.append(('S4', d))
        return diffs

    def classify(self, text, fails, cfg=None):
        """known-finding id for a failing (shrunk) program, or None"""
        r = self.judge.spec.parse(text)
        if r[0] != 'ok':
            return None
        tree = r[1]
        cats = set(c for c, _ in fails)
        if (KF_D in self.kf and cfg is not None and cfg.kw == 'E' and 'reserved-word-generated-in-output' in cats
                and cats <= {'output-not-es5', 'output-rejected-by-calmjs', 'reserved-word-generated-in-output'}):
            return KF_D
        if not cats <= {'binding', 'must-keep-name', 'occurrences'}:
            return None
        if KF_A in self.kf and class_kf_a(tree):
            return KF_A
        if KF_C in self.kf and class_kf_c(tree):
            return KF_C
        if KF_B in self.kf and class_kf_b(self.judge.scope(tree)[1]):
            return KF_B
        return None

    def shrink(self, text, cfg, cats):
        def bad(t):
            tr = self.parse(t)
            if tr is None:
                return False
            try:
                if self.judge.out_of_scope(t) is not False:
                    return False
                f = self.judge.judge(cfg, tr)
            except framework.Infra:
                raise
            except Exception:
                return False
            return bool(set(c for c, _ in f) & cats)
        if len(text) > 4000:
            return text
        self.judge.quiet = True
        try:
            return shrink.shrink_text(text, bad, max_tests=250 if self.ctx.tier == 'quick' else 300)
        except framework.Infra:
            raise
        except Exception:
            return text
        finally:
            self.judge.quiet = False

    def process(self, text, cfgs, origin, do_tie=True, do_agree=True):
        ctx = self.ctx
        tree = self.parse(text)
        if tree is None:
            ctx.bump('skipped:not-accepted')
            return
        oos = self.judge.out_of_scope(text)
        if oos is None:
            ctx.bump('skipped:source-not-es5-for-reference-parser')
            return
        if oos:
            ctx.bump('skipped:with-or-direct-eval')
            return
        line = ut.tree_line(tree)
        if do_agree:
            rep = self.drv.ask('agree 0 0 K ' + line)
            ctx.bump('ScopeAgree:' + rep)
            # model-level tests, per program:  (a) the missing lemma  `not excluded p  =>  alignedOf p`  (Props/C07.lean),
            # (b) the proved theorem  `alignedOf p  =>  bindingPreserved p`  (a driver/definition sanity check)
            for fl in (('0 0 K', '1 1 K') if len(text) < 3000 else ()):
                pres = self.drv.ask('preserved %s %s' % (fl, line))
                al = self.drv.ask('aligned %s %s' % (fl, line))
                ex = self.drv.ask('excluded %s %s' % (fl[0], line))
                ctx.bump('model:bindingPreserved[%s]:%s' % (fl, pres))
                ctx.bump('model:aligned[%s]:%s' % (fl, al))
                ctx.bump('model:excluded[%s]:%s' % (fl, ex))
                self.n_impl += 1
                # (c) the walk facts (hypothesis of `capture_free_of_walk_facts` / `aligned_of_walk_facts`, Props/C07.lean) hold on
                # every program outside the recorded deviation classes; where they hold the program is aligned (the theorem)
                fa = self.drv.ask('facts %s %s' % (fl, line))
                ctx.bump('model:walk-facts[%s]:%s' % (fl, fa))
                if ex.startswith('OK F') and fa != 'OK T':
                    self.impl_fail.append(dict(text=text[:400], flags=fl, what='not excluded but walk facts fail: %s' % fa))
                if fa == 'OK T' and al != 'OK T':
                    self.impl_fail.append(dict(text=text[:400], flags=fl, what='walk facts hold but not aligned (contradicts aligned_of_walk_facts)'))
                if ex.startswith('OK F') and al != 'OK T':
                    self.impl_fail.append(dict(text=text[:400], flags=fl, what='not excluded but not aligned: %s' % al))
                if al == 'OK T' and pres != 'OK T':
                    self.impl_fail.append(dict(text=text[:400], flags=fl, what='aligned but not preserved (contradicts binding_preserved_partial)'))
        for cfg in cfgs:
            ctx.case((cfg.id, text))
            ctx.bump('origin:' + origin)
            ctx.bump('printer:' + cfg.id)
            ctx.sample(dict(text=text[:200], printer=cfg.id))
            diffs = self.tie_case(text, tree, cfg, line) if do_tie else []
            fails = self.judge.judge(cfg, tree)
            self.nj += 1
            if fails:
                cats = set(c for c, _ in fails)
                key0 = tuple(sorted(cats))
                ctx.bump('judge-fails:' + ','.join(key0))
                small, sfails = text, fails
                # shrinking is bounded per run; a category that already has a small witness is not shrunk again
                if self.shrinks_left > 0 and not (key0 in self.found and len(self.found[key0][0]) < 200):
                    self.shrinks_left -= 1
                    small = self.shrink(text, cfg, cats)
                    stree = self.parse(small)
                    sfails = self.judge.judge(cfg, stree) if stree is not None else fails
                    if not sfails:
                        small, sfails = text, fails
                kf = self.classify(small, sfails, cfg)
                if kf:
                    ctx.known(kf, KF_WHAT[kf])
                    ctx.bump('known-finding:' + kf)
                else:
                    key = tuple(sorted(set(c for c, _ in sfails)))
                    if key not in self.found or len(small) < len(self.found[key][0]):
                        self.found[key] = (small, cfg, sfails)
            for stage, d in diffs:
                # a correspondence difference is not a violation by itself: the judge above has run on this input
                self.tie_diffs[stage].append(dict(text=text[:400], printer=cfg.id, diff=d[:600],
                                                  judge='fails' if fails else 'passes'))
                ctx.bump('tie-difference:' + stage)

    def gen_tie(self, rng, n):
        from calmjs.parse.handlers.obfuscation import NameGenerator, ID_CHARS
        import itertools
        for i in range(n):
            cs = ID_CHARS if i % 3 == 0 else ''.join(rng.sample(ID_CHARS, rng.randint(1, 6)))
            k = rng.randint(1, 120)
            base = list(itertools.islice(iter(NameGenerator(charset=cs)), 400))
            skip = sorted(set(rng.sample(base, rng.randint(0, 60)) + ['do', 'if', 'in']))
            real = list(itertools.islice(iter(NameGenerator(skip=skip, charset=cs)), k))
            rep = self.drv.ask('gen %s %d %s' % (proto.enc_str(cs), k, proto.render(skip)))
            model = proto.parse(rep[3:]) if rep.startswith('OK ') else rep
            self.ctx.case(('gen', cs, k, tuple(skip)))
            if real != model:
                self.tie_diffs['gen'].append(dict(charset=cs, n=k, skip=skip, real=real[:10], model=str(model)[:200]))

    def finish(self):
        ctx = self.ctx
        for key, (small, cfg, sfails) in sorted(self.found.items()):
            ctx.violation('obfuscation breaks the property (%s): %r with %s: %s'
                          % (', '.join(key), small[:300], cfg.id, sfails[0][1][:300]),
                          dict(kind='program', text=small, printer=cfg.todict(), categories=list(key)), True)
        ctx.obligation('model: not excluded implies aligned (the lemma missing for binding_preserved; tested per program), aligned implies preserved, programs outside the deviation classes have the walk facts, walk facts imply aligned',
                       not self.impl_fail, 'tie', '%d (program, flags) pairs; counterexamples: %r' % (self.n_impl, self.impl_fail[:2]))
        for stage, what in (('S7', 'Obfuscator state after the prewalk (scope tree, counts, remap tables, resolved names) vs drv_obf'),
                            ('S4', 'fragment streams of the obfuscating printers vs Model.Obfuscate + Model.Unparse'),
                            ('gen', 'NameGenerator(skip, charset) vs the model generator')):
            d = self.tie_diffs[stage]
            n = {'S7': self.n7, 'S4': self.n4, 'gen': None}[stage]
            ctx.obligation('tie:%s %s' % (stage, what), not d, 'tie',
                           '%s cases; differences: %d; first: %r' % (n if n is not None else 'see evaluations', len(d), d[:2]))


def programs(ctx):
    """(origin, text, cfg subset selector)"""
    out = []
    for t in HAND:
        out.append(('hand', t))
    for e in corpus.extra('C07'):
        if isinstance(e, dict) and e.get('text'):
            out.append(('corpus', e['text']))
    rng = ctx.sub_rng('scopegen')
    stats = {}
    for i in range(ctx.n(70, 300)):
        g = ScopeGen(rng, risky=0.0 if i % 5 else 0.25, maxdepth=rng.randint(2, 5))
        out.append(('scopegen' if i % 5 else 'scopegen-risky', g.program()))
        for k, v in g.stats.items():
            stats[k] = stats.get(k, 0) + v
    for k, v in stats.items():
        ctx.bump('gen:' + k, v)
    rng2 = ctx.sub_rng('genjs')
    for text, _, _ in genjs.programs(rng2, ctx.n(25, 100), opts=genjs.Opts(with_stmt=False, scoped=True,
                                                                           unicode_idents=False)):
        out.append(('genjs-scoped', text))
    g1 = corpus.g1_valid()
    rng3 = ctx.sub_rng('g1')
    for t in rng3.sample(g1, min(len(g1), ctx.n(25, 100))):
        out.append(('g1', t))
    return out


def run(ctx):
    boot.boot()
    chk = Check(ctx)
    cfgs = all_cfgs()
    ctx.rule('a case = (program without with/direct eval, obfuscating printer configuration); non-trivial when the '
             'program parses; distinct by (configuration, text)')
    rng = ctx.sub_rng('cfgpick')
    for k, (origin, text) in enumerate(programs(ctx)):
        if (origin == 'hand' and (k < 4 or ctx.tier == 'thorough')) or origin == 'corpus':
            sel = cfgs
        elif origin == 'hand':
            sel = rng.sample(cfgs, 6)
        else:
            sel = rng.sample(cfgs, ctx.n(3, 5))
        chk.process(text, sel, origin)
    # big scopes: multi-letter names and keyword collisions
    brng = ctx.sub_rng('big')
    sizes = ctx.n([60, 230, 520], [60, 130, 230, 520, 900])   # larger scopes make the List-based model quadratic-to-cubic (30+ min)
    for n in sizes:
        text = big_scope(brng, n)
        sel = [PCfg('minify', False, False), PCfg('minify', True, True, True), PCfg('indent', True, False)]
        if n > 1000:
            sel = sel[:2]
        ctx.bump('big-scope:%d' % n)
        chk.process(text, sel, 'big-scope', do_agree=(n <= 230))
    # declared names spelled like the generator's own output (one / two characters), ranked last in scopes that need
    # two-letter names: a replacement must never collide with a name that was kept or handed out before
    for n, short in ((58, ['t']), (70, ['a', 'k', 'Z', '_', '$', 'ba', 'aa']), (40, ['b', 'c', 'd'])):
        text = big_scope(brng, n, short=short)
        ctx.bump('big-scope-short-names:%d' % n)
        chk.process(text, [PCfg('minify', False, False), PCfg('minify', True, True, True), PCfg('indent', True, False)],
                    'big-scope-short', do_agree=False)
    # one printer OBJECT used for several programs in a row (a small one first, then scopes that need more than 226 names:
    # the reserved-word skip list and the name generator must be as good on the n-th call as on the first)
    for cfg in (PCfg('minify', False, False), PCfg('minify', True, True, True), PCfg('indentK', False, False)):
        cfg.reuse = True
        for text in ('function f(a, b) { var c = a + b; return c; }', big_scope(brng, 240), big_scope(brng, 500),
                     'function g(x) { try { y(x); } catch (e) { return e; } }'):
            ctx.bump('reused-printer')
            chk.process(text, [cfg], 'reused-printer', do_tie=False, do_agree=False)
        # ... and after a call of the SAME printer that died half way, inside a function body (a literal nested so deeply that
        # the walk exceeds Python's recursion limit - on the unchanged code as well): nothing of the dead call may survive
        from calmjs.parse.parsers.es5 import parse as _parse
        deep = 'function dead(a) { var inner = ' + '[' * 600 + '1' + ']' * 600 + '; return inner; }'
        try:
            ''.join(f.text for f in cfg.make()(_parse(deep)))
            ctx.bump('reused-printer:deep call completed')
        except RecursionError:
            ctx.bump('reused-printer:call died (RecursionError)')
        except Exception as e:
            ctx.bump('reused-printer:call died (%s)' % type(e).__name__)
        for text in ('var total = 0, list = []; function add(x) { total += x; return function () { return total + list.length; }; } add(1)();',
                     'function g(x) { try { y(x); } catch (e) { return e; } } var top = g;'):
            ctx.bump('reused-printer-after-dead-call')
            chk.process(text, [cfg], 'reused-printer-after-dead-call', do_tie=False, do_agree=False)
    chk.gen_tie(ctx.sub_rng('gen'), ctx.n(60, 600))
    # known-finding witnesses
    for e in ctx.known_findings:
        w = (e.get('witness') or {}).get('text')
        if w:
            before = list(ctx.known_hits)
            chk.process(w, [PCfg('minify', False, False)], 'known-finding-witness', do_tie=False, do_agree=False)
            if list(ctx.known_hits) == before and not any(e['id'] in h for h in ctx.known_hits):
                ctx.note('witness of %s no longer fails: the finding may be fixed' % e.get('id'))
    chk.finish()
    ctx.assumptions.append('programs using `with` or a direct call of `eval` are out of scope (decided on the reference '
                           'parser\'s tree); trees are those the parser builds (every node object occurs once)')
    ctx.trusted.append('Spec/Scope.lean as a reading of ES5.1 §10, §12.14, §13; drv_spec reference parser')


def replay(ctx, path):
    boot.boot()
    data = json.load(open(path))
    r = data.get('replay') or {}
    if r.get('kind') != 'program':
        print('REPLAY C07: no failing input was recorded; obligations that no longer check:')
        for o in r.get('broken', []):
            print('  %s (%s): %s' % (o.get('name'), o.get('kind'), str(o.get('detail'))[:400]))
        return 1
    cfg = PCfg.fromdict(r['printer'])
    chk = Check(ctx)
    tree = chk.parse(r['text'])
    if tree is None:
        print('REPLAY C07: trouble: the recorded program no longer parses: %r' % r['text'])
        return 2
    print('REPLAY C07: input %r printer %s' % (r['text'], cfg.id))
    try:
        print('REPLAY C07: output %r' % ''.join(f.text for f in cfg.make()(tree)))
    except Exception as e:
        print('REPLAY C07: printer raises %r' % (e,))
    for stage, d in chk.tie_case(r['text'], tree, cfg):
        print('REPLAY C07: tie difference %s: %s' % (stage, d[:300]))
    fails = chk.judge.judge(cfg, tree)
    for c, m in fails:
        print('REPLAY C07: violation reproduced: %s: %s' % (c, m))
    if fails:
        kf = chk.classify(r['text'], fails, cfg)
        if kf:
            print('REPLAY C07: known-finding class %s' % kf)
            return 0
        return 1
    print('REPLAY C07: the property holds on this input now')
    return 0
