"""
C13  Comment capture is faithful and does not perturb the parse.

proof   Props/C13 (lexer model, action table, unparser definitions):
          token_comments_transparent / auto_semi_… / backtracked_token_… / p_error_… : the lexer with capture
          simulates the lexer without it step by step (equal tokens up to `hidden`, equal decisions, equal errors);
          actions_transparent: a semantic action without capture on erased arguments yields the erasure of its result;
          comments_transparent (FULL): for all texts erase(parse(text, True)) = parse(text, False), same errors;
          comments_faithful (end to end, ghost derivation trees): every `@comments` of the accepted tree is set_comments
          of a shifted token whose comments are comment tokens of the source; comments_attached_once: with multiplicity
          (no token's comments reach two nodes); comments_in_source_order / attached_comment_offsets_increasing (no
          hypothesis): source order within a node, disjointness across tokens, strictly increasing offsets, through
          auto_semi, pops from next_tokens and the rewind of backtracked_token; comments_faithful_ordered combines them;
          no_comment_attached_twice, action_slots_used_once (kernel
          decisions over Gen.Actions); line_comment_followed_by_newline (kernel decision over Gen.Defs / Gen.Rules).
tie     S2 (text -> tree with positions, token maps and comments, capture off and on) on the commented inputs;
        S3/S4 (pretty printers) on the commented trees.
judge   on the implementation, for base programs (G1 manifests, G2 grammar-generated, hand-written ASI / `/` / restricted
        production cases) x one comment at every gap between two tokens (and before the first / after the last token)
        x comment kinds (block, multi-line block, line with each of the five terminators; hostile contents), plus random
        multi-comment variants:
          J0  a comment is white space (ES5 7.4): the commented text parses like the text with each comment replaced
              by the white space it stands for (block -> SP, multi-line block -> LF, line -> nothing);
          J1  parse(t, with_comments=True) accepts iff parse(t) accepts, same exception class and message otherwise,
              trees identical (kinds, attributes, positions, token maps) after erasing the comments;
          J2  every attached comment: value == t[lexpos:lexpos+len], (lineno, colno) by ES5 counting, it is a comment
              of the source (comment list of the independent reference parser), source order within a node,
              no source comment attached twice; which comments are attached at all is measured;
          J3  out = pretty_print(tree with comments): the real parser and the reference parser read `out` as the same
              structure, the comments of `out` in source order (reference lexer) are the comments of the tree in
              traversal order, and the real parser with capture re-attaches them in the same traversal order.
"""
import json

import corpus
import genjs
import proto
import shrink
import specclient
import treedump
from parts import kfclass, parsetie, texts as T
from checks import C03

SPEC = dict(gen=['tables', 'actions', 'lexdata', 'defs', 'rules', 'unicodecat'], props=['CalmVerif.Props.C13'],
            drivers=['drv_parse', 'drv_unparse', 'drv_spec'], audit='Audit/C13.lean')

BLOCK1 = ['/**/', '/* c */', '/***/', '/*//*/', '/* /* */', "/*'*/", '/*"*/', '/* é 日本 \U0001F600 */', '/*/*/', '/* * / */',
          '/*\\*/', '/* x = 1; */', '/*\t*/']
BLOCKN = ['/*\n*/', '/* a\r\n b */', '/*\r*/', '/* */', '/* x   y */', '/*\n\n*/', '/*\n * doc\n */', '/* // \n */']
LINE = ['//', '// c', '//c /* x', '// \'q"', '// é\U0001F600', '///', '//*/', '// */ x', '//\t;', '// a = 1;',
        # trailing blanks of every kind belong to the comment (it extends to the line terminator)
        '// c ', '// c  \t', '//\xa0', '// c\x0c', '// c \u2003 ', '//\t']
TERMS = ['\n', '\n', '\r', '\r\n', ' ', ' ']
LTS = '\n\r  '

HAND = [
    'x = ((a + b)) * 2;', '((a));', 'f(((a)), ((b)));', 'y = (((1)));', 'x = [((a)), ({})];', 'if (((a))) ((b));',
    'a\nb', 'a\n(b)', 'a = b\n++c', 'x\n++\ny', 'return\na', 'function f(){return 1}', 'function f(){return a + b;}',
    'function f(){return}', 'function f(){throw e}', 'while(1){break}', 'l: while(1){break l}', 'l: while(1){continue l;}',
    'while(1) continue\nx', 'throw new E(1)', 'a = b / c / d', 'a = /re/g', 'x = a / /re/.test(b)', 'if (a) /re/.test(b)',
    'while (a) /re/.exec(b)', 'for (;;) /re/.exec(b)', 'a = (b) / c', 'f(a) / 2', 'a[0] / 2', 'a++ / 2', 'a /= 2', '{} /re/.test(a)',
    'x = {} / 2', 'for(;;);', 'for(a;b;c);', 'for(var i = 0; i < n; i++) x', 'for (a in b) c', 'for (var a in b) c', 'do x\nwhile(y)\nz',
    'do x; while(y) z', 'if(a)b\nelse c', 'var a\nvar b', 'var a = 1, b = 2', '{a\nb}', '({a: 1, get b(){return 1}, set c(v){}})',
    '[1, , 2, ,]', 'a ? b : c', 'a, b', 'a.b.c(d)[e]', 'new A(b).c', 'new A', 'typeof a + -b', '!a && ~b || void 0', 'i++\nj--', 'a = function(){}',
    'function f(a, b){}', '(function(){})()', 'switch(a){case 1: b; default: c}', 'try{a}catch(e){b}finally{c}', 'with(a){b}',
    'debugger', ';', '', 'x: y', "'use strict'\na", '"s" + 1', 'a = 1 + 2 * 3', 'a\n/b/g', 'a\n/ b / g', 'this.x = null', 'delete a.b',
    'a instanceof b in c', 'a = b\n(c)', 'a\n[b]', 'var f = function g(){ return g }', 'if (a) { b } else if (c) d; else { e }',
]


# ----------------------------------------------------------------------------- the implementation

def calm_full(text, wc):
    """('ok', tree) | ('err', class name, message) | ('crash', class name, message)"""
    from calmjs.parse.parsers.es5 import parse
    from calmjs.parse.exceptions import ECMASyntaxError
    try:
        return ('ok', parse(text, with_comments=wc))
    except ECMASyntaxError as e:
        return ('err', type(e).__name__, str(e))
    except RecursionError:
        raise
    except Exception as e:
        return ('crash', type(e).__name__, str(e))


def structure_of(r):
    return ('ok', treedump.dump(r[1])) if r[0] == 'ok' else ('rej',)


def pretty(tree):
    from calmjs.parse.unparsers.es5 import pretty_print
    try:
        return ('ok', pretty_print(tree))
    except RecursionError:
        raise
    except Exception as e:
        return ('crash', type(e).__name__, str(e))


# ----------------------------------------------------------------------------- comments of a dumped tree

def _kids(node):
    out = []

    def rec(v):
        if isinstance(v, proto.Node):
            out.append(v)
        elif isinstance(v, list):
            for x in v:
                rec(x)
    for k, v in node.attrs:
        if not k.startswith('@'):
            rec(v)
    return out


def _minpos(node, memo):
    k = id(node)
    if k not in memo:
        p = node.get('@pos')
        best = p[0] if p and p[0] is not None else None
        for c in _kids(node):
            m = _minpos(c, memo)
            if m is not None and (best is None or m < best):
                best = m
        memo[k] = best
    return memo[k]


def own_comments(node):
    c = node.get('@comments')
    return [] if c is None else list(c.get('children'))


def comment_seq(node, memo=None):
    """comments of the tree in traversal (= unparse) order: a node's comments come before everything the node prints,
    children are visited in the order of their leftmost source position (independent of the unparser's definitions)"""
    memo = {} if memo is None else memo
    out = [(c.kind, c.get('value')) for c in own_comments(node)]
    kids = sorted(_kids(node), key=lambda n: (_minpos(n, memo) is None, _minpos(n, memo) or 0))
    for k in kids:
        out += comment_seq(k, memo)
    return out


def carriers(dump):
    """nodes of the tree (not inside a Comments node) that carry comments"""
    out = []

    def rec(n):
        if own_comments(n) or n.get('@comments') is not None:
            out.append(n)
        for k in _kids(n):
            rec(k)
    rec(dump)
    return out


# ----------------------------------------------------------------------------- judges (each returns a complaint or None)

def ref_comments(spec, text, constructed=None):
    """comment list [(kind, text, offset)] of the source by the independent reference; falls back to stand-alone
    reference lexing, then to the list known by construction"""
    r = spec.tokens(text)
    if r[0] != 'ok':
        r = spec.lex(text)
    if r[0] == 'ok':
        return [({'Block': 'BlockComment', 'Line': 'LineComment'}[c.kind], c.text, c.off) for c in r[2]], 'reference'
    if constructed is not None:
        return constructed, 'construction'
    return None, None


def judge_transparent(text, r0, r1):
    """J1"""
    if r0[0] != r1[0]:
        return 'acceptance differs: without capture %s, with capture %s' % (r0[:1] + r0[1:3] if r0[0] != 'ok' else ('ok',),
                                                                          r1[:1] + r1[1:3] if r1[0] != 'ok' else ('ok',))
    if r0[0] != 'ok':
        if r0[1:] != r1[1:]:
            return 'error differs: without capture %r, with capture %r' % (r0[1:], r1[1:])
        return None
    d0 = treedump.dump(r0[1], pos=True, tokmap=True, comments=True)
    if any(n.get('@comments') is not None for n in treedump.all_nodes(d0)):
        return 'the tree parsed without capture carries comments'
    d1 = treedump.dump(r1[1], pos=True, tokmap=True, comments=False)
    if d0 != d1:
        return 'trees differ after erasing comments (without capture vs with): %s' % first_diff(d0, d1)
    return None


def first_diff(a, b, path=''):
    if isinstance(a, proto.Node) and isinstance(b, proto.Node):
        if a.kind != b.kind:
            return '%s: kind %s vs %s' % (path, a.kind, b.kind)
        ka, kb = [k for k, _ in a.attrs], [k for k, _ in b.attrs]
        if ka != kb:
            return '%s(%s): attributes %r vs %r' % (path, a.kind, ka, kb)
        for (k, x), (_, y) in zip(a.attrs, b.attrs):
            d = first_diff(x, y, '%s/%s.%s' % (path, a.kind, k))
            if d:
                return d
        return None
    if isinstance(a, list) and isinstance(b, list):
        if len(a) != len(b):
            return '%s: length %d vs %d' % (path, len(a), len(b))
        for i, (x, y) in enumerate(zip(a, b)):
            d = first_diff(x, y, '%s[%d]' % (path, i))
            if d:
                return d
        return None
    return None if a == b else '%s: %r vs %r' % (path, a, b)


def judge_faithful(text, d1, src_comments, stats=None):
    """J2; d1 = dump of the tree parsed with capture (pos, tokmap, comments); src_comments = [(kind, text, offset)]"""
    starts = T.es5_lines(text)
    known = {(k, o): t for k, t, o in src_comments} if src_comments is not None else None
    seen = {}
    for n in carriers(d1):
        cm = n.get('@comments')
        if cm.kind != 'Comments':
            return '%s.comments is a %s' % (n.kind, cm.kind)
        kids = cm.get('children')
        if not kids:
            return '%s carries an empty Comments node' % n.kind
        last = -1
        for c in kids:
            if c.kind not in ('LineComment', 'BlockComment'):
                return 'comment node of kind %s' % c.kind
            v, pos = c.get('value'), c.get('@pos')
            if not isinstance(v, str) or not pos or pos[0] is None:
                return 'comment without value / position: %r %r' % (v, pos)
            off = pos[0]
            if text[off:off + len(v)] != v:
                return 'comment %r recorded at offset %d where the source has %r' % (v, off, text[off:off + len(v) + 2])
            end = off + len(v)
            if c.kind == 'LineComment' and (not v.startswith('//') or (end < len(text) and text[end] not in '\n\r\u2028\u2029')):
                return 'line comment %r at offset %d is not the whole comment of the source (it goes on with %r)' % (
                    v, off, text[end:end + 6])
            if c.kind == 'BlockComment' and not (v.startswith('/*') and v.endswith('*/') and len(v) >= 4 and '*/' not in v[2:-2]):
                return 'block comment %r at offset %d is not one whole comment' % (v, off)
            if tuple(pos[1:]) != T.line_col(text, off, starts):
                return 'comment %r at offset %d recorded at %d:%d, ES5 counting gives %d:%d' % (
                    (v, off) + tuple(pos[1:]) + T.line_col(text, off, starts))
            tm = c.get('@tokmap')
            if tm != [[v, [list(pos)]]]:
                return 'comment %r token map %r does not record its own position %r' % (v, tm, pos)
            if known is not None and known.get((c.kind, off)) != v:
                return '%s %r at offset %d is not a comment of the source (the source comments are %r)' % (
                    c.kind, v, off, sorted(known.items())[:6])
            if off <= last:
                return 'comments of one %s node out of source order: offset %d after %d' % (n.kind, off, last)
            last = off
            if off in seen:
                return 'the comment at offset %d is attached twice (to %s and to %s)' % (off, seen[off], n.kind)
            seen[off] = n.kind
        if cm.get('@pos') != kids[0].get('@pos'):
            return 'Comments node position %r is not its first comment\'s %r' % (cm.get('@pos'), kids[0].get('@pos'))
    if stats is not None and src_comments is not None:
        stats['source'] = stats.get('source', 0) + len(src_comments)
        stats['attached'] = stats.get('attached', 0) + len(seen)
    return None


RESTRICTED = ('return', 'throw', 'break', 'continue')


def kf13a_class(out):
    """structural class of KF-13a on the printed text: return/throw/break/continue directly followed by a comment"""
    toks = [t for t in C03.tokenize_rough(out)]
    for i, t in enumerate(toks[:-1]):
        if t in RESTRICTED and kfclass.is_comment(toks[i + 1]) and (i == 0 or toks[i - 1] != '.'):
            return True
    return False


def leftmost_leaf(node, memo):
    """the node that owns the leftmost token of the subtree (by source position)"""
    while True:
        kids = [k for k in _kids(node) if _minpos(k, memo) is not None]
        own = node.get('@pos')
        if not kids:
            return node
        first = min(kids, key=lambda n: _minpos(n, memo))
        if own and own[0] is not None and own[0] < _minpos(first, memo):
            return node
        node = first


def carrier_class(n, parent, attr, memo):
    """structural class of a comment-carrying node whose comments are known to get lost, or None
       KF-13b  the EmptyStatement synthesised for an omitted for(;;) clause (printed before the second `;`)
       KF-13c  the CaseBlock of a switch (its definition prints no comments)
       KF-13d  a property assignment `name: value` (anchored at the `:`; printed before the property name, where the parser
               keeps no comments)
       KF-13e  an operator-anchored node whose first token is a regular-expression literal (printed before the literal; after
               `}` `)` `++` `--` the parser reads that literal by back-tracking and loses the pending comments)"""
    if n.kind == 'EmptyStatement' and parent is not None and parent.kind == 'For' and attr in ('init', 'cond'):
        return 'KF-13b'
    if n.kind == 'CaseBlock':
        return 'KF-13c'
    if n.kind == 'Assign' and n.get('op') == ':':
        return 'KF-13d'
    if n.kind != 'Regex' and leftmost_leaf(n, memo).kind == 'Regex':
        return 'KF-13e'
    return None


def is_subsequence(a, b):
    it = iter(b)
    return all(any(x == y for y in it) for x in a)


def lost_classes(d1, found, expected):
    """found is what survived of expected: if it is a subsequence (nothing altered, reordered or duplicated) and every lost
    comment is carried by a node of a known class, the sorted list of these classes; else None"""
    if not is_subsequence(found, expected):
        return None
    lost = list(expected)
    for x in found:
        lost.remove(x)
    memo = {}
    by_comment = {}

    def rec(n, parent, attr):
        cs = own_comments(n)
        if cs:
            k = carrier_class(n, parent, attr, memo)
            for c in cs:
                by_comment.setdefault((c.kind, c.get('value')), set()).add(k)
        for a, v in n.attrs:
            if a.startswith('@'):
                continue
            for x in (v if isinstance(v, list) else [v]):
                if isinstance(x, proto.Node):
                    rec(x, n, a)
    rec(d1, None, None)
    out = set()
    for c in lost:
        ks = by_comment.get(c, {None}) - {None}
        if not ks:
            return None
        out |= ks
    return sorted(out)


def judge_print(spec, tree0, tree1, d1=None):
    """J3; returns (part, complaint, out, ref_reads_it) — part None = passes"""
    p1 = pretty(tree1)
    if p1[0] != 'ok':
        return 'print-crash', 'pretty_print of the tree with comments raised %s: %s' % p1[1:], None, False
    out = p1[1]
    want = treedump.dump(tree1)
    d1 = d1 or treedump.dump(tree1, pos=True, comments=True)
    seq = comment_seq(d1)
    # does the reference read the comment-free printing as the tree?  (otherwise a deviation is not the comments')
    p0 = pretty(tree0)
    base_ok = p0[0] == 'ok' and specclient.sendable(p0[1]) and specclient.sendable(out) and spec.parse(p0[1]) == ('ok', want)
    s = spec.parse(out) if base_ok else None
    ref_reads_it = base_ok and s == ('ok', want)
    # real parser (judged only when it reads the comment-free printing as the tree: otherwise the deviation is not the
    # comments' but C01's subject, e.g. `2 .h` printed as `2.h`)
    r = calm_full(out, True)
    rb = calm_full(p0[1], False) if p0[0] == 'ok' else ('crash',)
    base_real_ok = rb[0] == 'ok' and treedump.dump(rb[1]) == want
    if r[0] != 'ok' or treedump.dump(r[1]) != want:
        if not base_real_ok:
            r = None
        elif r[0] != 'ok':
            return 'real-reject', 'the real parser rejects the printed text: %s' % (r[2],), out, ref_reads_it
        else:
            return 'real-tree', 'the real parser reads the printed text as another tree: %s' % first_diff(
                want, treedump.dump(r[1])), out, ref_reads_it
    # reference parser
    if base_ok:
        if s[0] != 'ok':
            return 'ref-reject', 'a conforming ES5 parser rejects the printed text (%s at offset %d)' % (s[2], s[1]), out, False
        if s[1] != want:
            return 'ref-tree', 'a conforming ES5 parser reads the printed text as another tree: %s' % first_diff(
                want, s[1]), out, False
    if specclient.sendable(out):
        rc, how = ref_comments(spec, out)
        if rc is not None:
            got = [(k, t) for k, t, _ in rc]
            if got != seq:
                return 'ref-comments', 'comments of the printed text in source order %r, comments of the tree in traversal order %r' % (
                    got[:8], seq[:8]), out, (ref_reads_it, got, seq)
    if r is None:
        return None, None, out, ref_reads_it
    seq2 = comment_seq(treedump.dump(r[1], pos=True, comments=True))
    if seq2 != seq:
        return 'real-comments', 'comments re-attached by the real parser (traversal order) %r, the tree had %r' % (
            seq2[:8], seq[:8]), out, (ref_reads_it, seq2, seq)
    return None, None, out, ref_reads_it


def judge_whitespace(spec, t, w, r_t=None):
    """J0: comment == the white space it stands for.  returns complaint or None"""
    c_t = structure_of(r_t or calm_full(t, False))
    c_w = structure_of(calm_full(w, False))
    if c_t == c_w:
        return None
    # is the replacement really equivalent?  ask the reference
    if specclient.sendable(t) and specclient.sendable(w):
        s_t, s_w = spec.parse(t), spec.parse(w)
        if (s_t[0], s_t[1] if s_t[0] == 'ok' else None) != (s_w[0], s_w[1] if s_w[0] == 'ok' else None):
            return 'HARNESS'
    if c_t[0] != c_w[0]:
        return 'the commented text is %s, the same text with white space in place of the comments is %s' % (
            'accepted' if c_t[0] == 'ok' else 'rejected', 'accepted' if c_w[0] == 'ok' else 'rejected')
    return 'the comments change the tree: %s' % first_diff(c_w[1], c_t[1])


def known_whitespace_classes(t):
    return kfclass.classes(C03.tokenize_rough(t)) & {'KF-04a', 'KF-04d', 'KF-05b'}


def judge_all(ctx, spec, t, w=None, constructed=None, stats=None, only=None):
    """runs J0..J3 on one text; returns list of (judge, complaint, extra)"""
    out = []
    r0 = calm_full(t, False)
    r1 = calm_full(t, True)
    for r in (r0, r1):
        if r[0] == 'crash':
            # internal exceptions are C12's subject; for C13 only the equality of the two outcomes matters
            ctx.bump('outcome:crash:' + r[1])
    ctx.bump('outcome:' + r1[0])
    if w is not None and (only is None or 'J0' in only):
        c = judge_whitespace(spec, t, w, r0)
        if c == 'HARNESS':
            ctx.bump('J0:replacement-not-equivalent-for-the-reference (skipped)')
        elif c:
            out.append(('J0', c, dict(ws_equivalent=w)))
    if only is None or 'J1' in only:
        c = judge_transparent(t, r0, r1)
        if c:
            out.append(('J1', c, {}))
    if r1[0] == 'ok':
        d1 = treedump.dump(r1[1], pos=True, tokmap=True, comments=True)
        if only is None or 'J2' in only:
            # "is a comment of the source" is judged against the reference's comment list when the reference reads the
            # text as the same tree (then both agree on what every `/` is); otherwise against the list known by construction
            src = constructed
            if specclient.sendable(t) and spec.parse(t) == ('ok', treedump.dump(r1[1])):
                src, how = ref_comments(spec, t, constructed)
                ctx.bump('J2:comment-list:reference')
            else:
                ctx.bump('J2:comment-list:%s' % ('construction' if constructed is not None else 'none (membership not judged)'))
            c = judge_faithful(t, d1, src, stats)
            if c:
                out.append(('J2', c, {}))
        if r0[0] == 'ok' and (only is None or 'J3' in only):
            part, c, o, ref_ok = judge_print(spec, r0[1], r1[1], d1)
            if part:
                ex = dict(printed=o, part=part)
                if isinstance(ref_ok, tuple):
                    ref_ok, found, expected = ref_ok
                    ex['lost_comment_classes'] = lost_classes(d1, found, expected)
                ex['reference_reads_printed_text_as_the_tree'] = bool(ref_ok)
                out.append(('J3', c, ex))
    return out


def classify(ctx, judge, t, extra):
    """ids of the known findings (listed for C13) whose structural class the failing case is in"""
    ids = {e['id'] for e in ctx.known_findings}
    if judge == 'J0':
        return sorted(known_whitespace_classes(t) & ids)
    if judge == 'J3' and extra.get('printed'):
        out, part = [], extra.get('part')
        if kf13a_class(extra['printed']) and part in ('ref-tree', 'ref-reject'):
            out.append('KF-13a')
        if part in ('real-reject', 'real-tree') and extra.get('reference_reads_printed_text_as_the_tree'):
            # a conforming parser reads the printed text as the tree; calmjs's own parser does not, and the printed text is in
            # a class where calmjs's parser is known to deviate from ES5 because of a comment
            out += sorted(known_whitespace_classes(extra['printed']))
        lc = extra.get('lost_comment_classes')
        if part == 'ref-comments' and lc == ['KF-13c']:
            out += lc
        if part == 'real-comments' and lc and all(k in ids for k in lc):
            out += lc
        return [k for k in out if k in ids]
    return []


# ----------------------------------------------------------------------------- inputs

class Variant(object):
    __slots__ = ('text', 'ws', 'inserted', 'what')

    def __init__(self, text, ws, inserted, what):
        self.text, self.ws, self.inserted, self.what = text, ws, inserted, what


def base_info(spec, text):
    """(gap list [(end of previous token, start of next token)], comments of the base) or None"""
    if not specclient.sendable(text):
        return None
    r = spec.tokens(text)
    if r[0] != 'ok':
        return None
    gaps, prev_end = [], 0
    for tk in r[1]:
        if text[tk.off:tk.off + len(tk.text)] != tk.text:
            return None
        gaps.append((prev_end, tk.off))
        prev_end = tk.off + len(tk.text)
    gaps.append((prev_end, len(text)))
    return gaps, [({'Block': 'BlockComment', 'Line': 'LineComment'}[c.kind], c.text, c.off) for c in r[2]]


def make_comment(rng, kind):
    """(comment text incl. the line terminator of a line comment, white-space replacement)"""
    if kind == 'block':
        return rng.choice(BLOCK1), ' '
    if kind == 'multi':
        return rng.choice(BLOCKN), '\n'
    term = rng.choice(TERMS)
    return rng.choice(LINE) + term, term


def apply_insertions(text, ins):
    """ins: list of (position, comment text, replacement); returns (commented text, ws-equivalent, [(kind, text, offset)])"""
    out, ws, placed = [], [], []
    cur, n, lastch = 0, 0, ''
    for pos, c, rep in sorted(ins, key=lambda x: x[0]):
        piece = text[cur:pos]
        out.append(piece)
        ws.append(piece)
        n += len(piece)
        cur = pos
        if piece:
            lastch = piece[-1]
        if lastch == '/':
            # `a //*c*/` would turn the division into a line comment
            out.append(' ')
            ws.append(' ')
            n += 1
        body = c.rstrip(LTS) if c.startswith('//') else c
        placed.append(('LineComment' if c.startswith('//') else 'BlockComment', body, n))
        out.append(c)
        ws.append(rep)
        n += len(c)
        lastch = c[-1]
    out.append(text[cur:])
    ws.append(text[cur:])
    return ''.join(out), ''.join(ws), placed


def variants_of(rng, text, gaps, kinds_per_gap, n_multi):
    last = len(gaps) - 1
    vs = []

    def place(i):
        s, e = gaps[i]
        if i == last and '//' in text[s:e]:
            return s            # `e` may lie inside a line comment that runs to the end of the input
        return rng.choice([s, e])
    for i in range(len(gaps)):
        for kind in kinds_per_gap(i):
            c, rep = make_comment(rng, kind)
            t, w, placed = apply_insertions(text, [(place(i), c, rep)])
            vs.append(Variant(t, w, placed, 'one:' + kind))
    for _ in range(n_multi):
        ins = []
        for _ in range(rng.randint(2, 8)):
            c, rep = make_comment(rng, rng.choice(['block', 'block', 'multi', 'line']))
            ins.append((place(rng.randrange(len(gaps))), c, rep))
        # several comments at the same place keep their order of generation
        t, w, placed = apply_insertions(text, ins)
        vs.append(Variant(t, w, placed, 'multi'))
    return vs


def bases(ctx):
    rng = ctx.sub_rng('bases')
    out = [('hand', h) for h in HAND]
    out += [('corpus', e['text'] if isinstance(e, dict) else e) for e in corpus.extra('C13')]
    g1 = [t for t in corpus.g1_valid() if len(t) <= ctx.n(160, 300)]
    out += [('g1', t) for t in rng.sample(g1, min(len(g1), ctx.n(30, 60)))]
    opts = genjs.Opts(max_depth=2, max_stmts=2, with_stmt=False)
    layouts = [genjs.Layout('spaced'), genjs.Layout('min'), genjs.Layout('spaced', drop_semi=1.0),
               genjs.Layout('wild', drop_semi=0.5, unicode_terms=True)]
    for text, toks, lo in genjs.programs(rng, ctx.n(45, 130), opts=opts, layouts=layouts):
        if len(toks) <= ctx.n(70, 90):
            out.append(('g2', text))
    return out


# ----------------------------------------------------------------------------- run

def report(ctx, spec, judge, complaint, t, extra, constructed):
    """shrink, classify, record a violation; returns True if a violation was recorded"""
    ids = {e['id'] for e in ctx.known_findings}

    def bad(x):
        if not specclient.sendable(x):
            return False
        w = None
        if judge == 'J0':
            w = ws_equivalent(spec, x)
            if w is None:
                return False
        rs = judge_all(ctx, spec, x, w, only=(judge,))
        return any(j == judge and not classify(ctx, j, x, ex) for j, _, ex in rs)
    m = t
    try:
        if bad(t):
            m = shrink.shrink_text(t, bad, 400)
    except RecursionError:
        pass
    w = ws_equivalent(spec, m) if judge == 'J0' else None
    rs = [r for r in judge_all(ctx, spec, m, w, only=(judge,)) if r[0] == judge]
    comp = rs[0][1] if rs else complaint
    ex = rs[0][2] if rs else extra
    desc = {'J0': 'a comment perturbs the parse (it is not read as the white space it stands for)',
            'J1': 'comment capture changes the parse',
            'J2': 'an attached comment is not faithful',
            'J3': 'pretty-printing a tree with comments does not give back the tree and its comments'}[judge]
    ctx.violation('%s: %s' % (desc, comp), dict(judge=judge, text=m, original=t, complaint=comp, **ex))
    return True


def ws_equivalent(spec, text):
    """the text with every comment replaced by the white space it stands for (comments located by the reference lexer)"""
    r = spec.tokens(text)
    if r[0] != 'ok':
        r = spec.lex(text)
        if r[0] != 'ok':
            return None
    out, cur = [], 0
    for c in r[2]:
        out.append(text[cur:c.off])
        if c.kind == 'Line':
            out.append('')
        else:
            out.append('\n' if any(ch in c.text for ch in LTS) else ' ')
        cur = c.off + len(c.text)
    out.append(text[cur:])
    return ''.join(out)


def known_witnesses(ctx, spec):
    for e in ctx.known_findings:
        w = e.get('witness', {})
        text = w.get('text')
        if text is None:
            continue
        rs = judge_all(ctx, spec, text, w.get('ws_equivalent', ws_equivalent(spec, text)))
        hit = [(j, c) for j, c, ex in rs if e['id'] in classify(ctx, j, text, ex)]
        if hit:
            ctx.known(e['id'], '%s (%r: %s)' % (e['what'], text, hit[0][1][:160]))
        else:
            ctx.note('known finding %s no longer reproduces on its witness %r' % (e['id'], text))


def run(ctx):
    ctx.rule('base programs (hand-written ASI / slash / restricted-production cases, G1 manifests, G2 grammar-generated in spaced, '
             'minimal, semicolon-less and wild layouts) x one comment at EVERY gap between two tokens (also before the first and '
             'after the last; placed right after the previous token or right before the next) x kinds (single-line block, '
             'multi-line block with LF/CR/CRLF/U+2028/U+2029, line comment ended by each terminator; contents with //, /*, '
             'quotes, non-ASCII and astral characters), plus random variants with 2-8 comments; non-trivial = the text has '
             'a comment and at least one token; distinct by text')
    ctx.trusted += ['Lean 4.33 kernel', 'translators g_tables / g_actions / g_lexdata / g_defs / g_rules',
                    'Spec.Es5Lex / Spec.Es5Parse (comment list, trees) as the independent reference',
                    'the end-to-end statement comments_transparent is proved for the composed model (lexer + LR + actions) '
                    'with no hypothesis; faithfulness is proved end to end for the accepted tree (comments_faithful_ordered: verbatim '
                    'source comments, attached once, in source order, disjoint across tokens, strictly increasing offsets)']
    ctx.assumptions += ['well-formed Unicode scalar sequences', 'pretty printer only (minify printers drop comments by design)']
    spec = specclient.Spec(ctx)
    known_witnesses(ctx, spec)
    rng = ctx.sub_rng('variants')
    stats = {}
    tie_texts = []
    found = False
    nknown = {}
    thorough = ctx.tier == 'thorough'
    rot = [0]

    def kinds(i):
        if thorough:
            return ['block', 'multi', 'line']
        rot[0] += 1
        return [['block', 'line', 'multi', 'block', 'line'][rot[0] % 5]]
    for origin, base in bases(ctx):
        info = base_info(spec, base)
        if info is None:
            ctx.bump('base:not-usable(reference rejects / not sendable)')
            continue
        gaps, base_comments = info
        ctx.bump('base:' + origin)
        ctx.bump('gaps', len(gaps))
        for v in variants_of(rng, base, gaps, kinds, ctx.n(2, 4)):
            t = v.text
            ctx.case(t, nontrivial=len(gaps) > 1)
            ctx.bump('variant:' + v.what)
            if len(tie_texts) < ctx.n(400, 4000) and (len(t) < 400):
                tie_texts.append(t)
            # comment list by construction (fallback when the reference cannot lex the text)
            constructed = None
            if not base_comments:
                constructed = v.inserted
            for judge, complaint, extra in judge_all(ctx, spec, t, v.ws, constructed, stats):
                kfs = classify(ctx, judge, t, extra)
                if kfs:
                    for kf in kfs:
                        nknown[kf] = nknown.get(kf, 0) + 1
                    ctx.bump('%s:in-known-class:%s' % (judge, '+'.join(kfs)))
                    continue
                ctx.bump('%s:FAIL' % judge)
                found = report(ctx, spec, judge, complaint, t, extra, constructed)
                if found:
                    break
            if found:
                break
        if found:
            break
    for kf, n in sorted(nknown.items()):
        ctx.note('%d generated variants fall in the structural class of %s and fail there' % (n, kf))
    if stats.get('source'):
        ctx.bump('comments:source', stats['source'])
        ctx.bump('comments:attached', stats['attached'])
        ctx.note('of %d source comments in accepted variants %d (%.1f%%) are attached to a node; the others precede a token '
                 'that is not the `setpos` slot of any node (or the end of input) and are dropped'
                 % (stats['source'], stats['attached'], 100.0 * stats['attached'] / stats['source']))
    if tie_texts:
        ctx.sample(dict(text=tie_texts[len(tie_texts) // 2][:120]))
    if found:
        return
    if getattr(ctx, 'drivers_ok', True):
        parsetie.full_tie(ctx, tie_texts, with_comments=(False, True))
        model_transparency(ctx, tie_texts)
        from parts import unparse_tie
        rng2 = ctx.sub_rng('unparse-tie')
        sub = rng2.sample(tie_texts, min(len(tie_texts), ctx.n(120, 1200)))
        unparse_tie.unparse_tie(ctx, [(t, True) for t in sub], configs=unparse_tie.pretty_configs(indents=['  ', '\t', '']),
                                stage='S3[comments]')


def erase_comments(v):
    if isinstance(v, list):
        return [erase_comments(x) for x in v]
    if isinstance(v, proto.Node):
        return proto.Node(v.kind, [(k, erase_comments(x)) for k, x in v.attrs if k != '@comments'])
    return v


def model_transparency(ctx, texts):
    """the statement of Props.C13.comments_transparent, evaluated on the compiled Lean model (drv_parse): the reply for
    `text 0` is the reply for `text 1` with the comments erased (a regression test of the driver against the theorem)"""
    drv = ctx.driver('drv_parse')
    texts = [t for t in texts if specclient.sendable(t)]
    r1 = drv.ask_many(['text 1 ' + proto.enc_str(t) for t in texts])
    r0 = drv.ask_many(['text 0 ' + proto.enc_str(t) for t in texts])
    diffs = []
    for t, a, b in zip(texts, r1, r0):
        if a.startswith('OK ') and b.startswith('OK '):
            ok = erase_comments(proto.parse(a[3:])) == proto.parse(b[3:])
        else:
            ok = a == b
        if not ok:
            diffs.append(dict(text=t, with_capture=a[:300], without=b[:300]))
    ctx.obligation('model: erase(Parser.parse text true) = Parser.parse text false (comments_transparent evaluated on the '
                   'compiled model)', not diffs, 'tie', '%d texts; first differences: %r' % (len(texts), diffs[:2]))


def replay(ctx, path):
    d = json.load(open(path))['replay']
    spec = specclient.Spec(ctx)
    t = d['text']
    w = d.get('ws_equivalent') or ws_equivalent(spec, t)
    rs = judge_all(ctx, spec, t, w)
    print('text          :', repr(t))
    print('ws-equivalent :', repr(w))
    r1 = calm_full(t, True)
    if r1[0] == 'ok':
        print('printed       :', repr(pretty(r1[1])[1]))
    else:
        print('parse         :', r1[1:])
    bad = 0
    for j, c, ex in rs:
        kf = classify(ctx, j, t, ex)
        print('%s %s: %s' % (j, 'KNOWN ' + '+'.join(kf) if kf else 'FAIL', c))
        if not kf:
            bad += 1
    if not rs:
        print('all judges pass')
    return 1 if bad else 0


# Entries proposed for /verif/known_findings.json ("open" list).  NOT read at run time: a failure is classified as known
# only if its id is listed for property C13 in ctx.known_findings (framework.load_known).
PROPOSED_KNOWN_FINDINGS = [{'property': 'C13',
  'id': 'KF-13a',
  'class': 'comment printed directly after return/throw/break/continue',
  'witness': {'text': 'function f(){return /*x*/ 1}'},
  'what': 'a comment attached to the first token of the operand of return/throw (label of break/continue) is printed '
          'followed by the Newline of the LineComment/BlockComment definition inside the restricted production: '
          '`return /*x*/ 1` prints as `return /*x*/\\n1;`, which a conforming ES5 parser reads as `return; 1;` '
          "(calmjs's own parser re-reads it as `return 1` only because of KF-04d)"},
 {'property': 'C13',
  'id': 'KF-04a',
  'class': 'comment next to a line terminator, `)` / header keyword, before `/`, or multi-line comment',
  'witness': {'text': 'a\n/*x*/b'},
  'what': "comments are tokens for the lexer's look-behind (prev_token): a line terminator followed by a comment is "
          'not seen by auto_semi (`a\\n/*x*/b` rejected), a multi-line comment does not count as a line terminator '
          '(`a /*\\n*/ b` rejected)'},
 {'property': 'C13',
  'id': 'KF-04d',
  'class': 'comment directly after return/throw/break/continue',
  'witness': {'text': 'function f(){return /*c*/\n1}'},
  'what': '`return /*c*/\\n1`: the line terminator after the comment does not end the restricted production '
          '(prev_token is the comment): parsed as `return 1`'},
 {'property': 'C13',
  'id': 'KF-05b',
  'class': 'comment or line terminator between `)` / header keyword and what follows',
  'witness': {'text': 'if (a) /*x*/ /re/.test(b)'},
  'what': '`if (a) /*x*/ /re/.test(b)` rejected: with a comment between `)` and `/` the division/regex decision '
          'looks at the wrong token'},
 {'property': 'C13',
  'id': 'KF-13b',
  'class': 'comment attached to the EmptyStatement synthesised for an omitted for(;;) clause',
  'witness': {'text': 'for(/**/;;);'},
  'what': 'a comment before the first `;` of `for(;;)` is attached to the placeholder EmptyStatement of the omitted '
          'condition (setpos on the previous token) and printed before the second `;` (`for (; /**/\\n;) ;`), where '
          'the parser attaches no comments: re-reading the printed text with capture loses the comment'},
 {'property': 'C13',
  'id': 'KF-13c',
  'class': 'comment attached to the CaseBlock of a switch statement',
  'witness': {'text': 'switch(a)/*c*/{}'},
  'what': 'the unparser definition of CaseBlock has no CommentsAttr: a comment before the `{` of a switch body is '
          'attached to the CaseBlock node and silently dropped by every printer (`switch(a)/*c*/{}` prints as '
          '`switch (a) {\\n}`)'},
 {'property': 'C13',
  'id': 'KF-13d',
  'class': 'comment attached to a property assignment (before the `:`)',
  'witness': {'text': '({a/*c*/: 1})'},
  'what': 'a comment before the `:` of `name: value` is attached to the Assign node (anchored at the `:`) and '
          'printed before the property name, where the parser keeps no comments (PropIdentifier / String / Number '
          'keys take none): re-reading the printed text with capture loses the comment'},
 {'property': 'C13',
  'id': 'KF-13e',
  'class': 'comment attached to an operator-anchored node whose first token is a regular expression literal',
  'witness': {'text': '{}/e//*c*/.t()'},
  'what': 'the comment of a DotAccessor/BinOp/… whose left operand starts with a regular-expression literal is '
          'printed before that literal; after `}` `)` `++` `--` the parser first reads `/` as division, back-tracks '
          'in p_error and re-lexes the REGEX token - the comments pending on the discarded DIV token are lost: '
          're-reading `{\\n}\\n/*c*/\\n/e/.t();` with capture loses the comment'}]
