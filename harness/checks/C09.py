"""
C09  Source map decodes to exactly the positions the fragments carried.

Tie (stage S5): the real `calmjs.parse.sourcemap.write` (io.StringIO stream) and the Lean
model `CalmVerif.Model.SourceMap.write` (through `drv_sm`) are run on the same fragment
streams and the canonical rendering of (mappings, sources, names) is compared; the three
character classes the model is parametrised by are compared with the running interpreter
over all code points; the Spec helpers (`genPos`, `lineCount`, base64-VLQ reader) are
compared with independent Python computations.

Judge (always run, on the implementation): the `mappings` string produced by the
implementation (`encode_sourcemap`) is decoded by the Lean *Spec* decoder
(`CalmVerif.Spec.SourceMapV3.decodeString`, `exactAt`, `interp`) and compared with the
positions the fragments carried; generated (line, col) of each fragment are computed
here from the written text (LF / CR / CRLF delimiters).

Streams: (a) real unparser streams (corpus programs x printers x comments on/off,
CRLF variants, several `sourcepath`s chained), (b) synthetic streams.
"""
import io
from itertools import chain
import json
import re

import proto
import corpus

SPEC = dict(
    gen=[],
    props=['CalmVerif.Props.C09', 'CalmVerif.Props.C09C10'],
    drivers=['drv_sm'],
    audit='Audit/C09.lean',
)

NL = re.compile(r'\r\n|\r|\n')


class Client(object):
    """Util/Loop.lean flushes its stdout only on `#flush` (or EOF): every request is followed
    by `#flush` and read up to the `#flushed` marker."""

    def __init__(self, drv):
        self.drv = drv

    def ask(self, line):
        import framework
        assert '\n' not in line
        p = self.drv.p
        p.stdin.write(line + '\n#flush\n')
        p.stdin.flush()
        r = p.stdout.readline()
        if not r or p.stdout.readline().rstrip('\n') != '#flushed':
            raise framework.Infra('driver %s died or lost synchronisation on: %s' % (self.drv.name, line[:200]))
        self.drv.n += 1
        return r.rstrip('\n')


# --------------------------------------------------------------------------
# fragments  <->  wire / json
# --------------------------------------------------------------------------

def frag_tokens(f):
    text, ln, cn, name, src = f
    return [
        proto.enc_str(text),
        'N' if ln is None else str(ln),
        'N' if cn is None else str(cn),
        'N' if name is None else proto.enc_str(name),
        'N' if src is None else ('X' if src is NotImplemented else proto.enc_str(src)),
    ]


def frags_req(frags):
    out = []
    for f in frags:
        out.extend(frag_tokens(f))
    return ' '.join(out)


def frag_json(f):
    text, ln, cn, name, src = f
    return [text, ln, cn, name, {'NotImplemented': True} if src is NotImplemented else src]


def frag_unjson(j):
    text, ln, cn, name, src = j
    return (text, ln, cn, name, NotImplemented if isinstance(src, dict) else src)


def as_tuple(f):
    return (f[0], f[1], f[2], f[3], f[4])


# --------------------------------------------------------------------------
# implementation side
# --------------------------------------------------------------------------

def impl_write(frags, normalize):
    """-> (mappings, sources, names, text) or ('EXC', class name)"""
    from calmjs.parse import sourcemap
    s = io.StringIO()
    try:
        m, srcs, names = sourcemap.write(iter(list(frags)), s, normalize=normalize)
    except Exception as e:      # the model has the outcome EXC
        return ('EXC', type(e).__name__)
    return m, srcs, names, s.getvalue()


def render_mappings(m):
    return 'L%d:%s' % (len(m), ';'.join(
        ','.join('.'.join(str(int(x)) for x in seg) for seg in line) for line in m))


def render_result(r):
    if r[0] == 'EXC':
        return 'EXC'
    m, srcs, names, _ = r
    return 'OK %s | %s | %s' % (
        render_mappings(m), ' '.join(proto.enc_str(s) for s in srcs),
        ' '.join(proto.enc_str(s) for s in names))


def norm_reply(r):
    # "OK a | b | c" with possibly empty b / c : normalise the spacing
    return ' '.join(r.split())


# --------------------------------------------------------------------------
# independent helpers of the judge
# --------------------------------------------------------------------------

def gen_positions(frags):
    """(line, col) zero-based of the first character of every fragment, computed on the
    concatenated text with LF / CR / CRLF as delimiters"""
    text = ''.join(f[0] for f in frags)
    ends = [m.end() for m in NL.finditer(text)]     # offsets just after each delimiter
    starts = [m.start() for m in NL.finditer(text)]
    res = []
    off = 0
    k = 0
    for f in frags:
        while k < len(ends) and ends[k] <= off:
            k += 1
        # delimiters wholly before `off`: k ; a delimiter straddling `off` (CR|LF split) counts
        # as not yet passed: the LF then sits on the old line
        line = k
        last = ends[k - 1] if k else 0
        res.append((line, off - last))
        off += len(f[0])
    return res, text


def py_nosplit(frags):
    prev_cr = False
    for f in frags:
        t = f[0]
        if not t:
            continue
        if prev_cr and t[0] == '\n':
            return False
        prev_cr = t[-1] == '\r'
    return True


def py_wf(frags):
    both = all((f[1] is None) == (f[2] is None) for f in frags)
    prev_cr = False
    ok = True
    for f in frags:
        t = f[0]
        if not t:
            continue
        if prev_cr and t[0] == '\n':
            ok = False
        prev_cr = t[-1] == '\r'
    return both and ok


def explicit(f):
    return bool(f[1]) and bool(f[2]) and f[0] != ''


def expectations(frags):
    """for every explicitly positioned, non-empty fragment:
    (index, gl, gc, expected source or None (= nothing registered yet), line0, col0, name)"""
    pos, text = gen_positions(frags)
    cur = None
    have = False
    out = []
    for i, f in enumerate(frags):
        t, ln, cn, name, src = f
        if t != '' and ln is not None and cn is not None and src is not None:
            cur = 'about:invalid' if src is NotImplemented else src
            have = True
        if explicit(f):
            out.append((i, pos[i][0], pos[i][1], cur if have else None, ln - 1, cn - 1, name))
    return out, text


def parse_entry(tok):
    if tok == '-':
        return None
    return tuple(int(x) for x in tok.split('.'))


def parse_entries(reply):
    assert reply.startswith('OK L'), reply
    head, _, body = reply[4:].partition(':')
    n = int(head)
    lines = body.split(';') if n else []
    assert len(lines) == n, reply
    return [[parse_entry(t) for t in l.split(',')] if l else [] for l in lines]


def judge(ctx, frags, normalize, drv):
    """the property on the implementation; returns list of failure strings (empty = holds)"""
    from calmjs.parse import sourcemap
    r = impl_write(frags, normalize)
    if r[0] == 'EXC':
        return ['write raised %s' % r[1]]
    m, srcs, names, text = r
    if text != ''.join(f[0] for f in frags):
        return ['written text differs from the concatenated fragment texts']
    try:
        sm = sourcemap.encode_sourcemap('out.js', m, srcs, names)
    except Exception as e:      # no source map at all for a stream write() accepted
        return ['encode_sourcemap raised %s: %s' % (type(e).__name__, str(e)[:100])]
    mstr = sm['mappings']
    fails = []
    dec = drv.ask('decode ' + proto.enc_str(mstr))
    if not dec.startswith('OK '):
        return ['spec decoder rejects the mappings string %r: %s' % (mstr, dec)]
    ents = parse_entries(dec)
    nlines = len(NL.split(text))
    if len(ents) != nlines:
        fails.append('mapping lines %d != text lines %d' % (len(ents), nlines))
    for li, line in enumerate(ents):
        prev = None
        for e in line:
            if e[0] < 0 or (prev is not None and e[0] < prev):
                fails.append('generated columns not non-decreasing on line %d: %r' % (li, line))
                break
            prev = e[0]
            if len(e) >= 4:
                if not (0 <= e[1] < len(srcs)):
                    fails.append('source index %d out of range (line %d)' % (e[1], li))
                if e[2] < 0 or e[3] < 0:
                    fails.append('negative source position %r (line %d)' % (e, li))
            if len(e) == 5 and not (0 <= e[4] < len(names)):
                fails.append('name index %d out of range (line %d)' % (e[4], li))
    exps, _ = expectations(frags)
    if exps:
        q = drv.ask('query %s %s' % (proto.enc_str(mstr), ' '.join('%d %d' % (e[1], e[2]) for e in exps)))
        if not q.startswith('OK'):
            return fails + ['query failed: ' + q]
        answers = q.split()[1:]
        assert len(answers) == len(exps), (q, exps)
        for (i, gl, gc, src, l0, c0, name), ans in zip(exps, answers):
            ex, ip = ans.split('/')
            ex, ip = parse_entry(ex), parse_entry(ip)
            what = 'fragment #%d %r written at (%d,%d)' % (i, frag_json(frags[i]), gl, gc)

            def src_ok(sidx):
                if not (0 <= sidx < len(srcs)):
                    return False
                return sidx == 0 if src is None else srcs[sidx] == src
            if not normalize:
                if ex is None or len(ex) < 4:
                    fails.append('%s: no mapped segment at that position (got %r)' % (what, ex))
                    continue
                if (ex[2], ex[3]) != (l0, c0) or not src_ok(ex[1]):
                    fails.append('%s: decodes to source #%d line %d col %d' % (what, ex[1], ex[2], ex[3]))
            else:
                if ip is None:
                    fails.append('%s: position is unmapped after normalisation' % what)
                    continue
                if (ip[1], ip[2]) != (l0, c0) or not src_ok(ip[0]):
                    fails.append('%s: interpolates to source #%d line %d col %d' % (what, ip[0], ip[1], ip[2]))
            if name is not None:
                if ex is None or len(ex) != 5:
                    fails.append('%s: renamed but no 5-field segment exactly there (got %r)' % (what, ex))
                elif not (0 <= ex[4] < len(names)) or names[ex[4]] != name:
                    fails.append('%s: name index %d does not denote %r' % (what, ex[4], name))
            elif not normalize and ex is not None and len(ex) == 5:
                fails.append('%s: not renamed but carries name index %d' % (what, ex[4]))
    return fails


# --------------------------------------------------------------------------
# generators
# --------------------------------------------------------------------------

def printers():
    from calmjs.parse.unparsers.es5 import pretty_printer, minify_printer
    return [
        ('pretty4', lambda: pretty_printer()),
        ('pretty2', lambda: pretty_printer('  ')),
        ('prettytab', lambda: pretty_printer('\t')),
        ('pretty0', lambda: pretty_printer('')),
        ('min', lambda: minify_printer()),
        ('min-dropsemi', lambda: minify_printer(drop_semi=True)),
        ('min-obf', lambda: minify_printer(obfuscate=True)),
        ('min-obf-dropsemi', lambda: minify_printer(obfuscate=True, drop_semi=True)),
        ('min-obf-globals', lambda: minify_printer(obfuscate=True, obfuscate_globals=True)),
    ]


EXTRA_PROGRAMS = [
    "var s = 'a\\\nb\\\nc', t = \"x\\\r\ny\";\nfoo(s, t);",
    "/* multi\n line\r\n comment */\nvar a = 1; // trailing\nfunction f(aaa, bbb) {\n  /* inner\n\n */ return aaa + bbb;\n}",
    "function outer(first, second) {\r\n  var inner = function (third) { return first + second + third; };\r\n  return inner;\r\n}\r\n",
    "{ x; }\n{ y; { z; } }",
    "var longname = 1, other = longname + 1;\nfunction g(longname) { return longname * other; }",
    "a = 'str\\\n\\\n';b = /re/g;\n\n\nc = [1,,2];",
    "/* c1   c2 \x0b c3 */ var v = 'x';",
    "x = function(){ /* a\rb */ return 1 }",
]


def parse_program(text, with_comments):
    from calmjs.parse import es5
    try:
        return es5(text, with_comments=with_comments)
    except Exception:
        return None


def real_streams(ctx, rng, nprog, nmulti):
    """yields (label, frags)"""
    from itertools import chain
    texts = list(corpus.g1_valid())
    rng.shuffle(texts)
    texts = EXTRA_PROGRAMS + texts[:nprog]
    ps = printers()
    trees = []
    for idx, text in enumerate(texts):
        variants = [text]
        if '\n' in text and '\r' not in text:
            variants.append(text.replace('\n', '\r\n'))
        for tv in variants:
            for wc in (False, True):
                tree = parse_program(tv, wc)
                if tree is None:
                    ctx.bump('real:unparsable')
                    continue
                trees.append((tv, wc, tree))
                # all printers for the extra programs, a random pair otherwise
                chosen = ps if idx < len(EXTRA_PROGRAMS) else rng.sample(ps, 2)
                for pname, mk in chosen:
                    sp = rng.choice([None, None, 'src/a.js'])
                    tree.sourcepath = sp
                    try:
                        frags = [as_tuple(f) for f in mk()(tree)]
                    except Exception:
                        ctx.bump('real:unparser-raised')
                        continue
                    finally:
                        tree.sourcepath = None
                    yield ('real/%s/comments=%d' % (pname, wc), frags)
    # several sources chained
    for k in range(nmulti):
        n = rng.choice([2, 2, 3, 4])
        pick = [rng.choice(trees) for _ in range(n)]
        pname, mk = rng.choice(ps)
        streams = []
        names = ['src/f%d.js' % j for j in range(n)]
        if rng.random() < 0.3:
            names[-1] = names[0]          # the same file twice
        if rng.random() < 0.2:
            names[rng.randrange(n)] = None    # one tree without sourcepath (NotImplemented)
        printer = mk()
        ok = True
        for (tv, wc, tree), nm in zip(pick, names):
            tree.sourcepath = nm
            try:
                streams.append([as_tuple(f) for f in printer(tree)])
            except Exception:
                ok = False
            finally:
                tree.sourcepath = None
        if ok:
            yield ('real-multi/%s/n=%d' % (pname, n), list(chain(*streams)))
            MULTI_PARTS.append(streams)


MULTI_PARTS = []     # the per-source streams of the chained scenarios, for the multi-call form of write()


def multi_call_differences(parts):
    """the documented alternative to chaining: successive write() calls sharing Book, Names (sources, names) and mappings
    (normalize off) must give what one call on the chained stream gives; -> None or a description"""
    from calmjs.parse import sourcemap
    s1 = io.StringIO()
    try:
        r1 = sourcemap.write(chain(*[list(p) for p in parts]), s1, normalize=False)
    except Exception as e:
        return None         # the chained call itself is judged elsewhere
    s2 = io.StringIO()
    book, sources, names, mappings = sourcemap.default_book(), sourcemap.Names(), sourcemap.Names(), None
    try:
        for part in parts:
            mappings, so, na = sourcemap.write(iter(list(part)), s2, normalize=False, book=book, sources=sources, names=names,
                                               mappings=mappings)
    except Exception as e:
        return 'successive write() calls raise %s: %s' % (type(e).__name__, e)
    if s1.getvalue() != s2.getvalue():
        return 'successive write() calls write another text than one call on the chained stream'
    if (r1[0], list(r1[1]), list(r1[2])) != (mappings, list(so), list(na)):
        return 'successive write() calls sharing book / sources / names give %r, one chained call gives %r' % (
            (render_mappings(mappings)[:120], list(so), list(na)), (render_mappings(r1[0])[:120], list(r1[1]), list(r1[2])))
    return None


TEXT_ATOMS = ['a', 'bc', 'foo', ' ', '  ', ';', '{', '\n', '\n', '\r\n', '\r', 'x\ny', "'s\\\n t'", '/* c\n d */',
              '\x0b', '\x0c', '\x1c', '\x1d', '\x1e', '\x85', ' ', ' ', 'q r', '\t', 'a \n', 'b\t\r\n',
              'é', '\U0001f600', 'z\r', '\nw', '', '', 'line1\nline2\nline3', '\n\n', '\r\r\n\n', ' 　\n']
NAMES = [None, None, None, 'orig', 'longer_name', 'x', '', 'café']
SOURCES = [None, None, None, NotImplemented, 'a.js', 'b.js', 'dir/c.js', 'about:invalid', '']


def synth_text(rng):
    r = rng.random()
    if r < 0.01:
        return rng.choice('ab ') * rng.randint(1000, 3000)     # a very long generated line: large generated-column deltas
    if r < 0.65:
        return rng.choice(TEXT_ATOMS)
    return ''.join(rng.choice(TEXT_ATOMS) for _ in range(rng.randint(2, 4)))


def synth_stream(rng, wf_only):
    n = rng.choice([1, 2, 3, 4, 5, 6, 8, 12, 20])
    frags = []
    line, col = 1, 1
    for _ in range(n):
        text = synth_text(rng)
        r = rng.random()
        if r < 0.45:
            if rng.random() < 0.7:
                col += rng.randint(0, 6)
            else:
                line += rng.randint(0, 3)
                col = rng.randint(1, 9)
            if rng.random() < 0.1:
                line, col = rng.randint(1, 5), rng.randint(1, 40)
            if rng.random() < 0.08:
                # far jumps forwards and backwards (long lines, later files starting again at line 1): large deltas of both signs
                line = rng.choice([1, 2, rng.randint(1, 70000), rng.randint(1000, 5000)])
                col = rng.choice([1, rng.randint(1, 70000), rng.randint(1000, 5000)])
            ln, cn = line, col
        elif r < 0.7:
            ln, cn = 0, 0
        elif r < 0.9:
            ln, cn = None, None
        elif r < 0.95:
            ln, cn = rng.choice([(0, rng.randint(1, 9)), (rng.randint(1, 9), 0)])
        else:
            ln, cn = rng.choice([(None, rng.randint(0, 3)), (rng.randint(0, 3), None)])
        name = rng.choice(NAMES) if rng.random() < 0.5 else None
        src = rng.choice(SOURCES)
        frags.append((text, ln, cn, name, src))
    if wf_only and not py_wf(frags):
        # repair: drop the both-or-none offenders, separate split CRLF by a space fragment
        out = []
        prev_cr = False
        for f in frags:
            if (f[1] is None) != (f[2] is None):
                f = (f[0], None, None, f[3], f[4])
            if f[0]:
                if prev_cr and f[0][0] == '\n':
                    out.append((' ', None, None, None, None))
                prev_cr = f[0][-1] == '\r'
            out.append(f)
        frags = out
    return frags


# --------------------------------------------------------------------------
# shrinking
# --------------------------------------------------------------------------

def shrink(frags, bad):
    """greedy delta debugging on the fragment list, then on texts; `bad(frags)` is truthy while
    the phenomenon persists"""
    frags = list(frags)
    changed = True
    while changed:
        changed = False
        i = 0
        while i < len(frags):
            cand = frags[:i] + frags[i + 1:]
            if cand and bad(cand):
                frags = cand
                changed = True
            else:
                i += 1
        for i, f in enumerate(frags):
            t = f[0]
            for cut in ([t[:len(t) // 2], t[len(t) // 2:], t[1:], t[:-1]] if len(t) > 1 else []):
                cand = frags[:i] + [(cut,) + tuple(f[1:])] + frags[i + 1:]
                if bad(cand):
                    frags = cand
                    changed = True
                    break
    return frags


# --------------------------------------------------------------------------
# the check
# --------------------------------------------------------------------------

def tie_one(drv, frags, normalize):
    a = norm_reply(render_result(impl_write(frags, normalize)))
    b = norm_reply(drv.ask('write %d %s' % (1 if normalize else 0, frags_req(frags))))
    return a == b, a, b


def classes_tie(ctx, drv):
    import sys
    r = drv.ask('classes')
    parts = dict(p.split(':', 1) for p in r.split()[1:])
    got = {k: sorted(int(x, 16) for x in v.split(',') if x) for k, v in parts.items()}
    cps = [c for c in range(sys.maxunicode + 1) if not (0xD800 <= c <= 0xDFFF)]
    brk = []
    ws = []
    nl = []
    for c in cps:
        ch = chr(c)
        if len(('a' + ch + 'b').splitlines(True)) == 2:
            brk.append(c)
        if ('a' + ch).rstrip() == 'a':
            ws.append(c)
        if ch[-1:] in '\r\n':
            nl.append(c)
    ok = got.get('brk') == brk and got.get('ws') == ws and got.get('nl') == nl
    ctx.obligation('tie:char-classes(splitlines, in "\\r\\n", rstrip) over all code points', ok, 'tie',
                   '' if ok else 'model %r vs interpreter %r' % (got, dict(brk=brk, ws=ws, nl=nl)))
    # CRLF is one break, CR alone and LF CR are separate breaks
    ok2 = 'a\r\nb\n\rc\r'.splitlines(True) == ['a\r\n', 'b\n', '\r', 'c\r']
    ctx.obligation('tie:splitlines-crlf-convention', ok2, 'tie')


def parts_tie(ctx, drv):
    """direct tie of `Names.update` and of the `Bookkeeper` attribute protocol (stage by stage)"""
    from calmjs.parse import sourcemap
    rng = ctx.sub_rng('parts')
    bad = None
    for _ in range(ctx.n(300, 3000)):
        seq = [rng.choice([None, 'a', 'b', 'c', 'dd', '', 'é']) for _ in range(rng.randint(0, 12))]
        n = sourcemap.Names()
        out = []
        for x in seq:
            r = n.update(x)
            out.append('N' if r is None else str(r))
        want = ' '.join(('OK ' + ' '.join(out) + ' | ' + ' '.join(proto.enc_str(k) for k in n)).split())
        got = ' '.join(drv.ask('names ' + ' '.join('N' if x is None else proto.enc_str(x) for x in seq)).split())
        ctx.case(('names', tuple(seq)), nontrivial=bool(seq))
        if got != want:
            bad = ('names', seq, got, want)
            break
    ctx.obligation('tie:Names.update = Model Names.update', bad is None, 'tie', bad or '')
    bad = None
    for _ in range(ctx.n(300, 3000)):
        init = rng.randint(-5, 50)
        ops = [(rng.choice('sr'), rng.randint(-20, 200)) for _ in range(rng.randint(0, 10))]
        bk = sourcemap.Bookkeeper()
        bk.x = init
        out = []
        for k, v in ops:
            if k == 's':
                bk.x = v
            else:
                bk._x = v
            out.append('%d.%d' % (bk.x, bk._x))
        want = ' '.join(('OK ' + ' '.join(out)).split())
        got = ' '.join(drv.ask('cell %d %s' % (init, ' '.join('%s%d' % o for o in ops))).split())
        ctx.case(('cell', init, tuple(ops)), nontrivial=bool(ops))
        if got != want:
            bad = ('cell', init, ops, got, want)
            break
    ctx.obligation('tie:Bookkeeper set/_set/get/_get = Model Cell', bad is None, 'tie', bad or '')
    # default_book(): the three attributes exist with the values the model starts from
    b = sourcemap.default_book()
    k = b.keeper
    ok = (k._sink_column, k.sink_column, k._source_line, k.source_line, k._source_column, k.source_column,
          b.written_len, b.original_len) == (0, 0, 1, 0, 1, 0, 0, 0)
    ctx.obligation('tie:default_book = Model defaultBook', ok, 'tie')


def run(ctx):
    import logging
    logging.getLogger('calmjs.parse.sourcemap').setLevel(logging.CRITICAL)
    drv = Client(ctx.driver('drv_sm'))
    ctx.rule('a case = (fragment stream, normalize flag); non-trivial = at least one non-empty fragment')
    ctx.trusted.extend([
        'Lean 4.33 kernel; axioms propext, Quot.sound, Classical.choice only',
        'Spec.SourceMapV3 as a faithful reading of the Source Map V3 document',
        'columns are counted in code points (Python str indices) on both sides',
        'CPython str.splitlines / str.rstrip beyond the per-code-point classes and the CRLF convention (tie only)',
    ])
    ctx.assumptions.append(
        'theorems are stated on the raw mappings (before encode_mappings); composition with the VLQ '
        'string codec is C10 (write_WFMappings supplies its hypothesis)')
    classes_tie(ctx, drv)
    parts_tie(ctx, drv)

    tie_diffs = []
    judge_fails = []
    n_judged = [0]
    helper_bad = []

    def one(label, frags, must_hold):
        wf = py_wf(frags)
        nosplit = py_nosplit(frags)
        for normalize in (False, True):
            key = (tuple((f[0], f[1], f[2], f[3], 'NI' if f[4] is NotImplemented else f[4]) for f in frags), normalize)
            ctx.case(key, nontrivial=any(f[0] for f in frags))
            ok, a, b = tie_one(drv, frags, normalize)
            if not ok:
                tie_diffs.append((label, frags, normalize, a, b))
            if nosplit or must_hold:
                n_judged[0] += 1
                fl = judge(ctx, frags, normalize, drv)
                if fl:
                    judge_fails.append((label, frags, normalize, fl))
        ctx.bump('stream:' + label.split('/')[0])
        ctx.bump('wf:%s' % wf)
        ctx.bump('nosplit:%s' % nosplit)
        for f in frags:
            kind = ('explicit' if (f[1] and f[2]) else 'inferred' if (f[1] == 0 and f[2] == 0)
                    else 'unmapped' if (f[1] is None and f[2] is None) else 'mixed')
            ctx.bump('frag:' + kind)
            if f[3] is not None:
                ctx.bump('frag:renamed')
            if NL.search(f[0]) and f[0] not in ('\n', '\r\n', '\r'):
                ctx.bump('frag:multi-line-text')
        # helpers of the spec vs python
        lw = drv.ask('wf ' + frags_req(frags))
        if lw != 'OK %d %d' % (1 if wf else 0, 1 if nosplit else 0):
            helper_bad.append(('wf', frag_list_json(frags), lw, wf))
        if nosplit:
            pos, text = gen_positions(frags)
            gp = drv.ask('genpos ' + ' '.join(proto.enc_str(f[0]) for f in frags))
            want = 'OK ' + ' '.join('%d.%d' % p for p in pos)
            if ' '.join(gp.split()) != ' '.join(want.split()):
                helper_bad.append(('genpos', frag_list_json(frags), gp, want))
            lc = drv.ask('linecount ' + proto.enc_str(text))
            if lc != 'OK %d' % len(NL.split(text)):
                helper_bad.append(('linecount', text, lc))

    # the hypotheses of the theorems are necessary on the implementation too (Props/C09.lean examples)
    split_crlf = [('a\r', None, None, None, None), ('\n', None, None, None, None), ('b', 1, 1, None, None)]
    empty_text = [('', 1, 1, None, None)]
    w1 = judge(ctx, split_crlf, False, drv)
    w2 = ['explicitly positioned empty text emits no segment'] if impl_write(empty_text, False)[0] == [[]] else []
    ctx.note('hypothesis witnesses on the implementation: split CRLF -> %s ; empty explicit text -> %s' % (
        w1[:2] or 'property holds', w2[:1] or 'property holds'))
    ctx.obligation('hypotheses NoSplitCRLF / non-empty text are needed on the implementation as in the model', bool(w1) and bool(w2), 'tie',
                   'judge on the two witnesses of Props/C09.lean: %r / %r' % (w1[:2], w2[:1]))
    tie_one_ok = [tie_one(drv, w, nz)[0] for w in (split_crlf, empty_text) for nz in (False, True)]
    ctx.obligation('tie:S5 on the hypothesis witnesses', all(tie_one_ok), 'tie')

    # corpus of past disagreements first
    for e in corpus.extra('C09'):
        one('corpus', [frag_unjson(j) for j in e['frags']], False)

    rng = ctx.sub_rng('real')
    nreal = 0
    nosplit_real = True
    for label, frags in real_streams(ctx, rng, ctx.n(60, 392), ctx.n(40, 400)):
        nreal += 1
        if not py_wf(frags):
            nosplit_real = False
            ctx.note('real unparser stream is not WFStream: %s' % label)
        one(label, frags, True)
        if nreal <= 3:
            ctx.sample(dict(kind=label, frags=frag_list_json(frags)[:12]))
    ctx.obligation('real unparser streams are WFStream (both-or-none, no split CRLF): %d streams' % nreal,
                   nosplit_real, 'tie')

    # the multi-call form of write() on the chained scenarios (obfuscating printers rename differently per source)
    mc_bad = None
    for parts in MULTI_PARTS:
        ctx.case(('multi-call', len(parts), sum(len(p) for p in parts)))
        d = multi_call_differences(parts)
        if d:
            mc_bad = (d, [frag_list_json(list(p))[:8] for p in parts])
            break
    ctx.bump('multi-call-scenarios', len(MULTI_PARTS))
    if mc_bad:
        ctx.violation('C09: ' + mc_bad[0], dict(kind='multi-call', parts=mc_bad[1]), True)

    rng = ctx.sub_rng('synthetic')
    for k in range(ctx.n(1500, 30000)):
        frags = synth_stream(rng, wf_only=(k % 4 != 0))
        one('synthetic', frags, False)
        if k < 4:
            ctx.sample(dict(kind='synthetic', frags=frag_list_json(frags)))

    # the spec's own VLQ reader against the implementation's raw mappings (sanity of the Spec string reader)
    rng = ctx.sub_rng('rel')
    from calmjs.parse import sourcemap
    rel_bad = None
    for k in range(ctx.n(150, 1500)):
        frags = synth_stream(rng, wf_only=True)
        r = impl_write(frags, bool(k % 2))
        try:
            mstr = sourcemap.encode_sourcemap('o', r[0], r[1], r[2])['mappings']
        except Exception as e:
            rel_bad = (frag_list_json(frags), 'encode_sourcemap raised %s' % type(e).__name__)
            break
        got = drv.ask('rel ' + proto.enc_str(mstr))
        if got != 'OK ' + render_mappings(r[0]):
            rel_bad = (frag_list_json(frags), mstr, got, render_mappings(r[0]))
            break
    ctx.obligation('tie:spec-vlq-reader(encode_sourcemap string) = raw mappings', rel_bad is None, 'tie', rel_bad or '')
    ctx.obligation('tie:spec-helpers(genPos, lineCount, wfStream) = python', not helper_bad, 'tie', helper_bad[:3])

    # ---- verdict ----------------------------------------------------------
    reported = 0
    for label, frags, normalize, fl in judge_fails[:3]:
        small = shrink(frags, lambda fr: (py_nosplit(fr) or label.startswith('real')) and judge(ctx, fr, normalize, drv))
        fl2 = judge(ctx, small, normalize, drv) or fl
        ctx.violation('C09 fails on %s stream (normalize=%s): %s' % (label, normalize, fl2[0]),
                      dict(kind='judge', frags=frag_list_json(small), normalize=normalize, failures=fl2[:5],
                           original_label=label), True)
        reported += 1
    ctx.obligation('judge: property holds on the implementation for %d (stream, normalize) cases' % n_judged[0],
                   not judge_fails, 'judge', '%d failing' % len(judge_fails))

    if tie_diffs:
        label, frags, normalize, a, b = tie_diffs[0]
        small = shrink(frags, lambda fr: not tie_one(drv, fr, normalize)[0])
        _, a, b = tie_one(drv, small, normalize)
        # deeper search around the difference: the judge on the shrunk case and on streams built around it
        found = None
        rng = ctx.sub_rng('search')
        cands = [small, frags]
        for _ in range(ctx.n(300, 3000)):
            pre = synth_stream(rng, True)[:rng.randint(0, 3)]
            post = synth_stream(rng, True)[:rng.randint(0, 3)]
            cands.append(pre + list(small) + post)
        for c in cands:
            if not py_nosplit(c):
                continue
            for nz in (normalize, not normalize):
                fl = judge(ctx, c, nz, drv)
                if fl:
                    found = (c, nz, fl)
                    break
            if found:
                break
        if found and not reported:
            c, nz, fl = found
            c = shrink(c, lambda fr: py_nosplit(fr) and judge(ctx, fr, nz, drv))
            ctx.violation('C09 fails (found from a model/implementation difference), normalize=%s: %s' % (
                nz, (judge(ctx, c, nz, drv) or fl)[0]),
                dict(kind='judge', frags=frag_list_json(c), normalize=nz, failures=fl[:5]), True)
        ctx.obligation('tie:S5 sourcemap.write = Model.SourceMap.write', False, 'tie',
                       dict(n_differences=len(tie_diffs), frags=frag_list_json(small), normalize=normalize,
                            implementation=a, model=b))
    else:
        ctx.obligation('tie:S5 sourcemap.write = Model.SourceMap.write', True, 'tie',
                       '%d evaluations' % ctx.evaluations)


def frag_list_json(frags):
    return [frag_json(f) for f in frags]


def replay(ctx, path):
    data = json.load(open(path))
    rp = data.get('replay', data)
    if 'frags' not in rp:
        print('replay file names broken obligations only: %s' % json.dumps(rp)[:2000])
        return 1
    frags = [frag_unjson(j) for j in rp['frags']]
    normalize = bool(rp.get('normalize', False))
    import framework
    try:
        drv = Client(ctx.driver('drv_sm'))
    except framework.Infra:
        framework.lake_build(['drv_sm'])
        drv = Client(ctx.driver('drv_sm'))
    r = impl_write(frags, normalize)
    print('fragments      :', frag_list_json(frags))
    print('normalize      :', normalize)
    print('implementation :', render_result(r))
    print('model          :', drv.ask('write %d %s' % (1 if normalize else 0, frags_req(frags))))
    print('WFStream       :', py_wf(frags), ' NoSplitCRLF:', py_nosplit(frags))
    fl = judge(ctx, frags, normalize, drv)
    for f in fl:
        print('judge FAIL     :', f)
    if not fl:
        print('judge          : property holds on this case')
    ok, _, _ = tie_one(drv, frags, normalize)
    print('tie            :', 'equal' if ok else 'DIFFERENT')
    return 1 if (fl or not ok) else 0
