"""
C11  Every AST node position is self-consistent and lies on its own token.

proof   Props/C11: kernel decision over the regenerated action table x grammar that every node anchor is the first
        token (or the operator for the listed forms), placeholders excepted, and every token-map entry records its
        text at its own position (actions_anchor_ok, actions_cover_grammar).
        Props/C11comp: the lifting to ALL runs of the parser model (tracking_invariant, node_anchor_ok,
        tokmap_entries_ok, elision_runs_ok, node_positions_summary, parse_configs_reachable): every node built by any
        reduce call of any reachable configuration is anchored at a shifted token of its own yield / records texts at
        tokens carrying them; token-level hypotheses TokOK / SpellingOK are C06's conclusions (stated, not re-proved
        for the parser-driven lexer).
tie     S2b: ply driver + p_* actions + setpos  vs  Model.LR + Model.Actions(Gen.Actions) on recorded token traces:
        trees with positions, token maps and comments must be identical.
judge   directly on the implementation's trees, with an independent ES5 line counter: self-consistency of
        (offset, line, column); anchor = leftmost token of the node or its operator; token-map entries name their text.
"""
import json
import re

import proto
import treedump
from parts import parsetie, texts as T

SPEC = dict(gen=['tables', 'actions', 'lexdata'], props=['CalmVerif.Props.C11', 'CalmVerif.Props.C11comp', 'CalmVerif.Props.C11tok'], drivers=['drv_parse'],
            audit='Audit/C11.lean')

OPERATOR_FORMS = {'BinOp': 'op', 'Assign': 'op', 'PostfixExpr': 'op', 'Conditional': '?', 'Comma': ',',
                  'DotAccessor': '.', 'BracketAccessor': '[', 'Label': ':'}
FIRST_TEXT = {'VarStatement': 'var', 'If': 'if', 'For': 'for', 'ForIn': 'for', 'While': 'while', 'DoWhile': 'do',
              'FuncDecl': 'function', 'FuncExpr': 'function', 'Block': '{', 'Object': '{', 'Array': '[', 'GroupingOp': '(',
              'NewExpr': 'new', 'This': 'this', 'Return': 'return', 'Break': 'break', 'Continue': 'continue',
              'Throw': 'throw', 'Try': 'try', 'Catch': 'catch', 'Finally': 'finally', 'Switch': 'switch', 'Case': 'case',
              'Default': 'default', 'With': 'with', 'Debugger': 'debugger', 'CaseBlock': '{', 'Arguments': '(',
              'GetPropAssign': 'get', 'SetPropAssign': 'set', 'EmptyStatement': ';', 'VarDeclNoIn': 'var', 'Elision': ','}


_LAYOUT = re.compile(r'(?:\(|\s|[\u2028\u2029\ufeff]|/\*.*?\*/|//[^\n\r\u2028\u2029]*)*', re.S)


def parens_only(text, a, b):
    """text[a:b] consists of `(` and layout only: nested parentheses collapse into the innermost GroupingOp, so the
    outer `(` tokens belong to the extent of the node although no child records them"""
    return a <= b and _LAYOUT.fullmatch(text[a:b]) is not None


def judge_tree(text, tree, auto=()):
    """returns list of complaint strings (with a structural class prefix)"""
    from calmjs.parse import asttypes as A
    starts = T.es5_lines(text)
    bad = []
    placeholders = set()
    for_clauses = set()

    def walk(n):
        yield n
        for k, v in vars(n).items():
            if k == 'comments' and v is not None:
                for x in walk(v):
                    yield x
            if k.startswith('_') and k != '_children_list':
                continue
            vs = v if isinstance(v, list) else [v]
            for x in vs:
                if isinstance(x, A.Node):
                    for y in walk(x):
                        yield y

    def leftmost(n):
        """offset of the first token of the node's source extent, computed from token maps and children"""
        kind = type(n).__name__
        cands = []
        for key, plist in (getattr(n, '_token_map', None) or {}).items():
            if id(n) in for_clauses and not (key == 'var' and kind in ('VarStatement', 'VarDeclNoIn')):
                # the wrappers of for(;;) clauses record the tokens of the whole `for` production (they are places
                # where the text occurs, which is all C11 asks of token maps); only `var` is the wrapper's own token
                continue
            for (lp, ln, col) in plist:
                if (ln, col) != (0, 0) and not (key == ';' and (col == 0 or lp in auto)):
                    cands.append(lp)
        for k, v in vars(n).items():
            if k.startswith('_') and k != '_children_list':
                continue
            if k == 'comments':
                continue
            vs = v if isinstance(v, list) else [v]
            for x in vs:
                if isinstance(x, A.Node) and id(x) not in placeholders:
                    cands.append(leftmost(x))
        if not cands:
            return n.lexpos
        return min(cands)

    for n in walk(tree):
        if isinstance(n, A.ForIn) and isinstance(n.item, A.VarDeclNoIn):
            for_clauses.add(id(n.item))
        if isinstance(n, A.For):
            for c in (n.init, n.cond):
                for_clauses.add(id(c))
                if isinstance(c, A.EmptyStatement):
                    placeholders.add(id(c))
    for n in walk(tree):
        kind = type(n).__name__
        if n.lexpos is None:
            bad.append('unset-position:%s' % kind)
            continue
        # (a) self-consistency
        if kind == 'ES5Program' and (not text.strip() or not n.children()):
            pass      # the empty program (no token at all: blank text or comments only) has no token to lie on
        elif id(n) in placeholders:
            pass
        else:
            if not (0 <= n.lexpos <= len(text)):
                bad.append('offset-out-of-range:%s@%s' % (kind, n.lexpos))
                continue
            lc = T.line_col(text, n.lexpos, starts)
            if (n.lineno, n.colno) != lc:
                bad.append('inconsistent-position:%s offset %d is %d:%d but node says %s:%s' % (
                    kind, n.lexpos, lc[0], lc[1], n.lineno, n.colno))
        # (b) anchor
        if id(n) in placeholders or kind in ('Comments',):
            pass
        elif kind in OPERATOR_FORMS:
            op = OPERATOR_FORMS[kind]
            op = getattr(n, op) if op in ('op',) else op
            if not text.startswith(op, n.lexpos):
                bad.append('anchor-not-operator:%s %r at %d' % (kind, op, n.lexpos))
        elif kind in ('LineComment', 'BlockComment', 'Identifier', 'PropIdentifier', 'Number', 'String', 'Regex',
                      'Boolean', 'Null'):
            if not text.startswith(n.value, n.lexpos):
                bad.append('anchor-not-own-text:%s %r at %d' % (kind, n.value[:20], n.lexpos))
        elif kind == 'ES5Program':
            if text.strip() and n.lexpos != leftmost(n) and not parens_only(text, n.lexpos, leftmost(n)):
                bad.append('anchor-not-first-token:%s %d != %d' % (kind, n.lexpos, leftmost(n)))
        else:
            lm = leftmost(n)
            if n.lexpos != lm and not parens_only(text, n.lexpos, lm):
                bad.append('anchor-not-first-token:%s %d != %d' % (kind, n.lexpos, lm))
            if kind in FIRST_TEXT and not text.startswith(FIRST_TEXT[kind], n.lexpos):
                bad.append('anchor-text:%s expects %r at %d' % (kind, FIRST_TEXT[kind], n.lexpos))
        # (c) token map entries
        for key, plist in (getattr(n, '_token_map', None) or {}).items():
            for (lp, ln, col) in plist:
                if (ln, col) == (0, 0) or (key == ';' and (col == 0 or (lp in auto and text[lp:lp + 1] != ';'))):
                    continue     # semicolons supplied by ASI have no source counterpart
                if id(n) in placeholders:
                    continue
                if kind == 'Elision' and set(key) == {','}:
                    # the comma run of an elision is recorded where its first comma occurs
                    if text[lp:lp + 1] != ',':
                        bad.append('tokmap-text:%s records %r at %d' % (kind, key, lp))
                    continue
                if not text.startswith(key, lp):
                    bad.append('tokmap-text:%s records %r at %d' % (kind, key, lp))
                elif (ln, col) != T.line_col(text, lp, starts):
                    bad.append('tokmap-position:%s %r at %d says %s:%s' % (kind, key, lp, ln, col))
    return bad


def parse_recording_asi(text, with_comments):
    """parse with the real parser, recording the offsets given to automatically inserted semicolons"""
    from calmjs.parse.parsers.es5 import Parser
    p = Parser(with_comments=with_comments)
    auto = set()
    orig = p.lexer._create_semi_token

    def rec(tok):
        t = orig(tok)
        auto.add(t.lexpos)
        return t
    p.lexer._create_semi_token = rec
    return p.parse(text), auto


def classify(ctx, text, complaint):
    """structural classification of a complaint as a known finding"""
    ids = {e['id'] for e in ctx.known_findings}
    if 'KF-06a' in ids and ('inconsistent-position' in complaint or 'tokmap-position' in complaint) and (
            '\u2028' in text or '\u2029' in text):
        return 'KF-06a'
    return None


def run(ctx):
    from calmjs.parse.parsers.es5 import parse
    ctx.rule('programs from the repo manifests (G1) and the grammar-directed generator with random layout (G2: multi-line '
             'tokens, mixed line terminators, comments); every node of every tree is judged; non-trivial = more than 3 '
             'characters; distinct by text and comment flag')
    ctx.trusted += ['Lean 4.33 kernel (decide +kernel over regenerated Gen.Actions x Gen.Tables)',
                    'translator g_actions.py (action probing of the real p_* functions on mock productions)',
                    'ply tracking semantics as modelled in Model/LR.lean + Model/Actions.lean (tied by S2b)']
    ctx.assumptions += ['token positions themselves are C06\'s subject; this check consumes the real lexer\'s tokens']
    import genjs
    layouts = [genjs.Layout('spaced'), genjs.Layout('min'), genjs.Layout('wild', unicode_terms=True),
               genjs.Layout('wild', drop_semi=0.6, unicode_terms=True),
               genjs.Layout('wild', comments=0.2, unicode_terms=True), genjs.Layout('spaced', drop_semi=1.0)]
    texts = T.valid_texts(ctx, ctx.n(120, 392), ctx.n(150, 1500), extra_corpus='C11', layouts=layouts)
    # multi-line tokens whose only line terminators are U+2028 / U+2029 / CR
    for lt in ('\u2028', '\u2029', '\r', '\r\n', '\n'):
        texts += ['/* a%s b */ x = 1;' % lt, "s = 'a\\%sb'; y = s;" % lt, 'a%sb = c' % lt, 'f(/*%s*/ 1,%s 2)' % (lt, lt)]
    # format-control and white-space characters at the very start of the source (BOM, NBSP, ZWNBSP runs) and form feeds /
    # vertical tabs inside multi-line tokens: offsets and columns are those of the text as passed in
    rng0 = ctx.sub_rng('prefix')
    for t in rng0.sample(texts, min(len(texts), ctx.n(40, 300))):
        texts.append(rng0.choice(['\ufeff', '\ufeff\ufeff', '\xa0', '\ufeff\n', ' \ufeff ', '\t\x0b\x0c']) + t)
    for ch in ('\x0b', '\x0c', '\x1c', '\x1d', '\x1e', '\x85', '\xa0', '\u2003'):
        texts += ['/* a%sb */ x = 1;\ny = 2;' % ch, "s = 'a%sb'; y = s;\nz = 1;" % ch, '// c%sd\nw = 1;\nv = 2;' % ch]
    # the lexer accepts raw line terminators inside a regular-expression literal (finding KF-03f): such a token spans lines
    # like a block comment does, and everything after it must still be counted right (direct and back-tracked lexing paths)
    for lt in ('\n', '\r', '\r\n', '\u2028', '\u2029'):
        texts += ['x = /[%s]/g;\ny = 2; z = 3;' % lt, 'x = /a%sb/; z;\nw;' % lt, '{}\n/a%sb/.test(c);\nq;' % lt,
                  'a++\n/%s/.exec(b); r;' % lt]
    # S2b tie
    if getattr(ctx, 'drivers_ok', True):
        parsetie.parse_tie(ctx, texts[:ctx.n(150, 1200)])
    # judge
    nnodes = 0
    for text in texts:
        for wc in (False, True):
            try:
                tree, auto = parse_recording_asi(text, wc)
            except Exception:
                continue
            bad = judge_tree(text, tree, auto)
            ctx.case(('judge', wc, text), nontrivial=len(text) > 3)
            for b in bad:
                kf = classify(ctx, text, b)
                if kf:
                    ctx.known(kf, 'position wrong after a U+2028/U+2029 that the lexer treats as white space')
                else:
                    ctx.violation('node position rule violated: ' + b, dict(text=text, with_comments=wc, complaints=bad[:5]))
                    return
    # the module-level parse() called for several texts in a row in this process (with rejected texts and texts ending in a
    # comment in between): every tree is judged against ITS OWN text - a node or comment carried over from an earlier text
    # does not lie on a token of this one
    seq = ['a = 1; // trailing remark of the first file', 'foo + 1;', 'x = /* open', 'b;', '/* c */ d; /* e */', 'e;\n// last\n',
           'f;', 'g(', 'h = [1, 2];', '// only a comment', 'i;', 'var j = 1 /* k */', 'l;']
    for wc in (True, False, True):
        for text in seq:
            try:
                tree = parse(text, with_comments=wc)
            except Exception:
                continue
            bad = judge_tree(text, tree, range(len(text) + 1))
            ctx.case(('sequence', wc, text), nontrivial=True)
            ctx.bump('judge:module-level parse() sequence')
            if bad:
                ctx.violation('node position rule violated (module-level parse() called for several texts in a row): ' + bad[0],
                              dict(scenario='parse() sequence', sequence=seq[:seq.index(text) + 1], text=text, with_comments=wc,
                                   complaints=bad[:5]))
                return
    ctx.sample(dict(text=texts[0][:160], judged='all nodes: consistency, anchor, token map'))


def replay(ctx, path):
    from calmjs.parse.parsers.es5 import parse
    d = json.load(open(path))['replay']
    tree, auto = parse_recording_asi(d['text'], d.get('with_comments', False))
    bad = judge_tree(d['text'], tree, auto)
    print('complaints:', bad)
    return 1 if bad else 0
