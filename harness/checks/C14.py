"""
C14  Unparsing is pure: tree unchanged, printers reusable, shortcuts agree.

proof      Props/C14: `per_call_objects_fresh` / `persistent_state_readonly` (decide over the regenerated
           partition table Gen.Api), `print_history_independent` (frame/locality theorem over a heap of
           printer objects, trees and generators, for every engine and every interleaved history),
           `shared_state_hazard`, `shortcuts_agree`.
tie = judge (stage S11; the two coincide: the model's only claim about the implementation IS history
           independence)
           random histories over a pool of printer OBJECTS of every configuration and a pool of trees
           (corpus programs, generated programs, with/without comments, several sourcepaths, trees whose
           printing raises): calls consumed to the end, abandoned after k fragments and dropped,
           kept alive and resumed later (interleaved generators), raising.  Every observation
           (fragment 5-tuple / StopIteration / exception class+message) is compared with the one at the
           same index of a brand-new printer object on a freshly built copy of the tree; around every
           operation the trees (treedump with positions/token maps/comments/sourcepath AND a deep
           structural hash including private attributes), the printer objects and all module-level
           state (definitions, ElisionJoinAttr.sep, rule closures, handlers.core, …) are snapshotted.
shortcuts  str(node) of roots and inner nodes; es5(text); es5.pretty_print / es5.minify_print of the helper object with every
           keyword variant it accepts, against explicit parse-then-print through rule sets built by hand.
selftest   the judge must flag a printer whose rule shares one Indentator between calls.

A difference on the real code is a failing history: it is minimised (ddmin over the operations) and
reported as VIOLATION with the history as replay.
"""
import json

import corpus
import genjs
import proto
import shrink
import treedump
from gen import g_api

SPEC = dict(gen=['api'], props=['CalmVerif.Props.C14'], drivers=[], audit='Audit/C14.lean')

FIXED_TEXTS = [
    'function f(a, b) { var c = [1,,a,,]; try { if (a) { return b; } } catch (e) { throw e; } '
    'for (var i = 0; i < 3; i++) { c = {x: i, get y() { return 1; }, set y(v) { c = v; }}; } '
    'return function g(d) { return d + c; }; }\nvar z = f(1, 2);\n',
    '/* lead */ var a = 1; // trail\nfunction g(x) { /* in */ return x /* mid */ + a; }\n',
    'switch (a) { case 1: { b; } break; default: c = function () { var d; d = a; }; }',
    'a;',
    '',
    'x = [,,];\nwith (y) { z; }\nl: while (1) { continue l; }',
]


# ---------------------------------------------------------------------------
# trees (a tree SPEC is data, so a fresh copy can be built at will)
# ---------------------------------------------------------------------------

def _nodes(node):
    return g_api._all_nodes(node)


def build_tree(spec):
    """
    spec: ['parse', text, wc] | ['multi', [texts], wc] | ['corrupt', kind, text, wc]
    """
    from calmjs.parse.parsers import es5 as p
    kind = spec[0]
    if kind == 'parse':
        return p.parse(spec[1], with_comments=bool(spec[2]))
    if kind == 'multi':
        texts, wc = spec[1], bool(spec[2])
        root = p.parse(texts[0], with_comments=wc)
        root.sourcepath = 'src0.js'
        for i, t in enumerate(texts[1:], 1):
            other = p.parse(t, with_comments=wc)
            for child in other.children():
                child.sourcepath = 'src%d.js' % i
                root._children_list.append(child)
        return root
    if kind == 'corrupt':
        how, text, wc = spec[1], spec[2], bool(spec[3])
        tree = p.parse(text, with_comments=wc)
        nodes = _nodes(tree)
        if how == 'decl-nonident':
            # Declare expects an Identifier: raises TypeError under obfuscating printers only
            vds = [n for n in nodes if type(n).__name__ in ('VarDecl', 'VarDeclNoIn')]
            if vds:
                vds[-1].identifier = p.asttypes.String('"s"')
        elif how == 'missing-attr':
            # AttributeError under every printer, after some fragments
            for n in reversed(nodes):
                cn = type(n).__name__
                if cn == 'BinOp':
                    del n.right
                    break
                if cn == 'If':
                    del n.predicate
                    break
                if cn == 'ExprStatement':
                    del n.expr
                    break
        elif how == 'resolve-nonident':
            # an Identifier subclass check in Resolve: a String in a position printed through Resolve
            for n in nodes:
                if type(n).__name__ == 'FuncDecl' or type(n).__name__ == 'FuncExpr':
                    if n.parameters:
                        n.parameters[0] = p.asttypes.Number('1')
                        break
        else:
            raise ValueError(how)
        return tree
    raise ValueError(spec)


def tree_snapshot(tree):
    try:
        dumped = proto.render(treedump.dump(tree, pos=True, tokmap=True, comments=True))
    except Exception as e:     # a corrupted tree the dumper cannot express: the deep hash below still covers it
        dumped = 'undumpable:%s' % type(e).__name__
    return dumped, getattr(tree, 'sourcepath', None), g_api.dhash(tree)


def module_objects():
    from calmjs.parse import ruletypes, rules, asttypes, factory
    from calmjs.parse.unparsers import es5 as u, walker, base
    from calmjs.parse.handlers import core, indentation, obfuscation
    from calmjs.parse.parsers import es5 as p
    return [
        ('unparsers.es5', g_api.module_state(u)),
        ('unparsers.walker', g_api.module_state(walker)),
        ('unparsers.base', g_api.module_state(base)),
        ('ruletypes', g_api.module_state(ruletypes)),
        ('ruletypes.ElisionJoinAttr.sep', ruletypes.ElisionJoinAttr.sep),
        ('rules', g_api.module_state(rules)),
        ('handlers.core', g_api.module_state(core)),
        ('handlers.indentation', g_api.module_state(indentation)),
        ('handlers.obfuscation', g_api.module_state(obfuscation)),
        ('asttypes', g_api.module_state(asttypes)),
        ('factory', g_api.module_state(factory)),
        ('parsers.es5.asttypes', p.asttypes.classes),
    ]


def module_snapshot():
    return [(n, g_api.dhash(o)) for n, o in module_objects()]


# ---------------------------------------------------------------------------
# worlds, references, histories
# ---------------------------------------------------------------------------

_CONFIGS = None


def configs():
    global _CONFIGS
    if _CONFIGS is None:
        _CONFIGS = dict(g_api.printer_configs())
    return _CONFIGS


def make_printer(name):
    if name == 'SELFTEST:shared-indentator':
        return shared_indentator_printer()
    return configs()[name]()


def shared_indentator_printer():
    """a printer built through the public API whose rule does what a hoisting mutation of rules.indent would do"""
    from calmjs.parse import rules
    from calmjs.parse.unparsers import es5 as u
    table = rules.indent('  ')()            # ONE Indentator, captured
    return u.Unparser(rules=(lambda: table,))


def observe(g):
    try:
        f = next(g)
    except StopIteration:
        return ['stop']
    except Exception as e:
        return ['raised', type(e).__name__, str(e)]
    return ['frag', list(f)]


class Reference(object):
    """observations of a brand-new printer object on a freshly built tree, computed once per (config, tree spec)"""

    def __init__(self):
        self.cache = {}

    def get(self, pname, tspec):
        key = (pname, json.dumps(tspec))
        if key not in self.cache:
            if pname.startswith('SELFTEST'):
                # what the self-test printer would be without the sharing
                from calmjs.parse import rules
                from calmjs.parse.unparsers import es5 as u
                printer = u.Unparser(rules=(rules.indent('  '),))
            else:
                printer = make_printer(pname)
            tree = build_tree(tspec)
            g = printer(tree)
            obs = []
            while True:
                o = observe(g)
                obs.append(o)
                if o[0] != 'frag':
                    break
                if len(obs) > 2000000:
                    raise RuntimeError('reference run does not end')
            self.cache[key] = obs
        return self.cache[key]

    def at(self, pname, tspec, i):
        obs = self.get(pname, tspec)
        return obs[i] if i < len(obs) else ['stop']


def run_history(hist, ref, snapshots='ops', carry=None, watch=('trees', 'printers', 'modules')):
    """
    hist = dict(printers=[config names], trees=[tree specs], ops=[...]) with ops
      ['start', label, p, t]   g_label = printers[p](trees[t])
      ['next', label, k]       k times next(g_label)
      ['exhaust', label]       next(g_label) until StopIteration / exception
      ['drop', label]          del g_label (closes the generator)
    Operations on labels that were never started (after shrinking) are skipped.
    snapshots: 'ops'  = everything watched around EVERY operation
               'own'  = the tree and the printer object of the operation around every operation, everything
                        at the start and the end of the history
               'end'  = everything at the start and the end of the history only
    watch: which state is snapshotted.  A changed TREE and a differing OBSERVATION are failures of the property
           itself; a changed printer object / module-level object contradicts the model's partition (tie
           difference) and is reported as kind 'state-changed' with `property_level` False.
    carry: a one-element list holding the module snapshot taken at the end of the previous history (module
           state is global, so it must also be unchanged between histories)
    Returns None or a dict describing the first difference.
    """
    printers = [make_printer(n) for n in hist['printers']]
    trees = [build_tree(s) for s in hist['trees']]
    gens, meta, pos = {}, {}, {}

    def snap_all(modules=None):
        return dict(trees=[tree_snapshot(t) for t in trees] if 'trees' in watch else [],
                    printers=[g_api.dhash(vars(p)) for p in printers] if 'printers' in watch else [],
                    modules=(modules if modules is not None else module_snapshot()) if 'modules' in watch else [])

    def changed(a, b, i, op):
        what = []
        for k in ('trees', 'printers'):
            what += ['%s[%d]' % (k, j) for j, (x, y) in enumerate(zip(a[k], b[k])) if x != y]
        what += ['module:' + x[0] for x, y in zip(a['modules'], b['modules']) if x != y]
        return dict(kind='state-changed', op_index=i, op=op, changed=what,
                    property_level=any(w.startswith('trees') for w in what))

    state = snap_all(carry[0] if carry and carry[0] is not None else None)
    for i, op in enumerate(hist['ops']):
        kind, label = op[0], op[1]
        if kind == 'start':
            p, t = op[2], op[3]
            gens[label] = printers[p](trees[t])
            meta[label] = (p, t)
            pos[label] = 0
        elif label not in gens:
            continue
        elif kind == 'drop':
            g = gens.pop(label)
            g.close()
            del g
        else:
            p, t = meta[label]
            own = None
            if snapshots == 'own':
                own = (tree_snapshot(trees[t]) if 'trees' in watch else None,
                       g_api.dhash(vars(printers[p])) if 'printers' in watch else None)
            n = op[2] if kind == 'next' else None
            done = 0
            while n is None or done < n:
                got = observe(gens[label])
                want = ref.at(hist['printers'][p], hist['trees'][t], pos[label])
                if got != want:
                    return dict(kind='observation', op_index=i, op=op, printer=hist['printers'][p],
                                tree=hist['trees'][t], fragment_index=pos[label], expected=want, got=got,
                                property_level=True)
                pos[label] += 1
                done += 1
                if got[0] != 'frag' and n is None:
                    break
                if done > 2000000:
                    return dict(kind='nontermination', op_index=i, op=op, property_level=True)
            if own is not None:
                now = (tree_snapshot(trees[t]) if 'trees' in watch else None,
                       g_api.dhash(vars(printers[p])) if 'printers' in watch else None)
                if now != own:
                    what = (['trees[%d]' % t] if now[0] != own[0] else []) + (['printers[%d]' % p] if now[1] != own[1] else [])
                    return dict(kind='state-changed', op_index=i, op=op, changed=what, property_level=now[0] != own[0])
        if snapshots == 'ops':
            now = snap_all()
            if now != state:
                return changed(state, now, i, op)
    now = snap_all()
    if carry is not None and 'modules' in watch:
        carry[0] = now['modules']
    if now != state:
        return changed(state, now, len(hist['ops']), ['end of history'])
    return None


def probe_around(hist, ref):
    """
    deeper search after a tie difference (persistent state changed): for every printer object and every pair of
    trees of the history, abandon a call after k fragments (or let it raise), then make a second call on the same
    printer object and compare it with the fresh run; also two interleaved generators of one printer.
    Returns (history, difference) or None.
    """
    P, T = len(hist['printers']), len(hist['trees'])
    for p in range(P):
        for t in range(T):
            for t2 in range(T):
                for k in (1, 2, 3, 5, 8, 13, 21, 34, 55, None):
                    first = [['start', 0, p, t]] + ([['next', 0, k], ['drop', 0]] if k else [['exhaust', 0]])
                    for ops in (first + [['start', 1, p, t2], ['exhaust', 1]],
                                [['start', 0, p, t], ['start', 1, p, t2]] + ([['next', 0, k]] if k else []) +
                                [['next', 1, 4], ['exhaust', 0], ['exhaust', 1]]):
                        h = dict(hist, ops=ops)
                        d = run_history(h, ref, 'own', watch=('trees',))
                        if d is not None:
                            return h, d
    return None


MODES = ('exhaust', 'abandon', 'keep', 'keep', 'abandon0')


def random_history(rng, pnames, tspecs, ctx=None):
    np_ = rng.randint(1, 3)
    nt = rng.randint(1, 3)
    printers = [rng.choice(pnames) for _ in range(np_)]
    if rng.random() < 0.3:
        printers.append(printers[0])        # two distinct objects of one configuration
    trees = [rng.choice(tspecs) for _ in range(nt)]
    ops, live = [], []
    ncalls = rng.randint(2, 12)
    label = 0
    for _ in range(ncalls):
        # sometimes resume / drop a generator that was kept alive
        while live and rng.random() < 0.4:
            l = rng.choice(live)
            r = rng.random()
            if r < 0.5:
                ops.append(['next', l, rng.randint(1, 9)])
            elif r < 0.75:
                ops.append(['exhaust', l])
                live.remove(l)
            else:
                ops.append(['drop', l])
                live.remove(l)
        p = rng.randrange(len(printers))
        if rng.random() < 0.6:
            p = 0                           # reuse: most calls hit the same printer object
        t = rng.randrange(len(trees))
        mode = rng.choice(MODES)
        ops.append(['start', label, p, t])
        if ctx:
            ctx.bump('mode:' + mode)
        if mode == 'exhaust':
            ops.append(['exhaust', label])
        elif mode == 'abandon':
            ops.append(['next', label, rng.choice([1, 1, 2, 3, 5, 8, 13, 40])])
            ops.append(['drop', label])
        elif mode == 'abandon0':
            ops.append(['drop', label])
        else:
            ops.append(['next', label, rng.choice([1, 2, 3, 5, 8, 21])])
            live.append(label)
        label += 1
    for l in live:
        if rng.random() < 0.5:
            ops.append(['exhaust', l])
    return dict(printers=printers, trees=trees, ops=ops)


def minimise(hist, ref):
    def bad(ops):
        h = dict(hist, ops=ops)
        try:
            return run_history(h, ref, 'own', watch=('trees',)) is not None
        except Exception:
            return False
    ops = shrink.ddmin(hist['ops'], bad, max_tests=200)
    h = dict(hist, ops=ops)
    # drop unused printers / trees is not attempted: indices stay meaningful
    return h


# ---------------------------------------------------------------------------
# pools
# ---------------------------------------------------------------------------

def tree_pool(ctx):
    from calmjs.parse.parsers import es5 as p
    rng = ctx.sub_rng('trees')
    texts = list(FIXED_TEXTS)
    g1 = [t for t in corpus.g1_valid() if len(t) < 1500]
    texts += rng.sample(g1, ctx.n(30, 160))
    stats = {}
    for text, toks, lo in genjs.programs(rng, ctx.n(15, 120), stats=stats):
        if len(text) < 3000:
            texts.append(text)
    for k, v in stats.items():
        ctx.bump('gen:' + k, v)
    good = []
    for t in texts:
        try:
            p.parse(t, with_comments=True)
            good.append(t)
        except Exception:
            pass
    specs = []
    for t in good:
        wc = rng.random() < 0.5
        specs.append(['parse', t, int(wc)])
    for _ in range(ctx.n(6, 30)):
        specs.append(['multi', [rng.choice(good) for _ in range(rng.randint(2, 3))], int(rng.random() < 0.5)])
    big = [t for t in good if len(t) > 40]
    for how in ('decl-nonident', 'missing-attr', 'resolve-nonident'):
        specs.append(['corrupt', how, FIXED_TEXTS[0], 0])
        specs.append(['corrupt', how, 'function f(a) { var b = a + 1; if (b) { return b; } }', 1])
        for _ in range(ctx.n(3, 15)):
            specs.append(['corrupt', how, rng.choice(big), int(rng.random() < 0.5)])
    ctx.bump('trees:parse', len(good))
    ctx.bump('trees:multi-sourcepath', len([s for s in specs if s[0] == 'multi']))
    ctx.bump('trees:corrupt', len([s for s in specs if s[0] == 'corrupt']))
    return specs, good


# ---------------------------------------------------------------------------
# shortcuts
# ---------------------------------------------------------------------------

def join(chunks):
    return ''.join(c.text for c in chunks)


def outcome(f, *a, **kw):
    try:
        return ['ok', f(*a, **kw)]
    except Exception as e:
        return ['err', type(e).__name__, str(e)]


def explicit_pretty(text, indent_str, wc):
    from calmjs.parse import rules
    from calmjs.parse.parsers import es5 as p
    from calmjs.parse.unparsers import es5 as u
    tree = p.Parser(with_comments=wc).parse(text)
    return join(u.Unparser(rules=(rules.indent(indent_str=indent_str),))(tree))


def explicit_minify(text, obfuscate, obfuscate_globals, shadow_funcname, drop_semi, wc):
    from calmjs.parse import rules
    from calmjs.parse.lexers.es5 import Lexer
    from calmjs.parse.parsers import es5 as p
    from calmjs.parse.unparsers import es5 as u
    tree = p.Parser(with_comments=wc).parse(text)
    rs = [rules.minify(drop_semi=drop_semi)]
    if obfuscate:
        rs.append(rules.obfuscate(obfuscate_globals=obfuscate_globals, shadow_funcname=shadow_funcname,
                                  reserved_keywords=Lexer.keywords_dict.keys()))
    return join(u.Unparser(rules=rs)(tree))


def shortcut_cases(text):
    """(description, shortcut thunk, explicit thunk)"""
    import calmjs.parse
    es5 = calmjs.parse.es5
    cases = []
    for wc in (None, False, True):
        kw = {} if wc is None else {'with_comments': wc}
        w = bool(wc)
        cases.append((['pretty_print', [], kw], lambda kw=kw: es5.pretty_print(text, **kw),
                      lambda w=w: explicit_pretty(text, '  ', w)))
        for ind in ('    ', '\t', ''):
            cases.append((['pretty_print', [], dict(kw, indent_str=ind)],
                          lambda kw=kw, ind=ind: es5.pretty_print(text, indent_str=ind, **kw),
                          lambda w=w, ind=ind: explicit_pretty(text, ind, w)))
            cases.append((['pretty_print', [ind], kw], lambda kw=kw, ind=ind: es5.pretty_print(text, ind, **kw),
                          lambda w=w, ind=ind: explicit_pretty(text, ind, w)))
        cases.append((['minify_print', [], kw], lambda kw=kw: es5.minify_print(text, **kw),
                      lambda w=w: explicit_minify(text, False, False, False, False, w)))
        for ob in (False, True):
            for og in (False, True):
                for sf in (False, True):
                    for ds in (False, True):
                        flags = dict(obfuscate=ob, obfuscate_globals=og, shadow_funcname=sf, drop_semi=ds)
                        cases.append((['minify_print', [], dict(kw, **flags)],
                                      lambda kw=kw, flags=flags: es5.minify_print(text, **dict(kw, **flags)),
                                      lambda w=w, f=(ob, og, sf, ds): explicit_minify(text, *(f + (w,)))))
                        if wc is None:
                            cases.append((['minify_print', [ob, og, sf, ds], {}],
                                          lambda f=(ob, og, sf, ds): es5.minify_print(text, *f),
                                          lambda f=(ob, og, sf, ds): explicit_minify(text, *(f + (False,)))))
        # single keywords (the others at their defaults)
        for k in ('obfuscate', 'obfuscate_globals', 'shadow_funcname', 'drop_semi'):
            flags = dict(obfuscate=False, obfuscate_globals=False, shadow_funcname=False, drop_semi=False)
            flags[k] = True
            cases.append((['minify_print', [], dict(kw, **{k: True})],
                          lambda kw=kw, k=k: es5.minify_print(text, **dict(kw, **{k: True})),
                          lambda w=w, flags=flags: explicit_minify(
                              text, flags['obfuscate'], flags['obfuscate_globals'], flags['shadow_funcname'],
                              flags['drop_semi'], w)))
    return cases


def check_shortcuts_text(text, rng=None, k=None):
    """returns None or a difference dict; with rng and k: a random subset of k keyword variants"""
    cases = shortcut_cases(text)
    if rng is not None and k is not None and len(cases) > k:
        cases = rng.sample(cases, k)
    for desc, short, expl in cases:
        a = outcome(short)
        b = outcome(expl)
        if a != b:
            return dict(kind='shortcut', text=text, call=desc, shortcut=a, explicit=b)
    return None


NOT_FACTORY = {}


def check_str_repr(text, wc, rng=None, limit=12):
    from calmjs.parse import rules
    from calmjs.parse.parsers import es5 as p
    from calmjs.parse.unparsers import es5 as u
    import calmjs.parse
    tree = calmjs.parse.es5(text, with_comments=wc) if wc else calmjs.parse.es5(text)
    tree2 = p.Parser(with_comments=wc).parse(text)
    a = proto.render(treedump.dump(tree, pos=True, tokmap=True, comments=True))
    b = proto.render(treedump.dump(tree2, pos=True, tokmap=True, comments=True))
    if a != b:
        return dict(kind='shortcut', text=text, call=['es5()', [], {'with_comments': wc}], shortcut=a, explicit=b)
    nodes = _nodes(tree)
    if rng is not None and len(nodes) > limit:
        nodes = [nodes[0]] + rng.sample(nodes[1:], limit - 1)
    for n in nodes:
        if type(n).__module__ != 'calmjs.parse.factory':
            # asttypes.Comments / BlockComment / LineComment are built by Node.set_comments from the plain asttypes
            # classes, which define their own __str__ (the comment text); str() of those is not a printer shortcut
            NOT_FACTORY[type(n).__name__] = NOT_FACTORY.get(type(n).__name__, 0) + 1
            continue
        s = outcome(str, n)
        e = outcome(lambda: join(u.Unparser(rules=(rules.indent(indent_str='  '),))(n)))
        if s != e:
            return dict(kind='shortcut', text=text, call=['str', [type(n).__name__, n.lexpos], {}], shortcut=s, explicit=e)
    return None


# ---------------------------------------------------------------------------
# the check
# ---------------------------------------------------------------------------

def run(ctx):
    ctx.rule('history = 1-4 printer objects (28 configurations: default, minimum, pretty_printer x3, all 16 '
             'minify_printer flag sets, 7 hand-made rule mixes) x 1-3 trees (corpus G1, generated G2, multi-sourcepath, '
             'corrupted/raising) x 2-12 calls in modes exhaust / abandon after k / abandon before first next / kept '
             'alive and resumed or dropped later; non-trivial = at least two calls on one printer object; distinct by '
             '(printers, trees, ops)')
    ctx.trusted += ['Lean 4.33 kernel', 'translator harness/gen/g_api.py (object identity across two calls, deep '
                    'structural hashes): the theorems are about the partition it reports',
                    'deep structural hash `g_api.canon` as the notion of "unchanged" (generators/iterators and logger '
                    'objects are opaque to it)',
                    'CPython generator semantics (close()/GeneratorExit, frames) as mirrored in Model.Api']
    ctx.assumptions += ['printer objects are only used through __call__ (attributes such as .rules are not reassigned by the user)',
                        'single-threaded use of printers (C14 quantifies over sequential interleavings only)']
    specs, good = tree_pool(ctx)
    pnames = sorted(configs())
    ref = Reference()
    rng = ctx.sub_rng('histories')
    deep = bool(ctx.broken)           # a proof/translator obligation broke: search at thorough strength
    n_hist = ctx.n(90, 2000) if not deep else 2000

    # ---- selftest: the judge must see a shared Indentator -----------------------------------------------
    st = dict(printers=['SELFTEST:shared-indentator'], trees=[['parse', FIXED_TEXTS[0], 0]],
              ops=[['start', 0, 0, 0], ['next', 0, 12], ['drop', 0], ['start', 1, 0, 0], ['exhaust', 1]])
    d = run_history(st, ref, 'end', watch=('trees',))
    d2 = run_history(dict(st, ops=st['ops'][:3]), ref, 'ops')
    ctx.obligation('selftest: history judge flags a printer whose rule shares one Indentator',
                   d is not None and d['kind'] == 'observation' and d2 is not None and d2['kind'] == 'state-changed', 'selftest',
                   'second call: %s at fragment %s; abandoned call alone: %s' % (
                       d and d['kind'], d and d.get('fragment_index'), d2 and d2['kind']))

    # ---- corpus of past failures first ---------------------------------------------------------------------
    hists = [h for h in corpus.extra('C14') if isinstance(h, dict) and 'ops' in h]
    # every configuration gets a systematic history on the richest fixed tree
    others = [['parse', FIXED_TEXTS[1], 1], ['corrupt', 'decl-nonident', FIXED_TEXTS[0], 0],
              ['corrupt', 'missing-attr', FIXED_TEXTS[0], 0], ['multi', [FIXED_TEXTS[1], FIXED_TEXTS[2]], 1]]
    for k, pn in enumerate(pnames):
        for ts in [['parse', FIXED_TEXTS[0], 0]] + (others if ctx.tier == 'thorough' or deep else [others[k % 4]]):
            hists.append(dict(printers=[pn, pn], trees=[ts, ['parse', FIXED_TEXTS[2], 0]], ops=[
                ['start', 0, 0, 0], ['next', 0, 7], ['start', 1, 0, 0], ['next', 1, 3], ['start', 2, 0, 1],
                ['exhaust', 2], ['next', 0, 5], ['drop', 1], ['start', 3, 0, 0], ['exhaust', 3], ['exhaust', 0],
                ['start', 4, 1, 0], ['exhaust', 4], ['start', 5, 0, 0], ['drop', 5], ['start', 6, 0, 0], ['exhaust', 6]]))
    for _ in range(n_hist):
        hists.append(random_history(rng, pnames, specs, ctx))

    n_obs = 0
    raised = 0
    carry = [None]
    state_diffs = []
    n_sys = len(hists) - n_hist
    for hi, h in enumerate(hists):
        calls_per_printer = {}
        for op in h['ops']:
            if op[0] == 'start':
                calls_per_printer[op[2]] = calls_per_printer.get(op[2], 0) + 1
        ctx.case((h['printers'], h['trees'], h['ops']), nontrivial=max(calls_per_printer.values() or [0]) >= 2)
        for pn in set(h['printers']):
            ctx.bump('config:' + pn)
        # full snapshots around every operation for the systematic histories and a quarter of the random ones
        level = 'ops' if (hi < n_sys and hi % 3 == 0) else ('own' if hi < n_sys or hi % 4 == 0 else 'end')
        ctx.bump('snapshots:' + level)
        d = run_history(h, ref, level, carry)
        if d is not None and not d.get('property_level'):
            # the partition the model assumes is contradicted (a printer object or module-level object changed).
            # Not by itself a violation: look for a failing history of the property (observations, trees).
            carry[0] = None
            if len(state_diffs) < 5:
                state_diffs.append(dict(history=h, difference=d))
            d = run_history(h, ref, 'own', watch=('trees',))
            if d is None and len(state_diffs) <= 3:
                found = probe_around(h, ref)
                if found:
                    h, d = found
        if d is not None:
            hm = minimise(h, ref)
            dm = run_history(hm, ref, 'own', watch=('trees',)) or d
            ctx.violation('print history: %s at operation %s (%s)' % (
                dm['kind'], dm.get('op'), dm.get('printer', dm.get('changed'))),
                dict(kind='history', history=hm, difference=dm, persistent_state_differences=state_diffs[:2]))
            return
    for obs in ref.cache.values():
        n_obs += len(obs)
        if obs[-1][0] == 'raised':
            raised += 1
            ctx.bump('reference-raises:' + obs[-1][1])
    ctx.bump('reference runs', len(ref.cache))
    ctx.bump('reference runs that raise', raised)
    ctx.sample(dict(history=hists[-1], result='every observation equals the fresh run; trees, printers, modules unchanged'))
    ctx.obligation('tie:S11 print histories (observations = fresh-run prefix)', True, 'tie',
                   '%d histories, %d reference runs (%d raising), %d reference observations' % (
                       len(hists), len(ref.cache), raised, n_obs))
    ctx.obligation('tie:S11 trees unchanged around every operation (treedump pos/tokmap/comments + sourcepath + deep hash)',
                   True, 'tie', '%d histories' % len(hists))
    ctx.obligation('tie:S11 printer objects / module-level state unchanged (the partition the model assumes)', not state_diffs, 'tie',
                   ('%d module objects, every printer __dict__' % len(module_objects())) if not state_diffs else
                   'persistent state changed but no failing history of the property was found; first: %s' % json.dumps(
                       state_diffs[0], default=repr)[:1500])

    ctx.note('history stage done at %.1fs' % ctx.elapsed())
    # ---- shortcuts ------------------------------------------------------------------------------------------
    srng = ctx.sub_rng('shortcuts')
    texts = list(FIXED_TEXTS) + srng.sample(good, min(len(good), ctx.n(12, 150)))
    texts += srng.sample(corpus.g1_invalid(), ctx.n(4, 30))     # the helper must raise what parse raises
    n_sc = 0
    before = module_snapshot()
    for ti, text in enumerate(texts):
        full = ti < ctx.n(2, 6)          # every keyword variant on the first texts, a random subset on the rest
        d = check_shortcuts_text(text) if full else check_shortcuts_text(text, srng, ctx.n(8, 24))
        n_sc += len(shortcut_cases(text)) if full else ctx.n(8, 24)
        ctx.case(('shortcuts', text))
        if d is None and text in good:
            for wc in (False, True):
                d = d or check_str_repr(text, wc, srng)
        if d is not None:
            def bad(t):
                try:
                    return check_shortcuts_text(t) is not None or (
                        check_str_repr(t, False) is not None or check_str_repr(t, True) is not None)
                except Exception:
                    return False
            small = shrink.shrink_text(text, bad, max_tests=150) if len(text) < 400 else text
            d2 = check_shortcuts_text(small)
            if d2 is None:
                try:
                    d2 = check_str_repr(small, False) or check_str_repr(small, True)
                except Exception:
                    d2 = None
            ctx.violation('shortcut %s disagrees with explicit parse-then-print' % ((d2 or d)['call'],),
                          dict(kind='shortcut', difference=d2 or d))
            return
    after = module_snapshot()
    ctx.obligation('tie:shortcuts leave module-level state unchanged', after == before, 'tie',
                   'changed: %s' % [a[0] for a, b in zip(before, after) if a != b])
    ctx.bump('shortcut texts', len(texts))
    for k, v in sorted(NOT_FACTORY.items()):
        ctx.bump('str() not a printer shortcut (own __str__ in asttypes): ' + k, v)
    if NOT_FACTORY:
        ctx.note('str() of comment nodes (%s) is defined in asttypes.py as the comment text and is NOT what pretty_print '
                 'returns for such a node (e.g. "/**/" vs "/**/\\n"); C14 is checked for the nodes the parser builds through '
                 'its factory' % ', '.join(sorted(NOT_FACTORY)))
    ctx.sample(dict(shortcut='es5.minify_print(text, obfuscate=True, drop_semi=True, with_comments=True)',
                    text=texts[0][:120], result=outcome(lambda: __import__('calmjs.parse').parse.es5.minify_print(
                        texts[0], obfuscate=True, drop_semi=True, with_comments=True))[1][:120]))
    ctx.obligation('tie:shortcuts str/es5()/es5.pretty_print/es5.minify_print = explicit parse-then-print', True, 'tie',
                   '%d texts, %d (entry point, keyword variant) comparisons + str of sampled nodes' % (len(texts), n_sc))


def replay(ctx, path):
    d = json.load(open(path))['replay']
    if d.get('kind') == 'history':
        r = run_history(d['history'], Reference(), 'ops', watch=('trees',))
        print('history:', json.dumps(d['history']))
        print('difference:', json.dumps(r, default=repr)[:3000])
        return 1 if r is not None else 0
    if d.get('kind') == 'shortcut':
        text = d['difference']['text']
        r = check_shortcuts_text(text)
        if r is None:
            try:
                r = check_str_repr(text, False) or check_str_repr(text, True)
            except Exception as e:
                print('str/repr check not applicable:', e)
        print('difference:', json.dumps(r, default=repr)[:3000])
        return 1 if r is not None else 0
    print('nothing to replay (obligation failure without a failing history):', json.dumps(d, default=repr)[:2000])
    return 1
