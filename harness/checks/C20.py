"""
C20  Pretty output is indented exactly by block depth, ends with one newline.

proof   lean/CalmVerif/Props/C20.lean over Model.Unparse with the generated `indent` rule set (Gen.Defs, Gen.Rules):
        defs_indent_balanced, defs_indent_net_zero, indent_table_normalisations_balanced, defs_bracket_structure,
        program_ends_with_optional_newline (decide over the regenerated tables);
        level_returns_to_zero (all trees, all indent strings, any hooks), ends_with_one_newline_partial,
        other_lines_are_token_interiors, tokens_preserved, chunk_stream_structure, level_is_structural_depth,
        level_is_depth_partial (no Case/Default), pretty_lines_indented (final text, all node kinds),
        pretty_text_ends_with_one_newline, newline_handler_indents_by_level, empty_indent_string_is_used
        (regression obligation of fixed finding KF-20a).  The decidable hypotheses of the partial theorems (tailSafe,
        tokensCleanB, tokensEdgeB, lineStartsStable, valAll lineSafe / braceFree) are evaluated by the model on every program of the tie.
tie     S3/S4 (parts/unparse_tie.py): fragment streams and printed text of the real printers vs `drv_unparse`,
        fragment by fragment incl. positions / name / source, for pretty_printer(indent) with
        indent in {'', ' ', '  ', '\\t', ' \\t', default}, rules.indent(None), minify_printer(drop_semi on/off),
        Unparser() and rules.minimum, rules=(), and the obfuscating compositions through the Resolve hook;
        trees parsed with and without comments, trees with several `sourcepath`s, nodes without token maps,
        hand-built trees that make the walk raise.
judge   (independent of the model, always run, on the implementation)  the printed text is tokenised by the ES5
        scanner of this file (strings with escapes and line continuations, comments, regular-expression literals
        by the previous-token rule, numbers, identifiers, punctuators); a small machine over the tokens recomputes
        the depth of every line (open braces + 1 inside a case/default body); every line whose first non-blank
        character starts a token must begin with exactly indent x depth, lines starting inside a token are exempt
        (and must be interiors of a string or comment), depth is 0 at the end, non-empty output ends with exactly
        one newline.
"""
import json
import re
import unicodedata

import corpus
import genjs
import shrink
from parts import unparse_tie as ut

SPEC = dict(gen=['defs', 'rules', 'tables', 'actions', 'lexdata'], props=['CalmVerif.Props.C20', 'CalmVerif.Props.C20typed', 'CalmVerif.Props.C01tok', 'CalmVerif.Props.C01typed2'], drivers=['drv_unparse'], audit='Audit/C20.lean')

LT = '\n\r  '
WS = ' \t\x0b\x0c\xa0﻿'
PUNCT = sorted(['{', '}', '(', ')', '[', ']', '.', ';', ',', '<', '>', '<=', '>=', '==', '!=', '===', '!==', '+', '-',
                '*', '%', '++', '--', '<<', '>>', '>>>', '&', '|', '^', '!', '~', '&&', '||', '?', ':', '=', '+=', '-=',
                '*=', '%=', '<<=', '>>=', '>>>=', '&=', '|=', '^=', '/', '/='], key=lambda s: -len(s))
KEYWORDS = set('''break case catch continue debugger default delete do else finally for function if in instanceof new
return switch this throw try typeof var void while with null true false'''.split())
# after these a `/` starts a regular expression
EXPR_END_KW = {'this', 'null', 'true', 'false'}
NUM = re.compile(r'0[xX][0-9a-fA-F]+|(?:\d+\.?\d*|\.\d+)(?:[eE][+-]?\d+)?')


class ScanError(Exception):
    pass


def is_id_start(c):
    return c in '$_\\' or unicodedata.category(c) in ('Lu', 'Ll', 'Lt', 'Lm', 'Lo', 'Nl')


def is_id_part(c):
    return is_id_start(c) or unicodedata.category(c) in ('Mn', 'Mc', 'Nd', 'Pc') or c in '‌‍'


def is_space(c):
    return c in WS or unicodedata.category(c) == 'Zs'


def scan(text):
    """-> list of (kind, text, start, end); kind in id kw num str regex punct linecomment blockcomment"""
    toks = []
    i, n = 0, len(text)
    prev = None            # previous significant token (kind, text)
    nl_since_prev = False
    paren_stack = []       # for each open '(': was it the header paren of if/while/for/with?
    last_close_header = False
    while i < n:
        c = text[i]
        if c in LT:
            nl_since_prev = True
            i += 1
            continue
        if is_space(c):
            i += 1
            continue
        start = i
        if text.startswith('//', i):
            while i < n and text[i] not in LT:
                i += 1
            toks.append(('linecomment', text[start:i], start, i))
            continue
        if text.startswith('/*', i):
            j = text.find('*/', i + 2)
            if j < 0:
                raise ScanError('unterminated comment at %d' % i)
            i = j + 2
            toks.append(('blockcomment', text[start:i], start, i))
            continue
        if c in '"\'':
            i += 1
            while True:
                if i >= n:
                    raise ScanError('unterminated string at %d' % start)
                d = text[i]
                if d == '\\':
                    if text.startswith('\r\n', i + 1):
                        i += 3
                    else:
                        i += 2
                    continue
                if d in LT:
                    raise ScanError('line terminator in string at %d' % i)
                i += 1
                if d == c:
                    break
            kind = 'str'
        elif c == '/':
            regex_ok = True
            if prev is not None:
                pk, pt = prev
                if pk in ('id', 'num', 'str', 'regex') or (pk == 'kw' and pt in EXPR_END_KW):
                    regex_ok = False
                elif pk == 'punct' and pt in (']', '++', '--'):
                    # `a++ / b`: a postfix operator ends an expression (a prefix one cannot be followed by a regex)
                    regex_ok = False
                elif pk == 'punct' and pt == ')':
                    regex_ok = last_close_header
                elif pk == 'punct' and pt == '}':
                    # pretty output: a block's `}` is followed by a new line, an object literal's by its operator
                    regex_ok = nl_since_prev
            if regex_ok:
                i += 1
                in_class = False
                while True:
                    if i >= n or text[i] in LT:
                        raise ScanError('unterminated regex at %d' % start)
                    d = text[i]
                    if d == '\\':
                        i += 2
                        continue
                    if d == '[':
                        in_class = True
                    elif d == ']':
                        in_class = False
                    elif d == '/' and not in_class:
                        i += 1
                        break
                    i += 1
                while i < n and is_id_part(text[i]):
                    i += 1
                kind = 'regex'
            else:
                i += 2 if text.startswith('/=', i) else 1
                kind = 'punct'
        elif c.isdigit() or (c == '.' and i + 1 < n and text[i + 1].isdigit()):
            m = NUM.match(text, i)
            i = m.end()
            kind = 'num'
        elif is_id_start(c):
            while i < n and is_id_part(text[i]):
                if text[i] == '\\':
                    i += 6
                else:
                    i += 1
            w = text[start:i]
            kind = 'kw' if (w in KEYWORDS and not (prev and prev == ('punct', '.'))) else 'id'
        else:
            for p in PUNCT:
                if text.startswith(p, i):
                    i += len(p)
                    break
            else:
                raise ScanError('unexpected character %r at %d' % (c, i))
            kind = 'punct'
        t = text[start:i]
        if kind == 'punct' and t == '(':
            paren_stack.append(prev is not None and prev[0] == 'kw' and prev[1] in ('if', 'while', 'for', 'with'))
        elif kind == 'punct' and t == ')':
            last_close_header = paren_stack.pop() if paren_stack else False
        toks.append((kind, t, start, i))
        prev = (kind, t)
        nl_since_prev = False
    return toks


def line_starts(text):
    """offsets at which a line begins (ES5 line terminators; CR LF is one)"""
    out = [0]
    i, n = 0, len(text)
    while i < n:
        c = text[i]
        if c == '\r' and i + 1 < n and text[i + 1] == '\n':
            i += 2
            out.append(i)
        elif c in LT:
            i += 1
            out.append(i)
        else:
            i += 1
    return out


def depths(toks):
    """depth in force at each significant token's line start: {token index: depth}.
    Stack entries: ['(' | '[' | '{' | 'S' (switch block), case_body_open, in_header, ternary]"""
    sig = [(k, (kd, t)) for k, (kd, t, _, _) in enumerate(toks) if kd not in ('linecomment', 'blockcomment')]
    nxt = {}
    for a, b in zip(sig, sig[1:]):
        nxt[a[0]] = b[1]
    prevs = {}
    for a, b in zip(sig, sig[1:]):
        prevs[b[0]] = a
    stack = []
    res = {}
    arm_switch_paren = False     # the next '(' belongs to `switch`
    pending_switch_block = False  # the switch header paren just closed: the next '{' is the switch block

    def depth():
        return sum(1 for e in stack if e[0] in '{S') + sum(1 for e in stack if e[0] == 'S' and e[1])

    # a comment belongs to the token that follows it (calmjs attaches it there and prints it in front of that token,
    # e.g. a comment between two case clauses is printed at the level of the clause heads): its depth is the depth of
    # the next significant token's line
    pending_comments = []

    def flush_comments(d):
        for c in pending_comments:
            res[c] = d
        del pending_comments[:]

    last_sig = None
    for k, (kd, t, _, _) in enumerate(toks):
        if kd in ('linecomment', 'blockcomment'):
            pending_comments.append(k)
            continue
        top = stack[-1] if stack else None
        is_prop = last_sig == ('punct', '.')
        clause = (kd == 'kw' and t in ('case', 'default') and top is not None and top[0] == 'S' and not is_prop)
        if clause and top[1]:
            top[1] = False               # the previous clause body ends before this line
        if kd == 'punct' and t == '}':
            if not stack or stack[-1][0] not in '{S':
                raise ScanError('unbalanced }')
            stack.pop()
            res[k] = depth()
            flush_comments(res[k])
            last_sig = (kd, t)
            pending_switch_block = False
            continue
        res[k] = depth()
        flush_comments(res[k])
        if clause:
            top[2] = True
            top[3] = 0
        elif kd == 'punct' and t == '?' and top is not None and top[0] == 'S' and top[2]:
            top[3] += 1
        elif kd == 'punct' and t == ':' and top is not None and top[0] == 'S' and top[2]:
            if top[3] > 0:
                top[3] -= 1
            else:
                top[2] = False
                top[1] = True
        elif kd == 'kw' and t == 'switch' and nxt.get(k) == ('punct', '('):
            # not a property name: `a.switch(…)` was classified id; `get switch() {}`: previous is get/set after { or ,
            pv = prevs.get(k)
            getter = False
            if pv is not None and pv[1][0] == 'id' and pv[1][1] in ('get', 'set'):
                pp = prevs.get(pv[0])
                getter = pp is not None and pp[1] in (('punct', '{'), ('punct', ','))
            if not getter:
                arm_switch_paren = True
        elif kd == 'punct' and t in '([':
            stack.append([t, False, False, 0, arm_switch_paren and t == '('])
            arm_switch_paren = False
        elif kd == 'punct' and t in ')]':
            if not stack or stack[-1][0] != {')': '(', ']': '['}[t]:
                raise ScanError('unbalanced ' + t)
            e = stack.pop()
            pending_switch_block = bool(e[4])
            last_sig = (kd, t)
            continue
        elif kd == 'punct' and t == '{':
            stack.append(['S' if pending_switch_block else '{', False, False, 0, False])
        pending_switch_block = False
        last_sig = (kd, t)
    flush_comments(depth())
    if stack:
        raise ScanError('unbalanced at end: %r' % [e[0] for e in stack])
    return res, depth()


def judge_text(out, indent):
    """the property on one printed text; returns a list of problem strings (empty = holds)"""
    problems = []
    if out == '':
        return problems
    try:
        toks = scan(out)
        dep, final = depths(toks)
    except ScanError as e:
        return ['output does not tokenise: %s' % e]
    if final != 0:
        problems.append('depth %d at the end' % final)
    starts = line_starts(out)
    tok_at = dict((t[2], k) for k, t in enumerate(toks))
    ti = 0
    for ln, s in enumerate(starts):
        if s >= len(out):
            continue                    # the empty piece after the final line terminator
        # is the line start strictly inside a token?
        while ti < len(toks) and toks[ti][3] <= s:
            ti += 1
        if ti < len(toks) and toks[ti][2] < s < toks[ti][3]:
            if toks[ti][0] not in ('str', 'blockcomment'):
                problems.append('line %d starts inside a %s token' % (ln + 1, toks[ti][0]))
            continue
        j = s
        while j < len(out) and is_space(out[j]):
            j += 1
        if j >= len(out) or out[j] in LT:
            # a line that starts no token: the property says nothing about its white space
            continue
        k = tok_at.get(j)
        if k is None:
            problems.append('line %d: first non-blank character is not a token start' % (ln + 1))
            continue
        want = indent * dep[k]
        if out[s:j] != want:
            problems.append('line %d (%r…): indentation %r, expected %r (depth %d)' % (
                ln + 1, out[j:j + 12], out[s:j], want, dep[k]))
    if not out.endswith('\n') or out.endswith('\n\n') or out.endswith('\r\n') or (
            len(out) >= 2 and out[-2] in LT):
        problems.append('does not end with exactly one newline: …%r' % out[-6:])
    return problems


# ----------------------------------------------------------------------------- inputs

def nested_program(rng, depth=0):
    """programs rich in empty blocks, empty case bodies, nested objects, comments (own small generator)"""
    def cm():
        r = rng.random()
        if r < 0.12:
            return rng.choice(['/* c */ ', '/* a\n b */ ', '// l\n', '/**/', '/* x */\n'])
        return ''

    def expr(d):
        r = rng.random()
        if d > 2 or r < 0.3:
            return cm() + rng.choice(['a', 'b', '1', '"s"', "'multi\\\nline'", '/re/g', 'this', 'x.y', 'f()', 'a ? b : c'])
        if r < 0.5:
            props = []
            for _ in range(rng.randint(0, 3)):
                k = rng.choice(['a', '"k"', '1', 'default', 'case', 'switch'])
                props.append('%s%s: %s' % (cm(), k, expr(d + 1)))
            if rng.random() < 0.2:
                props.append('get g() {%s}' % stmts(d + 1))
            if rng.random() < 0.2:
                props.append('set s(v) {%s}' % stmts(d + 1))
            return '{' + ', '.join(props) + '}'
        if r < 0.65:
            return 'function %s(%s) {%s}' % (rng.choice(['', 'f']), rng.choice(['', 'p', 'p, q']), stmts(d + 1))
        if r < 0.75:
            return '[%s]' % ', '.join(expr(d + 1) for _ in range(rng.randint(0, 3)))
        if r < 0.85:
            return '(%s %s %s)' % (expr(d + 1), rng.choice(['+', '/', '&&', ',', 'in']), expr(d + 1))
        return '%s(%s)' % (rng.choice(['f', 'a.b']), ', '.join(expr(d + 1) for _ in range(rng.randint(0, 2))))

    def stmt(d):
        r = rng.random()
        c = cm()
        if d > 3 or r < 0.15:
            return c + rng.choice(['a;', ';', 'var v = %s;' % expr(d), 'x = %s;' % expr(d), 'return;', 'break;',
                                   'debugger;', 'throw e;', '(%s);' % expr(d)])
        if r < 0.3:
            return c + '{%s}' % stmts(d + 1)
        if r < 0.4:
            return c + 'if (%s) %s%s' % (expr(d), stmt(d + 1), rng.choice(['', ' else ' + stmt(d + 1)]))
        if r < 0.55:
            cases = []
            for _ in range(rng.randint(0, 4)):
                head = rng.choice(['case %s:' % expr(d + 2), 'default:'])
                cases.append(cm() + head + (stmts(d + 1) if rng.random() < 0.6 else ''))
            seen = False
            out = []
            for cs in cases:
                if 'default:' in cs.split('{')[0] and cs.lstrip().startswith('default') or cs.startswith('default'):
                    if seen:
                        continue
                    seen = True
                out.append(cs)
            return c + 'switch (%s) {%s}' % (expr(d), ' '.join(out))
        if r < 0.62:
            return c + 'for (%s;%s;%s) %s' % (rng.choice(['', 'i = 0', 'var i = 0']), rng.choice(['', ' a']),
                                              rng.choice(['', ' i++']), stmt(d + 1))
        if r < 0.68:
            return c + 'while (%s) %s' % (expr(d), stmt(d + 1))
        if r < 0.74:
            return c + 'do %s while (%s);' % (stmt(d + 1), expr(d))
        if r < 0.82:
            return c + 'try {%s}%s%s' % (stmts(d + 1), rng.choice(['', ' catch (e) {%s}' % stmts(d + 1)]),
                                         ' finally {%s}' % stmts(d + 1))
        if r < 0.9:
            return c + 'function g%d(%s) {%s}' % (d, rng.choice(['', 'p']), stmts(d + 1))
        if r < 0.95:
            return c + 'l%d: %s' % (d, stmt(d + 1))
        return c + 'with (%s) %s' % (expr(d), stmt(d + 1))

    def stmts(d):
        return ' '.join(stmt(d) for _ in range(rng.choice([0, 0, 1, 1, 2, 3])))

    return stmts(depth) or ';'


FIXED = [
    '', ';', '{}', '{{}}', 'a;', 'switch (a) {}', 'switch (a) { case 1: }', 'switch (a) { case 1: case 2: default: }',
    'switch (a) { case 1: b; break; default: switch (c) { case 2: {} } }', 'x = {};', 'x = {a: {b: {}}, c: []};',
    'function f() {}', 'function f() { return function () {}; }', 'if (a) {} else {}', 'if (a) b; else if (c) d; else {}',
    'try {} catch (e) {} finally {}', 'x = {get a() {}, set b(c) {}};', 'a = "x\\\ny";', '/* a\n b */ x;',
    '// c\nx;', 'x = { /* k */ a: 1 };', 'switch (a) { /* c */ case 1: /* d */ b; }', 'switch (a ? b : c) { case d ? e : f: g; }',
    'switch (x) { case {a: 1}: y; }', 'x = {switch: 1, case: 2, default: 3}; x.switch(1); x.default;',
    'for (;;) {}', 'for (;;) ;', 'while (1) ;', 'do {} while (0);', 'l: {}', 'with (a) {}', 'a = /re/.test(b) ? /x/ : 1 / 2 / 3;',
    'if (a) /re/.test(b);', '{}\n/re/.test(a);', 'x = {get switch() { return 1; }};', '(function () {})();',
    'var a = function () { switch (b) { case 1: return {c: function () {}}; } };',
]


def programs_for(ctx):
    rng = ctx.sub_rng('programs')
    texts = list(FIXED)
    for e in corpus.extra('C20'):
        texts.append(e['text'] if isinstance(e, dict) else e)
    g1 = corpus.g1_valid()
    texts += rng.sample(g1, min(len(g1), ctx.n(80, len(g1))))
    stats = {}
    for text, toks, lo in genjs.programs(rng, ctx.n(50, 800), stats=stats):
        texts.append(text)
    for k, v in stats.items():
        ctx.bump('genjs:' + k, v)
    for _ in range(ctx.n(100, 1500)):
        texts.append(nested_program(rng))
    # deep nesting (well past any small table or cache of indentation strings) and programs whose first token comes after
    # several opened / closed blocks
    for depth in (15, 16, 17, 18, 31, 32, 33, 40, 65):
        texts.append(deep_program(rng, depth))
    texts += ['{ {} }', '{ {} x; }', ';{ {;} }', '{ { {} } y(); }', '{{{}}{}}', '{ ; { ; } ; }', '{}{ {} }{}']
    # the same comment-bearing programs written with CRLF, CR and U+2028 line ends (a comment token must not swallow part of
    # its line terminator, the printer must still break the line after it)
    withc = [t for t in texts if '//' in t and '\n' in t and '\r' not in t]
    for t in withc[:ctx.n(25, 200)]:
        texts += [t.replace('\n', '\r\n'), t.replace('\n', '\r'), t.replace('\n', '\u2028')]
    texts += ['function f() {\r\n  // c\r\n  return 1; // d\r\n}\r\n', 'if (a) {\r  // e\r  b;\r}\r',
              'x = {\r\n  // k\r\n  a: 1 // v\r\n};']
    return texts


def deep_program(rng, depth):
    open_, close = [], []
    for i in range(depth):
        k = rng.choice(['block', 'func', 'if', 'obj', 'switch', 'try', 'while'])
        if k == 'block':
            open_.append('{ a%d; ' % i); close.append(' }')
        elif k == 'func':
            open_.append('function f%d() { b%d; ' % (i, i)); close.append(' }')
        elif k == 'if':
            open_.append('if (c%d) { ' % i); close.append(' } else { e%d; }' % i)
        elif k == 'obj':
            open_.append('x%d = {k: function () { ' % i); close.append(' }, m: 1};')
        elif k == 'switch':
            open_.append('switch (s%d) { case %d: ' % (i, i)); close.append(' default: d%d; }' % i)
        elif k == 'try':
            open_.append('try { '); close.append(' } catch (e%d) { g%d; }' % (i, i))
        else:
            open_.append('while (w%d) { ' % i); close.append(' }')
    return ''.join(open_) + 'z;' + ''.join(reversed(close))


def indents_for(ctx, rng):
    base = list(ut.INDENTS)
    extra = []
    for _ in range(ctx.n(2, 3)):
        extra.append(''.join(rng.choice([' ', '\t', ' ', '\xa0', '\x0b']) for _ in range(rng.randint(1, 5))))
    return base, extra


def pretty_text(tree, indent):
    from calmjs.parse.unparsers import es5
    return ''.join(f.text for f in es5.pretty_printer(indent_str=indent)(tree))


def judge_program(text, wc, indent):
    """-> (problems, output) of the property on the implementation; None if the text does not parse"""
    from calmjs.parse.parsers.es5 import parse
    try:
        tree = parse(text, with_comments=wc)
    except Exception:
        return None
    out = pretty_text(tree, indent)
    problems = judge_text(out, indent)
    if not wc and not problems:
        # the other public ways of asking for the same thing (unparsers.es5.pretty_print, the calmjs.parse.es5 helper with the
        # indentation passed by keyword) must print the same text: the property is about "the pretty printer", not one door
        from calmjs.parse.unparsers import es5 as u
        import calmjs.parse
        try:
            alt = [('unparsers.es5.pretty_print(tree, indent_str=…)', u.pretty_print(tree, indent_str=indent)),
                   ('calmjs.parse.es5.pretty_print(text, indent_str=…)', calmjs.parse.es5.pretty_print(text, indent_str=indent))]
        except Exception as e:
            alt = [('alternative entry point raises %s' % type(e).__name__, None)]
        for name, o in alt:
            if o != out:
                p2 = judge_text(o, indent) if isinstance(o, str) else ['no output']
                if p2:
                    problems = ['%s: %s' % (name, p2[0])]
                    out = o if isinstance(o, str) else out
                    break
    return problems, out


def classify_known(text, wc, indent, out):
    """structural classes of OPEN known findings (shared with the exclusions of `…_partial` theorems).
    None at present: KF-20a (an empty indent string was replaced by the Dispatcher default) is fixed in /repo
    (commit 43f8941); if the behaviour returns it is an ordinary violation, described by `describe_regression`."""
    return None


def describe_regression(indent, out):
    from calmjs.parse.unparsers.walker import Dispatcher
    if indent == '':
        d = Dispatcher({}, None, {}, {}).indent_str
        if not judge_text(out, d):
            return ('regression of fixed finding KF-20a: pretty_printer(indent_str=\'\') indents with the Dispatcher '
                    'default %r; ' % d)
    return ''


def hand_built_trees(rng):
    from calmjs.parse import asttypes as A
    from calmjs.parse.parsers.es5 import parse
    from gen.g_children import reach
    I = A.Identifier
    trees = []
    for text in rng.sample(corpus.g1_valid(), 40):
        for wc in (False, True):
            try:
                t = parse(text, with_comments=wc)
            except Exception:
                continue
            ns = reach(t, A.Node)
            for n in rng.sample(ns, min(len(ns), 3)):
                n.sourcepath = rng.choice(['a.js', 'b.js', 'dir/c.js', ''])
            if rng.random() < 0.5:
                for n in rng.sample(ns, min(len(ns), 2)):
                    if hasattr(n, '_token_map'):
                        del n._token_map
            trees.append(t)

    class Weird(A.Node):
        pass
    broken = A.ExprStatement(I('a'))
    del broken.expr
    trees += [
        A.ES5Program([A.ExprStatement(I('a'))]), A.ES5Program([]), A.ES5Program([A.Block([])]),
        A.ES5Program([A.EmptyStatement(';'), A.EmptyStatement(';')]),
        A.ES5Program([A.VarStatement([A.VarDecl(A.Number('1'))])]),
        A.ES5Program([A.ExprStatement(A.Array([A.Elision(2), I('x'), A.Elision(1), A.Elision(0), I('y')]))]),
        A.ES5Program([A.ExprStatement(A.Array([I('x'), I('y'), A.Elision(1)]))]),
        A.ES5Program([A.If(I('a'), A.Block([]), None)]),
        A.ES5Program([A.ExprStatement(A.FunctionCall(I('f'), None))]),
        A.ES5Program([A.ExprStatement(A.FunctionCall(I('f'), A.Arguments(None)))]),
        A.ES5Program([A.Switch(I('a'), A.CaseBlock([A.Case(I('b'), []), A.Default([A.Break()])]))]),
        A.ES5Program([A.ExprStatement(A.Object([]))]),
        A.ES5Program([A.ExprStatement(A.Object([A.Assign(I('a'), ':', A.Number('1'))]))]),
        A.Block([A.Return(None)]),
        A.ES5Program([A.LineComment('// x'), A.BlockComment('/* y */')]),
        A.ES5Program([A.Comments([A.LineComment('// x')])]),
        A.ES5Program([A.ExprStatement(A.String('"a\\\nb\\\r\nc\\\\\nd\\\r"'))]),
        A.ES5Program([A.Elision('x')]),
        A.ES5Program([A.ExprStatement(A.DotAccessor(I('a'), A.PropIdentifier('b')))]),
        A.ES5Program([A.ExprStatement(A.UnaryExpr('-', A.UnaryExpr('-', I('a'))))]),
        A.ES5Program([A.ExprStatement(A.BinOp('in', I('a$'), I('$b')))]),
        A.ES5Program([Weird()]), A.ES5Program([broken]),
        A.ES5Program([A.ES5Program([]), A.ES5Program([]), A.ES5Program([])]),
    ]
    return trees


# ----------------------------------------------------------------------------- run

REUSE_FIRST = 'function f(a) { if (a) { while (a) { switch (a) { case 1: { g({b: function () { return [1, 2]; }}); } } } } }'
REUSE_NEXT = ['if (a) { b; } else { c; }', 'function g() { return {x: 1, y: {z: 2}}; }\nvar k = 1;', 'a;',
              'switch (a) { case 1: b; break; default: { c; } }']


def reused_printer_scenario(ctx, indents):
    from calmjs.parse.parsers.es5 import parse
    from calmjs.parse.unparsers import es5
    from calmjs.parse import asttypes

    class Undefined(asttypes.Node):     # a node class no definition exists for: the walk raises when it reaches it
        pass
    bad = None
    for ind in indents[:6]:
        for how in ('abandoned', 'raised', 'closed'):
            printer = es5.pretty_printer(indent_str=ind)
            first = parse(REUSE_FIRST)
            try:
                if how == 'raised':
                    # graft the undefined node deep inside the nested blocks
                    blk = first.children()[0].elements[0].consequent.children()[0].statement
                    blk._children_list.append(Undefined())
                    try:
                        for f in printer(first):
                            pass
                    except Exception:
                        pass
                else:
                    g = printer(first)
                    depth = 0
                    for f in g:
                        depth += f.text.count('{') - f.text.count('}')
                        if depth >= 5:
                            break
                    if how == 'closed':
                        g.close()
                    del g
            except Exception as e:      # the set-up itself must not decide anything
                ctx.bump('reuse:setup-failed:%s' % type(e).__name__)
                continue
            for text in REUSE_NEXT:
                out = ''.join(f.text for f in printer(parse(text)))
                problems = judge_text(out, ind)
                ctx.case(('reuse', how, text, ind), nontrivial=True)
                ctx.bump('reuse:' + how)
                if problems and bad is None:
                    bad = (how, text, ind, out, problems)
    if bad:
        how, text, ind, out, problems = bad
        ctx.violation('pretty output of a printer used again after a call that was %s is not indented by block depth: %s' % (how, problems[0]),
                      dict(scenario='reused printer', first=REUSE_FIRST, how=how, text=text, indent=ind, output=out, problems=problems), True)
    ctx.obligation('judge: a printer object prints correctly indented text after an abandoned / closed / raising call', bad is None,
                   'judge', 'printer reuse over %d indent strings x 3 kinds of unfinished first call x %d programs' % (min(6, len(indents)), len(REUSE_NEXT)))


def run(ctx):
    ctx.rule('programs: fixed list of block/switch/object/comment shapes, repo test manifests (G1), grammar-generated programs '
             'with random layout (G2, genjs), own generator of nested statements rich in empty blocks, empty case bodies, nested '
             'objects, getters/setters, comments and multi-line tokens; each parsed with and without comments and printed with '
             'indent strings "", " ", "  ", tab, " \\t", 4 spaces and random white-space strings; non-trivial = the output has '
             'at least one nested line or more than one line; distinct by (program text, comments flag, indent)')
    ctx.trusted += ['Lean 4.33 kernel', 'translators harness/gen/g_defs.py, g_rules.py (reflect rule objects / handler functions)',
                    'the ES5 scanner and depth machine of checks/C20.py (judge oracle, ~200 lines, independent of calmjs)',
                    'correspondence harness parts/unparse_tie.py and the compiled driver drv_unparse']
    ctx.assumptions += ['indent strings consist of white space other than line terminators',
                        'programs are texts the calmjs parser accepts (the property quantifies over accepted programs)']
    texts = programs_for(ctx)
    rng = ctx.sub_rng('indents')
    base_indents, extra_indents = indents_for(ctx, rng)
    from calmjs.parse.unparsers import es5
    import inspect
    dflt = inspect.signature(es5.pretty_printer).parameters['indent_str'].default
    indents = base_indents + [dflt] + extra_indents

    # ---- judge on the implementation (always)
    failures = []
    njudged = 0
    for text in texts:
        for wc in (False, True):
            for ind in indents:
                r = judge_program(text, wc, ind)
                if r is None:
                    ctx.bump('judge:unparsable')
                    break
                problems, out = r
                njudged += 1
                ctx.case((text, wc, ind), nontrivial=out.count('\n') > 1)
                ctx.bump('judge:indent=%r' % ind)
                if wc and ('/*' in text or '//' in text):
                    ctx.bump('judge:with-comments')
                if problems:
                    kf = classify_known(text, wc, ind, out)
                    if kf:
                        ctx.known(kf[0], kf[1])
                        ctx.bump('judge:known:' + kf[0])
                    else:
                        failures.append((text, wc, ind, problems))
        if len(failures) >= 5:
            break
    ctx.sample(dict(text=FIXED[8], indent='\t', output=judge_program(FIXED[8], False, '\t')[1]))
    for text, wc, ind, problems in failures[:3]:
        def bad(t, wc=wc, ind=ind):
            r = judge_program(t, wc, ind)
            return bool(r and r[0] and not classify_known(t, wc, ind, r[1]))
        small = shrink.shrink_text(text, bad, max_tests=600)
        r = judge_program(small, wc, ind)
        ctx.violation('%spretty output not indented by block depth / no single trailing newline: %s' % (
                      describe_regression(ind, r[1]), r[0][0]),
                      dict(text=small, with_comments=wc, indent=ind, output=r[1], problems=r[0], original=text), True)
    ctx.obligation('judge: indentation = indent x depth on every token-starting line, depth 0 at end, one trailing newline',
                   not failures, 'judge', '%d (program, comments, indent) outputs judged' % njudged)

    # ---- one printer OBJECT used again after a call that was abandoned half way (the generator dropped while inside nested
    # blocks) and after a call that raised inside a block (a node without definition): the property is about every pretty
    # output, also the n-th one of a printer
    if not failures:
        reused_printer_scenario(ctx, indents)

    # ---- tie
    if not getattr(ctx, 'drivers_ok', True):
        ctx.obligation('tie:S3', False, 'tie', 'driver not built')
        return
    trng = ctx.sub_rng('tie')
    tie_items = list(FIXED) + trng.sample(texts, min(len(texts), ctx.n(40, 600)))
    cfgs = ut.default_configs()
    diffs = ut.unparse_tie(ctx, tie_items, cfgs, record=False)
    diffs += ut.unparse_tie(ctx, hand_built_trees(trng), cfgs, record=False, texts=False)
    handle_diffs(ctx, diffs, cfgs)
    check_hypotheses(ctx, tie_items)


def check_hypotheses(ctx, items):
    """the decidable hypotheses of `ends_with_one_newline_partial` (tailSafe, tokensCleanB) evaluated by the model on
    every parsed program of the tie: they must hold for parser output (the theorem then applies to it)"""
    drv = ctx.driver('drv_unparse')
    bad = []
    bad_typed = []
    n = 0
    ntyped = 0
    for label, tree, wc in ut.parse_items(items):
        line = ut.tree_line(tree)
        for ind in ('N', "'%20;%20;", "'%9;"):
            rep = drv.ask('tailsafe indent %s %s' % (ind, line))
            n += 1
            if rep != 'OK T T':
                bad.append(dict(text=label, with_comments=wc, indent=ind, reply=rep))
            rep = drv.ask('linesok indent %s %s' % (ind, line))
            ctx.bump('linesok:' + rep)
            if rep != 'OK T T T T':
                bad.append(dict(text=label, with_comments=wc, indent=ind, reply=rep,
                                what='checkLines / lineStartsStable / tokensEdgeB / indentOK'))
        rep = drv.ask('treeok indent N %s' % line)
        ctx.bump('treeok:' + rep)
        if not rep.startswith('OK T T'):
            bad.append(dict(text=label, with_comments=wc, reply=rep, what='valAll lineSafe / braceFree'))
        rep = drv.ask('typedok indent N %s' % line)
        ctx.bump('typedok:' + rep)
        ntyped += 1
        if rep != 'OK T T':
            bad_typed.append(dict(text=label, with_comments=wc, reply=rep, what='wfVal (es5Slot) / valAll endsOK'))
    ctx.obligation('statement and hypotheses of pretty_lines_indented (checkLines, lineStartsStable, tokensEdgeB), '
                   'hypotheses of ends_with_one_newline_partial (tailSafe, tokensCleanB), other_lines_are_token_interiors '
                   '(valAll lineSafe) and level_is_structural_depth (valAll braceFree) hold on every parsed program', not bad,
                   'tie', '%d (tree, indent) pairs; first failures: %r' % (n, bad[:2]))
    ctx.obligation('tree-level hypotheses of pretty_lines_indented_typed / pretty_text_ends_with_one_newline_typed '
                   '(wfVal under the slot typing es5Slot, no string value ends with a line terminator) hold on every '
                   'parsed program', not bad_typed, 'tie',
                   '%d trees; first failures: %r' % (ntyped, bad_typed[:2]))


def handle_diffs(ctx, diffs, cfgs):
    """verdict logic: shrink a difference, run the judge on and around it; judge failure = violation with an input,
    otherwise the tie obligation is broken (reported with no-failing-input-found)"""
    by_id = dict((c.id, c) for c in cfgs)
    found = False
    for d in diffs[:3]:
        if d['text'] is None:
            continue
        cfg = by_id[d['config']]

        def differs(t, cfg=cfg, wc=d['with_comments']):
            return bool(ut.unparse_tie(ctx, [(t, wc)], [cfg], record=False, texts=True))
        small = shrink.shrink_text(d['text'], differs, max_tests=300)
        d['shrunk'] = small
        for ind in ut.INDENTS + ['    ']:
            for wc in (False, True):
                r = judge_program(small, wc, ind)
                if r and r[0] and not classify_known(small, wc, ind, r[1]):
                    ctx.violation('model/implementation difference whose shrunk case fails the judge: %s' % r[0][0],
                                  dict(text=small, with_comments=wc, indent=ind, output=r[1], problems=r[0], tie=d), True)
                    found = True
    ctx.obligation('tie:S3 fragment streams, real unparsers vs Model.Unparse (all rule sets, hand-built trees, sourcepaths)',
                   not [d for d in diffs if d['stage'] != 'S4'], 'tie',
                   'first differences: %r' % ([d for d in diffs if d['stage'] != 'S4'][:2],))
    ctx.obligation('tie:S4 printed text, pretty_print/minify_print vs Model.Unparse',
                   not [d for d in diffs if d['stage'] == 'S4'], 'tie',
                   'first differences: %r' % ([d for d in diffs if d['stage'] == 'S4'][:2],))
    return found


def replay(ctx, path):
    d = json.load(open(path))['replay']
    if 'text' not in d:
        print('replay file names broken obligations only:', json.dumps(d)[:2000])
        return 1
    r = judge_program(d['text'], d.get('with_comments', False), d.get('indent', '  '))
    if r is None:
        print('text does not parse')
        return 2
    problems, out = r
    print('output:')
    print(out)
    print('problems:', problems)
    try:
        from calmjs.parse.parsers.es5 import parse
        cfgs = [c for c in ut.default_configs() if c.ruleset == 'indent' and c.indent == d.get('indent', '  ')][:1]
        tree = parse(d['text'], with_comments=d.get('with_comments', False))
        for c in cfgs:
            real, names = ut.real_fragments(c, tree)
            model = ut.model_fragments(ctx, c, tree, names)
            print('model agrees with implementation:', ut.first_diff(real, model) is None)
    except Exception as e:
        print('model side not available: %s' % e)
    return 1 if problems else 0
