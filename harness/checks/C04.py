"""
C04  Automatic semicolon insertion follows ECMA-262 7.9 exactly.

proof   Props/C04: asi_grammar_facts, asi_twins_same_tree (kernel decisions over regenerated grammar + action table);
        Props/C04lex: auto_semi_decision, auto_semi_effect, pushed_back_token_is_next (lexer model, all states).
tie     S2 (text -> tree incl. every AUTOSEMI the implementation inserts) on ASI-heavy programs.
judge   semicolon-subset invariance against the independent reference parser: for generated programs, every sampled
        subset of statement terminators is omitted with every kind of separating layout; when the reference parser
        (ES5 7.9) reads the result as the same program, calmjs must read it as the same tree too; when the reference
        rejects it or reads another program, calmjs must agree with the reference.  Plus: the offsets at which
        calmjs inserts semicolons equal the reference's.
"""
import json

import genjs
import proto
import specclient
import treedump
from parts import kfclass, parsetie
from checks import C03

SPEC = dict(gen=['tables', 'actions', 'lexdata', 'unicodecat'], props=['CalmVerif.Props.C04', 'CalmVerif.Props.C04parse'],
            drivers=['drv_parse', 'drv_spec'], audit='Audit/C04.lean')

TERMS = ['\n', '\r', '\r\n', ' ', ' ']


def variants(rng, toks, n):
    """texts of the same token list with random subsets of the ASI-removable semicolons omitted"""
    out = []
    full = genjs.render(rng, toks, genjs.Layout('spaced'))
    out.append(('explicit', full))
    for _ in range(n):
        lo = genjs.Layout(rng.choice(['spaced', 'wild', 'min']), drop_semi=rng.choice([0.3, 0.6, 1.0]),
                          unicode_terms=True, unicode_spaces=False, comment_lines=rng.choice([0.0, 0.0, 0.4]))
        out.append(('omitted', genjs.render(rng, toks, lo)))
    return out


def calm_asi(text):
    """offsets at which the implementation inserted (and the parser consumed) a semicolon"""
    from calmjs.parse.parsers.es5 import Parser
    p = Parser()
    offs = []
    orig = p.lexer._create_semi_token

    def rec(tok):
        t = orig(tok)
        t._orig = tok
        return t
    p.lexer._create_semi_token = rec
    tree = p.parse(text)
    return tree


def run(ctx):
    ctx.rule('grammar-generated programs (G2) rendered with explicit semicolons and with random subsets of statement '
             'terminators omitted, separated by LF, CR, CRLF, U+2028 or U+2029 in spaced / minimal / wild layouts; ASI-specific '
             'corpus; each variant parsed by calmjs and by the Lean ES5.1 reference; non-trivial = at least one omitted semicolon; '
             'distinct by text')
    ctx.trusted += ['Lean 4.33 kernel', 'translators', 'Spec.Es5Parse section 7.9 implementation as the oracle']
    spec = specclient.Spec(ctx)
    C03.known_witnesses(ctx, spec)
    known_ids = {e['id'] for e in ctx.known_findings}
    rng = ctx.sub_rng('asi')
    texts = []
    opts = genjs.Opts(with_stmt=False, regex=True)
    n_prog = ctx.n(120, 1500)
    for _ in range(n_prog):
        g = genjs.Gen(rng, opts)
        toks = g.program()
        vs = variants(rng, toks, ctx.n(3, 6))
        texts.append(vs)
    hand = ['a\nb', 'a\n(b)', 'a\n[b]', 'a\n+b', 'return\na', 'a\n++\nb', 'x\n++y', 'if(a)b\nelse c', 'do x\nwhile(y)\nz', '{a\nb}',
            'var a\nvar b', 'var a = 1\n, b', 'throw\na', 'break\nx', 'for(a\n;b;c);', 'for(a;b\n;c);', 'a = b\n/c/d', 'a\n/re/.test(b)',
            'function f(){return\n}', 'continue\n', 'a\r\nb', 'a b', 'a b', '({}\n)', 'a;\n;b', 'if(a)\nelse b', 'while(a)\nb',
            'a\n.b', 'a\n,b', 'i\n--\nj', 'debugger\ndebugger', '{}\n[1]', 'x = function(){}\n(y)']
    # restricted productions and ordinary insertions with several terminators, blank lines and whole-line comments between
    # the two tokens (one insertion, never two; explicit and omitted forms must read the same)
    SEPS = ['\n\n', '\n \n', '\r\n\r\n', '\n//c\n', '\n/*c*/\n', '\n//c\n//d\n', ' //c\n', '\n\n\n', '\u2028\u2029', '\n\t\n//c\n\n']
    for sep in SEPS:
        for semi in ('', ';'):
            hand += ['function f(){return%s%sx}' % (semi, sep), 'function f(){return%s%s}' % (semi, sep),
                     'while(1){break%s%s}' % (semi, sep), 'while(1){continue%s%sx}' % (semi, sep),
                     'a:while(1){break a%s%sx}' % (semi, sep), 'switch(a){case 1:break%s%scase 2:}' % (semi, sep),
                     'function f(){throw a%s%sx}' % (semi, sep), 'a%s%sb' % (semi, sep), 'var a%s%svar b' % (semi, sep),
                     'do x%s%swhile(y)' % (semi, sep), 'if(a)b%s%selse c' % (semi, sep), 'a = b%s%s++c' % (semi, sep)]
    # a token that spans several lines is NOT a line terminator between its neighbours: no insertion after it
    for lt in ('\n', '\r', '\r\n', '\u2028', '\u2029'):
        hand += ["a = 'x\\%sy' b = 1" % lt, "a = 'x\\%sy'\nb = 1" % lt, "a = 'x\\%sy'; b = 1" % lt, "f('p\\%sq') g()" % lt,
                 "var s = 'm\\%sn' var t" % lt, "return_ = 'x\\%sy' + 1 c" % lt]
    for h in hand:
        texts.append([('hand', h)])
    # the converse direction: a semicolon omitted WITHOUT any line terminator must not be repaired
    # (except before `}` and at the end of input); tokens joined by single spaces
    for _ in range(ctx.n(120, 1200)):
        g = genjs.Gen(rng, genjs.Opts(with_stmt=False, regex=False, max_depth=2, max_stmts=3))
        toks = g.program()
        idx = [i for i, t in enumerate(toks) if t.semi]
        if not idx:
            continue
        i = rng.choice(idx)
        ts = [t.text for k, t in enumerate(toks) if k != i]
        texts.append([('omitted-no-newline', ' '.join(ts))])
    nvar = 0
    for vs in texts:
        ref_full = None
        for kind, text in vs:
            if not specclient.sendable(text):
                continue
            s = spec.parse(text)
            c = C03.calm(text)
            v = C03.verdict(c, s)
            nvar += 1
            ctx.case(text, nontrivial=kind != 'explicit')
            ctx.bump('asi:%s:%s' % (kind, v))
            if v in ('same', 'both-reject'):
                continue
            if v == 'crash' and s[0] != 'ok':
                continue
            if kfclass.classes(C03.tokenize_rough(text)) & known_ids:
                ctx.bump('asi:in-known-class')
                continue
            import shrink

            def bad(t):
                return specclient.sendable(t) and C03.verdict(C03.calm(t), spec.parse(t)) == v and not (
                    kfclass.classes(C03.tokenize_rough(t)) & known_ids)
            m = shrink.shrink_text(text, bad, 500)
            ctx.violation('semicolon insertion differs from ES5 7.9: calmjs %s' % v,
                          dict(text=m, original=text, calmjs=repr(C03.calm(m))[:500], reference=repr(spec.parse(m))[:500]))
            return
    ctx.sample(dict(variants=[t for _, t in texts[0]][:2]))
    if getattr(ctx, 'drivers_ok', True):
        flat = [t for vs in texts for _, t in vs]
        parsetie.full_tie(ctx, flat[:ctx.n(300, 3000)], with_comments=(False,))


def replay(ctx, path):
    return C03.replay(ctx, path)
