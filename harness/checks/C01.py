"""
C01  Pretty-printed output parses back to the same tree and is a fixpoint.

proof   lean/CalmVerif/Props/C01.lean over Model.Unparse with the regenerated Gen.Defs / Gen.Rules (see the file for the
        exact statements; `..._partial` theorems exclude exactly the classes of the known findings listed below).
typing  the hypothesis `wfVal` of the *_stream_typed theorems is evaluated by drv_rt on every tree printed (obligation
        'slot typing holds on every parsed tree').
tie     S3/S4 (parts/unparse_tie.py) real pretty printers vs Model.Unparse for six indent strings; S2 (parts/parsetie.py)
        real parser vs Model.Parser on the printed outputs.
judge   (always, on the implementation; parts/roundtrip.py)  for every program and indent string: the output is re-parsed
        by the real parser to a structurally identical tree (P1, P2), accepted by the independent ES5.1 reference parser
        (lean Spec.Es5Parse via drv_spec) with the identical structure (P3, P4), and pretty_print(parse(output)) == output
        byte for byte (P5).  With comments captured the same is required (comments are not part of the structure).
"""
import specclient
from parts import roundtrip as R
from parts import unparse_tie as ut

SPEC = dict(gen=['defs', 'rules', 'tables', 'actions', 'lexdata', 'unicodecat'], props=['CalmVerif.Props.C01', 'CalmVerif.Props.C01typed', 'CalmVerif.Props.C01tok', 'CalmVerif.Props.C01typed2'],
            drivers=['drv_unparse', 'drv_spec', 'drv_parse', 'drv_rt'], audit='Audit/C01.lean')


def jobs_of(text, indents=R.INDENTS, wc_indents=('  ', '\t')):
    out = [('pretty', text, False, i) for i in indents]
    out += [('pretty', text, True, i) for i in wc_indents]
    return out


def run(ctx):
    ctx.rule('programs: fixed list of every statement/expression form and literal spelling, /verif/corpus, repo test manifests '
             '(G1), grammar-generated programs (G2, genjs: every literal spelling, wild layouts with all line terminators, '
             'comments, ASI) in two size classes; each printed with indent strings "", " ", "  ", tab, " \\t", 4 spaces without '
             'comments and two indent strings with comments captured; judged P1..P5 (see module docstring); non-trivial = '
             'output longer than 3 characters; distinct by (text, comments flag, indent)')
    ctx.trusted += ['Lean 4.33 kernel', 'Spec.Es5Lex/Es5Parse as a reading of ECMA-262 5.1 (the conforming parser of the judge)',
                    'translators g_defs.py, g_rules.py, g_lexdata.py', 'harness parts/roundtrip.py, unparse_tie.py, parsetie.py']
    ctx.assumptions += ['indentation strings consist of spaces and tabs', 'texts are free of lone surrogates',
                        'the grammar layer (reference parser reads tokensOf(t) as t) rests on this judge, not on a theorem']
    spec = specclient.Spec(ctx)
    R.known_witnesses(ctx, spec)
    texts = R.program_texts(ctx, 'C01', ctx.n(60, 392), ctx.n(70, 1200))
    jobs = []
    rng = ctx.sub_rng('indents')
    for t in texts:
        if ctx.tier == 'quick':
            ind = [R.INDENTS[k] for k in sorted(rng.sample(range(len(R.INDENTS)), 3))]
            jobs += jobs_of(t, ind, (rng.choice(R.INDENTS),))
        else:
            jobs += jobs_of(t)
    res = R.judge_many(spec, jobs)
    bad, n = R.handle_results(ctx, spec, res, 'judge')
    ctx.sample(dict(text=R.FIXED[38], indent='\t', output=R.pretty(R.parse(R.FIXED[38]), '\t')))
    ctx.obligation('judge: output re-parses (real parser and ES5 reference) to the same structure and is a fixpoint', not bad,
                   'judge', '%d (program, comments, indent) cases judged; %d unexplained failures' % (n, len(bad)))
    R.slot_typing(ctx, spec, res)
    trng = ctx.sub_rng('tie')
    items = list(R.FIXED) + trng.sample(texts, min(len(texts), ctx.n(40, 800)))
    R.tie(ctx, spec, items, ut.pretty_configs(R.INDENTS), lambda t: jobs_of(t, ('  ', '\t'), ('  ',)))


def replay(ctx, path):
    return R.replay_case(ctx, path)
