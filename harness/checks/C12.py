"""
C12  Any input either parses or raises the ECMAScript syntax error, only.

proof   Props/C12: the lexer model terminates on every text within |text|+c steps (lexer_terminates, token_terminates),
        the LR driver model is total by construction (structural fuel) and deterministic; the outcome type of the model
        separates `syntax` / `regexSyntax` from `internal` (Python exceptions other than the library's) explicitly.
tie     S1 (token streams and exact error messages, run by C06) and S2b; here: outcome class of model lexer vs real.
judge   on the implementation: every input returns a tree or raises ECMASyntaxError / ECMARegexSyntaxError within a
        time limit, nothing else; the line:column quoted in a message designates a place where the quoted text occurs.
"""
import json
import re
import signal

import corpus
import genjs
from parts import parsetie, texts as T

SPEC = dict(gen=['tables', 'lexdata', 'actions'], props=['CalmVerif.Props.C12', 'CalmVerif.Props.C12parse', 'CalmVerif.Props.C12act', 'CalmVerif.Props.C12term', 'CalmVerif.Props.C12all', 'CalmVerif.Props.C12pos'], drivers=['drv_lex', 'drv_parse'], audit='Audit/C12.lean')

LEX_ALPHA = list("ab1 \n\t/*\"'\\{}();=+-.[],<>!&|?:") + ['\r', ' ', '\xa0', 'é', '0x', 'e', '﻿', '　', '//', '/*', '*/',
                                                             'in ', 'if', 'var ', 'return', '\\u', '\\x', '\\\n', '++', '/=', 'get ', '$', '_', '😀']


class Timeout(Exception):
    pass


def _alarm(signum, frame):
    raise Timeout()


def _worker(conn, items):
    for i, (text, wc) in enumerate(items):
        conn.send((i, run_one(text, wc, limit=0)))
    conn.send(None)
    conn.close()


def run_isolated(items, limit=10):
    """parse every (text, with_comments) in a forked child; the parent enforces the per-case time limit from outside
    (a C-level regex match cannot be interrupted by a signal handler); yields (index, result)"""
    import multiprocessing
    mp = multiprocessing.get_context('fork')
    start = 0
    while start < len(items):
        parent, child = mp.Pipe(duplex=False)
        proc = mp.Process(target=_worker, args=(child, items[start:]))
        proc.start()
        child.close()
        done = 0
        try:
            while True:
                if not parent.poll(limit):
                    proc.kill()
                    proc.join()
                    yield start + done, ('timeout',)
                    done += 1
                    break
                try:
                    msg = parent.recv()
                except EOFError:
                    msg = None
                    if proc.exitcode not in (0, None):
                        yield start + done, ('other', 'ProcessDied', 'worker exited with %s' % proc.exitcode)
                        done += 1
                        break
                if msg is None:
                    done = len(items) - start
                    break
                i, r = msg
                done = i + 1
                yield start + i, r
        finally:
            if proc.is_alive():
                proc.kill()
            proc.join()
        start += done


def run_one(text, with_comments=False, limit=10):
    from calmjs.parse.parsers.es5 import parse
    from calmjs.parse.exceptions import ECMASyntaxError
    if limit:
        signal.signal(signal.SIGALRM, _alarm)
        signal.alarm(limit)
    try:
        parse(text, with_comments=with_comments)
        return ('ok',)
    except ECMASyntaxError as e:
        return ('syntax', type(e).__name__, str(e))
    except Timeout:
        return ('timeout',)
    except RecursionError:
        return ('recursion',)
    except Exception as e:
        return ('other', type(e).__name__, str(e))
    finally:
        if limit:
            signal.alarm(0)


MSG_AT = re.compile(r"(?s)^(Unexpected|Illegal character|Mismatched|Error parsing regular expression|Unterminated string literal|"
                    r"Invalid (?:hexadecimal|unicode) escape sequence) (.*?) at (\d+):(\d+)")


def unrepr(q):
    """the text quoted in a message (Python repr of a str, or '...'-quoted raw text)"""
    import ast
    try:
        v = ast.literal_eval(q)
        if isinstance(v, str):
            return v
    except Exception:
        pass
    if len(q) >= 2 and q[0] == q[-1] and q[0] in '\'"':
        return q[1:-1]
    return None


def check_position(text, msg):
    """returns a complaint or None"""
    m = MSG_AT.match(msg)
    if not m:
        return None
    what, quoted, line, col = m.group(1), m.group(2), int(m.group(3)), int(m.group(4))
    if what in ('Error parsing regular expression', 'Mismatched') or what.startswith('Invalid'):
        tok = quoted[1:-1] if len(quoted) >= 2 else None      # these messages quote the raw text ('%s')
    else:
        tok = unrepr(quoted)
    if tok is None:
        return None
    if what == 'Unterminated string literal':
        tok = tok[:-3] if tok.endswith('...') else tok
        tok = tok.strip()
    starts = T.es5_lines(text)
    if not (1 <= line <= len(starts)):
        return 'line %d does not exist (message %r)' % (line, msg[:80])
    off = starts[line - 1] + col - 1
    if not text.startswith(tok, off):
        return 'text at %d:%d is %r, message quotes %r' % (line, col, text[off:off + len(tok) + 3], tok)
    return None


# parsed FIRST, in this order, in the worker process (the worker parses all its items one after the other through the
# module-level parse(), so what an earlier text leaves behind meets the later ones): closers without opener at depth 0, broken
# literals and comments, each followed by plain valid programs
SEQ_FIRST = ['f(a));', 'var a;', ')', 'x = 1;', 'b = [1]];', 'c;', '}', 'd = {};', 'if (a)) b;', 'if (e) f;', 'g(', 'h;', "'open", 'i;',
             '/* open', 'j;', 'k = /[/;', 'l;', 'm.', 'this.n = 1;', 'f(x)', '/re/.test(o);', 'p = q\n++', 'r;']


def inputs(ctx):
    rng = ctx.sub_rng('inputs')
    out = list(SEQ_FIRST)
    out += [e['text'] if isinstance(e, dict) else e for e in corpus.extra('C12')]
    # a syntax error AFTER a token that spans lines (regex literals with raw line terminators are accepted by the lexer, block
    # comments, strings with continuations): the position in the message must be counted through that token
    for lt in ('\n', '\r', '\r\n', '\u2028', '\u2029'):
        out += ['var re = /a%sb/;%sfoo bar;' % (lt, lt), 'x = /[%s]/g; y z' % lt, '{}%s/a%sb/ c d' % (lt, lt), '/%s/)' % lt,
                'a++%s/%s%s/ 1 2' % (lt, lt, lt), '/* a%sb */ c d' % lt, "s = 'a\\%sb' t" % lt, 'x = /a%sb/; "open' % lt,
                'x = /a%sb/; @' % lt, 'x = /a%sb/; y = /[' % lt, "x = /a%sb/; '\\xzz'" % lt]
    base = rng.sample(corpus.g1_valid(), ctx.n(40, 392))
    for t in base:
        out.append(t)
        # truncations
        cuts = range(1, len(t)) if len(t) < ctx.n(60, 400) else sorted(rng.sample(range(1, len(t)), ctx.n(20, 150)))
        for c in cuts:
            out.append(t[:c])
        # single-character corruptions
        for _ in range(ctx.n(10, 60)):
            i = rng.randrange(len(t)) if t else 0
            k = rng.randrange(3)
            ch = rng.choice(LEX_ALPHA)
            out.append(t[:i] + ch + t[i + 1:] if k == 0 else (t[:i] + ch + t[i:] if k == 1 else t[:i] + t[i + 1:]))
    # all short strings over the lexical alphabet
    import itertools
    for k in (1, 2):
        for c in itertools.product(LEX_ALPHA, repeat=k):
            out.append(''.join(c))
    n3 = ctx.n(4000, 60000)
    for _ in range(n3):
        out.append(''.join(rng.choice(LEX_ALPHA) for _ in range(rng.choice([3, 3, 4, 5, 8]))))
    out += corpus.g1_invalid()
    # long runs of plain characters inside broken literals (catastrophic backtracking shows as a time-out)
    for n in (24, 40, 64, 200):
        body = 'abcdefghij' * (n // 10 + 1)
        body = body[:n]
        out += ['"' + body, "'" + body, 'x = "' + body + '\\q', "y = '" + body + "\n'", '/' + body, '/[' + body, '/*' + body,
                'var s = "' + body + '" + "' + body, body + ' "' + body]
    for text, toks, lo in genjs.programs(rng, ctx.n(60, 600), layouts=[genjs.Layout('wild', comments=0.2, comments_at_asi=True,
                                                                                    comments_before_regex=True, unicode_terms=True,
                                                                                    unicode_space_before_regex=True)]):
        out.append(text)
        out += list(genjs.token_mutations(rng, toks, 2))
    return out


def classify(ctx, text, res):
    ids = {e['id'] for e in ctx.known_findings}
    return None


def run(ctx):
    ctx.rule('all truncations and single-character corruptions of G1 programs, all strings of length <= 2 and sampled strings of '
             'length 3-8 over a %d-symbol lexical alphabet (incl. Unicode white space, line terminators, escapes, astral characters), '
             'G2 programs in hostile layouts and their token mutations; each parsed with and without comment capture under a time '
             'limit; non-trivial = length > 1; distinct by text' % len(LEX_ALPHA))
    ctx.trusted += ['Lean 4.33 kernel', 'lexer model tied by S1 (C06)', 'LR driver termination: structural fuel in the model; on the '
                    'implementation non-termination is only excluded by the per-case time limit (no theorem that the fuel suffices)']
    ctx.assumptions += ['well-formed Unicode scalar sequences; Python recursion limit not modelled (deeply nested inputs are not generated)']
    texts = inputs(ctx)
    nbad = 0
    items = [(text, wc) for text in texts for wc in (False, True)]
    for idx, r in run_isolated(items, limit=10):
        if True:
            text, wc = items[idx]
            ctx.case((wc, text), nontrivial=len(text) > 1)
            ctx.bump('outcome:' + r[0] + (':' + r[1] if r[0] in ('syntax', 'other') else ''))
            if r[0] in ('ok',):
                continue
            if r[0] == 'syntax':
                c = check_position(text, r[2])
                if c:
                    kf = position_known(ctx, text, c)
                    if kf:
                        ctx.known(kf[0], kf[1])
                        continue
                    ctx.violation('syntax error position does not designate the quoted text: ' + c,
                                  dict(text=text, with_comments=wc, message=r[2]))
                    return
                continue
            ctx.violation('parse(%r...) %s' % (text[:30], {'timeout': 'did not terminate within the time limit',
                                                          'recursion': 'raised RecursionError',
                                                          'other': 'raised %s' % (r[1] if len(r) > 1 else '')}[r[0]]),
                          dict(text=text, with_comments=wc, outcome=r,
                               history=[[t, w] for t, w in items[:idx]] if idx < 2 * len(SEQ_FIRST) else None))
            return
    ctx.sample(dict(text=texts[len(texts) // 2][:80], outcome=run_one(texts[len(texts) // 2])[0]))
    # the tie runs the implementation in-process, so it comes after the isolated judge has shown that every input terminates
    if getattr(ctx, 'drivers_ok', True):
        rng = ctx.sub_rng('tie')
        parsetie.full_tie(ctx, rng.sample(texts, min(len(texts), ctx.n(1500, 12000))))


def position_known(ctx, text, complaint):
    ids = {e['id'] for e in ctx.known_findings}
    if 'KF-06a' in ids and (' ' in text or ' ' in text):
        return ('KF-06a', 'error position counted without the U+2028/U+2029 line terminators the lexer treats as white space')
    return None


def replay(ctx, path):
    d = json.load(open(path))['replay']
    for t, w in (d.get('history') or []):       # texts parsed earlier in the same process (module-level parse())
        run_one(t, w)
    r = run_one(d['text'], d.get('with_comments', False))
    print('outcome:', r)
    if r[0] == 'syntax':
        c = check_position(d['text'], r[2])
        print('position complaint:', c)
        return 1 if c else 0
    return 0 if r[0] == 'ok' else 1
