"""
C17  Cached-table and freshly built parsers behave identically.

proof      Props/C17: decide +kernel equality of the three regenerated table sets (+ lexer rule order),
           configs_agree for every input of the LR driver model.
tie        S2 across configurations: the real parsers built (a) from the generated modules, (b) in memory with
           optimisation off, (c) after optimize.reoptimize — same result (tree with positions / error) on every text;
           S2a: ply's driver vs Model.LR on recorded traces under each table set.
judge      the same comparison *is* the property on the implementation.
"""
import random

import corpus
import genjs
import proto
import stages
import json
import treedump
from parts import lrtie

SPEC = dict(gen=['tables'], props=['CalmVerif.Props.C17'], drivers=['drv_lr'], audit='Audit/C17.lean')


def result_of(parser, text):
    try:
        t = parser.parse(text)
        return ('ok', proto.render(treedump.dump(t, pos=True, tokmap=True, comments=True)))
    except Exception as e:
        return ('err', type(e).__name__, str(e))


def texts_for(ctx):
    rng = ctx.sub_rng('texts')
    texts = list(corpus.extra('C17'))
    g1 = corpus.g1_valid()
    texts += rng.sample(g1, ctx.n(60, len(g1)))
    texts += rng.sample(corpus.g1_invalid(), ctx.n(15, len(corpus.g1_invalid())))
    stats = {}
    for text, toks, lo in genjs.programs(rng, ctx.n(60, 600), stats=stats):
        texts.append(text)
        if rng.random() < 0.3:
            texts += list(genjs.token_mutations(rng, toks, 1))
    for k, v in stats.items():
        ctx.bump('gen:' + k, v)
    # comments of every shape (the comment rules belong to the lexer tables too): trailing blanks, controls, openers inside,
    # at end of input, every terminator
    for body in ['', ' note', ' note  \t', ' x \x85', '\xa0', ' /* in */ ', ' \\', '*/', ' é\u2003', '\t\x0b\x0c ']:
        for lt in ('\n', '\r', '\r\n', '\u2028', '\u2029', ''):
            texts.append('a = 1; //%s%sb = 2;' % (body, lt) if lt else 'a = 1; //%s' % body)
        texts.append('/*%s*/ c = 3; /*%s\n%s*/ d;' % (body.replace('*/', '* /'), body.replace('*/', '*'), body.replace('*/', '')))
    # every printable ASCII character and some two / three character openers at the very START of a text and after a line
    # break (illegal characters, hashbang, HTML comment openers ...: error paths of the lexer tables differ in what they check)
    for op in [chr(c) for c in range(0x21, 0x7f) if not chr(c).isalnum()] + ['#!', '#!/usr/bin/env node', '<!--', '-->', '@@', '\\u0061',
                                                                             '\ufeff#!', '#! x\n#!']:
        texts.append(op + ' var a = 1;')
        texts.append(op + '\nb = 2;')
        texts.append('c;\n' + op + ' d')
        texts.append(op)
    # raw malformed stream
    for _ in range(ctx.n(20, 200)):
        texts.append(''.join(rng.choice('ab1 \n/*"\'\\{}();=+.[],é\u2028') for _ in range(rng.randint(1, 12))))
    return texts


GEN_ORDER_CHILD = r"""
import json, sys
sys.path.insert(0, %(harness)r)
import boot; boot.boot()
from calmjs.parse.parsers import es5
first = %(first)r
if first == 'poison':
    # the first parser of the process (it generates and loads the modules) fails on broken literals before anything else
    for _ in range(3):          # the parser that generates the modules, the first ones that load them
        p0 = es5.Parser()
        for bad in ('var re = /abc', 'x = /[a-z/g', 'y = "unterminated', 'z = 1 /* open'):
            try:
                p0.parse(bad)
            except Exception:
                pass
else:
    es5.Parser(with_comments=first)        # generates lextab / yacctab in this scratch copy
import treedump, proto
out = []
for text in json.load(open(%(probes)r)):
    for wc in (False, True):
        try:
            t = es5.Parser(with_comments=wc).parse(text)
            out.append(['ok', proto.render(treedump.dump(t, pos=True, tokmap=True, comments=True))])
        except Exception as e:
            out.append(['err', type(e).__name__, str(e)])
json.dump(out, sys.stdout)
"""


def generation_order_probe(texts):
    """None, or a dict describing the first probe on which the two generation orders differ"""
    import os
    import subprocess
    import sys
    import tempfile
    probes = [t for t in texts if '//' in t or '/*' in t][:120] + texts[:40]
    fd, pf = tempfile.mkstemp(suffix='.json')
    os.close(fd)
    try:
        json.dump(probes, open(pf, 'w'))
        outs = {}
        for first in (False, True, 'poison'):
            code = GEN_ORDER_CHILD % dict(harness=os.path.dirname(os.path.dirname(os.path.abspath(__file__))), first=first,
                                          probes=pf)
            r = subprocess.run([sys.executable, '-c', code], stdout=subprocess.PIPE, stderr=subprocess.PIPE, timeout=600)
            if r.returncode != 0:
                return dict(error='child failed', first=first, stderr=r.stderr.decode('utf8', 'replace')[-600:])
            outs[first] = json.loads(r.stdout.decode('utf8'))
        for i, (a, b, c) in enumerate(zip(outs[False], outs[True], outs['poison'])):
            if a != b:
                return dict(text=probes[i // 2], with_comments=bool(i % 2), generated_by_default_parser=a,
                            generated_by_comment_parser=b)
            if a != c:
                return dict(text=probes[i // 2], with_comments=bool(i % 2), fresh_process=a,
                            process_whose_first_parser_failed_on_broken_literals=c)
        return None
    finally:
        os.unlink(pf)


def run(ctx):
    from calmjs.parse.parsers import es5, optimize
    import importlib
    import sys
    ctx.rule('texts: repo test manifests (G1), grammar-generated programs with random layout (G2), their single-token '
             'mutations (G4), random malformed strings (G5); each parsed by three parser configurations x comment flag; '
             'non-trivial = more than one token; distinct by (config, token-type trace)')
    ctx.trusted += ['Lean 4.33 kernel (decide +kernel over the regenerated tables)',
                    'translator harness/gen/g_tables.py (reflects ply parser objects of the three configurations)',
                    'that the LR tables and lexer rule lists are the only configuration-dependent inputs of parsing is '
                    'validated by the tie, not proved']
    ctx.assumptions += ['ply 3.11 as installed in /venv', 'optimize.reoptimize is run on the scratch copy of /repo/src only']
    texts = texts_for(ctx)
    # process history that must not matter to any configuration: the FIRST parser that loads the generated modules fails on
    # a broken regular-expression literal (its lexer is left in the `regex` state), every kind of printer has been
    # constructed (the obfuscating one reads the lexer's keyword table)
    from calmjs.parse.unparsers import es5 as unparsers_es5
    first = es5.Parser()
    for bad in ('var re = /abc', 'x = /[a-z/g', 'y = "unterminated'):
        result_of(first, bad)
    for mk in (unparsers_es5.pretty_printer, unparsers_es5.minify_printer,
               lambda: unparsers_es5.minify_printer(obfuscate=True, obfuscate_globals=True, shadow_funcname=True, drop_semi=True)):
        mk()
    texts = ['var let = 1, static = 2; yield = let + static;', 'function f(package, interface) { return public.private; }',
             'implements: for (;;) break implements;'] + texts
    parsers = {}
    for wc in (False, True):
        parsers[('cached', wc)] = es5.Parser(with_comments=wc)
        parsers[('fresh', wc)] = es5.Parser(lex_optimize=False, yacc_optimize=False, with_comments=wc)
    optimize.reoptimize(es5)
    for name in (es5.lextab, es5.yacctab):
        sys.modules.pop(name, None)
    importlib.invalidate_caches()
    for wc in (False, True):
        parsers[('reopt', wc)] = es5.Parser(with_comments=wc)
    n = 0
    for text in texts:
        for wc in (False, True):
            base = result_of(es5.Parser(with_comments=wc), text)
            for cfg in ('cached', 'fresh', 'reopt'):
                # a fresh parser object per parse: parser objects are stateful (C15), purity across calls is not C17's subject
                if cfg == 'fresh':
                    p = es5.Parser(lex_optimize=False, yacc_optimize=False, with_comments=wc)
                else:
                    p = es5.Parser(with_comments=wc)
                r = result_of(p, text)
                n += 1
                ctx.case((cfg, wc, text), nontrivial=len(text.split()) > 1 or len(text) > 3)
                if r != base:
                    ctx.violation('configuration %s (with_comments=%s) disagrees with the generated-module parser' % (cfg, wc),
                                  dict(text=text, config=cfg, with_comments=wc, cached=base, other=r))
                    return
    # the generated modules must not depend on WHICH parser configuration happened to generate them: in two fresh scratch
    # copies the modules are generated by a default parser resp. by a comment-capturing parser; both then parse the same
    # probes with both flags through parsers that load the modules
    order = generation_order_probe(texts)
    ctx.case(('generation-order',), nontrivial=True)
    if order:
        ctx.violation('generated table modules depend on the configuration of the parser that generated them', order)
        return
    # rarely used constructor options must not couple parser objects of the cached configurations: a parser built with
    # its own asttypes factory, then another default parser, then parse with the first
    from calmjs.parse.factory import AstTypesFactory
    from calmjs.parse.unparsers.es5 import minify_print
    from calmjs.parse.walkers import ReprWalker
    custom = AstTypesFactory(minify_print, ReprWalker())
    probe = 'var a = 1 + 2;  function f ( x ) { return x ; }'
    outs = {}
    for cfg in ('cached', 'fresh'):
        kw = dict(lex_optimize=False, yacc_optimize=False) if cfg == 'fresh' else {}
        p1 = es5.Parser(asttypes=custom, **kw)
        p2 = es5.Parser(**kw)
        t1 = p1.parse(probe)
        t2 = p2.parse(probe)
        p3 = es5.Parser(asttypes=custom, **kw)
        outs[cfg] = (str(t1), str(t2), str(p3.parse(probe)), str(p2.parse(probe)))
        ctx.case(('asttypes-option', cfg), nontrivial=True)
    if outs['cached'] != outs['fresh']:
        ctx.violation('parsers built with a custom asttypes factory behave differently under the generated-module tables',
                      dict(text=probe, cached=outs['cached'], fresh=outs['fresh']))
        return
    ctx.sample(dict(text=texts[0][:200], configs=['cached', 'fresh', 'reopt'], result=result_of(es5.Parser(), texts[0])[0]))
    ctx.bump('texts', len(texts))
    ctx.obligation('tie:S2 three configurations give identical trees/errors', True, 'tie', '%d parses compared' % n)
    if getattr(ctx, 'drivers_ok', True):
        lrtie.lr_tie(ctx, texts[:ctx.n(150, 2000)], cfgs=('cached', 'fresh', 'reopt'))


def replay(ctx, path):
    import json
    from calmjs.parse.parsers import es5
    d = json.load(open(path))['replay']
    text = d['text']
    a = result_of(es5.Parser(with_comments=d.get('with_comments', False)), text)
    b = result_of(es5.Parser(lex_optimize=False, yacc_optimize=False, with_comments=d.get('with_comments', False)), text)
    print('cached:', a)
    print('fresh :', b)
    return 0 if a == b else 1
