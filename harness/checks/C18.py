"""
C18  Stream read/write helpers: same output, valid map link, no leaked streams.

tie S10   : instrumented stream doubles around the REAL io.read / io.write (real parsers and printers);
            a fault-free run counts the primitive calls, then EVERY fault point of every primitive kind
            is enumerated; the real event trace + outcome is compared with the model (`drv_io`), whose
            uninterpreted functions (normrel, json, base64, repr, the pure part of sourcemap.write) are
            evaluated here with independent/real lower-level functions.
judge     : directly on the real traces, independent of the model (closing discipline, propagation,
            output text == printer text + URL comment, URL / data URL designate the lower-level map,
            read sets sourcepath).
"""
from __future__ import print_function

import base64 as _base64
import io as _pyio
import json as _json
import posixpath
import re

import proto
from proto import Node as PN

SPEC = dict(gen=[], props=['CalmVerif.Props.C18'], drivers=['drv_io'], audit='Audit/C18.lean')

MISSING = object()
OUT_SID, SM_SID, IN_SID = 1, 2, 1
OUT_FID, SM_FID, IN_FID = 0, 1, 0
TREE_ID = 7


# --------------------------------------------------------------------------
# instrumented doubles
# --------------------------------------------------------------------------

class Injected(object):
    """description of the exception a fault raises (JSON friendly)"""
    KINDS = ('IOError', 'RuntimeError', 'ValueError', 'ECMASyntaxError', 'ECMARegexSyntaxError', 'KeyboardInterrupt')


def make_exc(kind, msg):
    from calmjs.parse import exceptions
    cls = {
        'IOError': IOError, 'RuntimeError': RuntimeError, 'ValueError': ValueError,
        'KeyboardInterrupt': KeyboardInterrupt,
        'ECMASyntaxError': exceptions.ECMASyntaxError,
        'ECMARegexSyntaxError': exceptions.ECMARegexSyntaxError,
    }[kind]
    return cls(msg)


class Rec(object):
    """event log + occurrence counters + fault spec"""

    def __init__(self, faults=()):
        # faults: list of (prim_key, k or None, kind, msg)
        self.events = []
        self.counts = {}
        self.faults = list(faults)
        self.raised = []     # exception objects raised by injection / recorded natural faults

    def tick(self, prim):
        k = self.counts.get(prim, 0)
        self.counts[prim] = k + 1
        for (p, fk, kind, msg) in self.faults:
            if p == prim and (fk is None or fk == k):
                e = make_exc(kind, msg)
                self.events.append(('fault', prim, k, e))
                self.raised.append(e)
                raise e
        return k

    def natural(self, prim, k, e):
        self.events.append(('fault', prim, k, e))
        self.raised.append(e)


class Stream(object):
    def __init__(self, rec, sid, name=MISSING, encoding=MISSING, truthy=True, text=None):
        self._rec, self._sid, self._name, self._encoding, self._truthy, self._text = \
            rec, sid, name, encoding, truthy, text

    def __repr__(self):
        return '<StreamDouble %d>' % self._sid

    def __bool__(self):
        return self._truthy

    @property
    def name(self):
        self._rec.tick(('getName', self._sid))
        if self._name is MISSING:
            raise AttributeError('name')
        return self._name

    @property
    def encoding(self):
        self._rec.tick(('getEncoding', self._sid))
        if self._encoding is MISSING:
            raise AttributeError('encoding')
        return self._encoding

    def read(self):
        self._rec.tick(('read', self._sid))
        self._rec.events.append(('read', self._sid))
        return self._text

    def write(self, x):
        self._rec.tick(('write', self._sid))
        self._rec.events.append(('wrote', self._sid, x))

    def writelines(self, xs):
        xs = list(xs)
        self._rec.tick(('writelines', self._sid))
        self._rec.events.append(('wrotelines', self._sid, xs))

    def close(self):
        self._rec.tick(('close', self._sid))
        self._rec.events.append(('closed', self._sid))


class Factory(object):
    def __init__(self, rec, fid, stream, truthy=True):
        self._rec, self._fid, self._stream, self._truthy = rec, fid, stream, truthy

    def __bool__(self):
        return self._truthy

    def __call__(self):
        self._rec.tick(('factory', self._fid))
        self._rec.events.append(('opened', self._fid, self._stream._sid))
        return self._stream


class Sink(object):
    def write(self, x):
        pass


class ModShim(object):
    """stands for a module (json / base64) inside calmjs.parse.sourcemap; ticks a primitive"""

    def __init__(self, real, rec, **hooks):
        self._real, self._rec, self._hooks = real, rec, hooks

    def __getattr__(self, name):
        f = getattr(self._real, name)
        if name in self._hooks:
            prim = self._hooks[name]
            rec = self._rec

            def g(*a, **kw):
                rec.tick(prim)
                return f(*a, **kw)
            return g
        return f


# --------------------------------------------------------------------------
# independent path logic (posix)
# --------------------------------------------------------------------------

def _norm_parts(p):
    out = []
    for c in p.split('/'):
        if c in ('', '.'):
            continue
        if c == '..':
            if out:
                out.pop()
            continue
        out.append(c)
    return out


def normrel_indep(base, target):
    """relative path from the directory of `base` to `target` when both are absolute, else `target`"""
    if not (base.startswith('/') and target.startswith('/')):
        return target
    b = _norm_parts(base)[:-1]
    t = _norm_parts(target)
    i = 0
    while i < len(b) and i < len(t) and b[i] == t[i]:
        i += 1
    rel = ['..'] * (len(b) - i) + t[i:]
    return '/'.join(rel) if rel else '.'


def resolve(from_name, rel):
    """the path `rel` designates when found in the file `from_name`"""
    return posixpath.normpath(posixpath.join(posixpath.dirname(from_name), rel))


# --------------------------------------------------------------------------
# cases
# --------------------------------------------------------------------------

PRINTERS = ('pretty', 'minify')
NAMES = {
    'abs': ('/tmp/build/out/app.js', '/tmp/build/maps/app.js.map', '/tmp/src/lib/app.src.js'),
    'abs2': ('/srv/www/static/app.min.js', '/srv/www/static/app.min.js.map', '/srv/project/src/app.js'),
    'rel': ('app.js', 'app.js.map', 'src/app.src.js'),
    'missing': (MISSING, MISSING, MISSING),
    'mixed': ('/tmp/build/out/app.js', 'app.js.map', '/tmp/src/lib/app.src.js'),
    'reldirs': ('build/app.js', 'build/maps/app.js.map', 'src/app.src.js'),
    'relsub': ('build/app.js', 'build/app.js.map', 'build/app.src.js'),
    'dots': ('/tmp/build/./out/../out/app.js', '/tmp/build/maps/x/../app.js.map', '/tmp/src/../src/lib/app.src.js'),
    # directory names that are string prefixes of sibling names (path components, not characters, decide what is relative)
    'sibling': ('/srv/project/app/foo.min.js', '/srv/project/app.maps/foo.min.js.map', '/srv/project/app-src/foo.js'),
    'sibling2': ('/p/build/o.js', '/p/build.js.map', '/p/build-src/o.src.js'),
}


def get_printer(name):
    from calmjs.parse.unparsers import es5 as u
    return {'pretty': u.pretty_printer, 'minify': u.minify_printer}[name]()


def parse_src(text, srcname):
    """parse through the real io.read so that sourcepath is set the way the library does it"""
    from calmjs.parse.parsers import es5
    from calmjs.parse import io as cio
    key = (text, None if srcname is MISSING else srcname)
    if key not in _TREES:
        s = _pyio.StringIO(text)
        if srcname is not MISSING:
            s.name = srcname
        _TREES[key] = cio.read(es5.parse, s)
    return _TREES[key]


_TREES = {}


def build_nodes(case):
    """case['nodes']: list of items: {'t': text} (a Node) or {'x': repr-able non node}; case['shape']"""
    srcname = NAMES[case['names']][2]
    items = []
    for it in case['items']:
        if 't' in it:
            items.append(parse_src(it['t'], srcname))
        else:
            items.append(it['x'])
    shape = case['shape']
    if shape == 'single':
        return items[0], items
    if shape == 'list':
        return items, items
    if shape == 'tuple':
        return tuple(items), items
    if shape == 'gen':
        return (x for x in items), items
    if shape == 'none':
        return None, []
    if shape == 'int':
        return 42, []
    if shape == 'str':
        return 'var x;', [c for c in 'var x;']
    raise ValueError(shape)


def is_node(x):
    from calmjs.parse.asttypes import Node
    return isinstance(x, Node)


class WriteRun(object):
    """one run of the real io.write under a fault spec"""

    def __init__(self, case, faults=()):
        from calmjs.parse import io as cio, sourcemap
        self.case = case
        rec = self.rec = Rec(faults)
        names = NAMES[case['names']]
        enc = case.get('encoding', None)
        enc = MISSING if enc is None else enc
        self.out = Stream(rec, OUT_SID, names[0], enc, truthy=case.get('out_truthy', True))
        self.sm = Stream(rec, SM_SID, names[1], MISSING)
        self.streams = {OUT_SID: self.out, SM_SID: self.sm}
        out_arg = Factory(rec, OUT_FID, self.out) if case['out'] == 'factory' else self.out
        smk = case['sm']
        if smk == 'none':
            sm_arg = None
        elif smk == 'same':
            sm_arg = out_arg
        elif smk == 'factory':
            sm_arg = Factory(rec, SM_FID, self.sm, truthy=case.get('sm_truthy', True))
        else:
            self.sm._truthy = case.get('sm_truthy', True)
            sm_arg = self.sm
        printer = get_printer(case['printer'])
        nodes_arg, items = build_nodes(case)
        self.items = items

        def gen(node):
            it = iter(printer(node))
            while True:
                rec.tick(('fragment',))
                try:
                    f = next(it)
                except StopIteration:
                    return
                yield f

        def unparser(node):
            rec.tick(('unparse',))
            return gen(node)

        kw = {}
        if case['url'] == 'none':
            kw['source_mapping_url'] = None
        elif case['url'] != 'default':
            kw['source_mapping_url'] = case['url']
        kw['sourcemap_normalize_paths'] = case['normP']
        kw['sourcemap_normalize_mappings'] = case['normM']
        real_json, real_b64 = sourcemap.json, sourcemap.base64
        sourcemap.json = ModShim(real_json, rec, dumps=('serialise',))
        sourcemap.base64 = ModShim(real_b64, rec, b64encode=('b64',))
        self.exc = None
        self.ret = MISSING
        try:
            try:
                self.ret = cio.write(unparser, nodes_arg, out_arg, sm_arg, **kw)
            except BaseException as e:    # noqa: the helpers must propagate anything
                self.exc = e
        finally:
            sourcemap.json, sourcemap.base64 = real_json, real_b64


class ReadRun(object):
    def __init__(self, case, faults=()):
        from calmjs.parse import io as cio
        from calmjs.parse.parsers import es5
        self.case = case
        rec = self.rec = Rec(faults)
        name = {'abs': '/tmp/src/lib/app.src.js', 'rel': 'lib/app.src.js', 'missing': MISSING, 'empty': ''}[case['name']]
        self.name = name
        self.src = Stream(rec, IN_SID, name, MISSING, text=case['text'])
        self.streams = {IN_SID: self.src}
        arg = Factory(rec, IN_FID, self.src) if case['stream'] == 'factory' else self.src
        pk = case['parser']
        if pk == 'parse':
            real = es5.parse
        elif pk == 'Parser':
            real = es5.Parser().parse
        else:
            real = lambda t: es5.parse(t, with_comments=True)    # noqa
        self.parsed = []

        def parser(text):
            k = rec.tick(('parse',))
            try:
                r = real(text)
            except Exception as e:
                rec.natural(('parse',), k, e)
                raise
            self.parsed.append(r)
            return r

        self.exc = None
        self.ret = MISSING
        try:
            self.ret = cio.read(parser, arg)
        except BaseException as e:    # noqa
            self.exc = e


# --------------------------------------------------------------------------
# model side: request building, reply evaluation
# --------------------------------------------------------------------------

class Client(object):
    """Pipelined client on framework.Driver: Util/Loop.lean flushes stdout only on `#flush`, so every batch
    ends with it; batches are cut by request bytes so that the whole batch fits the stdin pipe (64 KiB) and
    writer and reader cannot dead-lock."""
    LIMIT = 40000

    def __init__(self, drv):
        self.drv = drv

    def _batch(self, lines):
        import framework
        p = self.drv.p
        p.stdin.write('\n'.join(lines) + '\n#flush\n')
        p.stdin.flush()
        out = []
        for _ in lines:
            r = p.stdout.readline()
            if not r:
                raise framework.Infra('driver %s died' % self.drv.name)
            out.append(r.rstrip('\n'))
        if p.stdout.readline().rstrip('\n') != '#flushed':
            raise framework.Infra('driver %s lost synchronisation' % self.drv.name)
        self.drv.n += len(lines)
        return out

    def ask_many(self, lines):
        res, cur, size = [], [], 0
        for l in lines:
            assert '\n' not in l
            n = len(l.encode('utf8')) + 1
            if cur and size + n > self.LIMIT:
                res.extend(self._batch(cur))
                cur, size = [], 0
            cur.append(l)
            size += n
        if cur:
            res.extend(self._batch(cur))
        return res

    def ask(self, line):
        return self.ask_many([line])[0]


def exc_tuple(e):
    from calmjs.parse.exceptions import ECMASyntaxError
    return (type(e).__name__, str(e), isinstance(e, ECMASyntaxError))


def prim_node(p):
    kind = p[0]
    if kind == 'factory':
        return PN('factory', [('f', p[1])])
    if kind in ('read', 'getName', 'getEncoding', 'write', 'writelines', 'close'):
        return PN(kind, [('s', p[1])])
    return PN(kind, [])


def prim_of_node(n):
    if n.kind == 'factory':
        return ('factory', n.get('f'))
    if n.attrs:
        return (n.kind, n.get('s'))
    return (n.kind,)


def fault_nodes(faults, natural=()):
    out = []
    for (p, k, kind, msg) in faults:
        e = make_exc(kind, msg)
        c, m, s = exc_tuple(e)
        out.append(PN('P', [('prim', prim_node(p)), ('k', k), ('cls', c), ('msg', m), ('syn', s)]))
    for (p, k, e) in natural:
        c, m, s = exc_tuple(e)
        out.append(PN('P', [('prim', prim_node(p)), ('k', k), ('cls', c), ('msg', m), ('syn', s)]))
    return out


def opt(x):
    return None if x is MISSING else x


def lowlevel(case, items):
    """the lower-level API on a separate run of the same printer: fragments, text, (mappings, sources, names)"""
    from itertools import chain
    from calmjs.parse import sourcemap
    printer = get_printer(case['printer'])
    gens = [list(printer(n)) for n in items if is_node(n)]
    text = ''.join(f[0] for g in gens for f in g)
    triple = None
    if gens:
        triple = sourcemap.write(chain(*[get_printer(case['printer'])(n) for n in items if is_node(n)]),
                                 Sink(), normalize=case['normM'])
    return gens, text, triple


def write_request(case, run, low, faults):
    gens, text, triple = low
    shape = case['shape']

    def gnode(g):
        return [[l for l in f[0].splitlines(True)] for f in g]
    if shape == 'single':
        nodes = PN('single', [('g', gnode(gens[0]))])
    elif shape in ('list', 'tuple', 'gen', 'str'):
        gi = iter(gens)
        nodes = PN('many', [('items', [gnode(next(gi)) if is_node(x) else None for x in run.items])])
    else:
        nodes = PN('other', [])
    out = PN('factory', [('f', OUT_FID), ('s', OUT_SID)]) if case['out'] == 'factory' else PN('obj', [('s', OUT_SID)])
    smk = case['sm']
    if smk == 'none':
        sm = None
    elif smk == 'same':
        sm = PN('same', [])
    elif smk == 'factory':
        sm = PN('other', [('a', PN('factory', [('f', SM_FID), ('s', SM_SID)])), ('truthy', case.get('sm_truthy', True))])
    else:
        sm = PN('other', [('a', PN('obj', [('s', SM_SID)])), ('truthy', case.get('sm_truthy', True))])
    names = NAMES[case['names']]
    info = [PN('S', [('id', OUT_SID), ('name', opt(names[0])), ('enc', case.get('encoding', None))]),
            PN('S', [('id', SM_SID), ('name', opt(names[1])), ('enc', None)])]
    if case['url'] == 'default':
        url = PN('dflt', [])
    elif case['url'] == 'none':
        url = PN('disabled', [])
    else:
        url = PN('explicit', [('u', case['url'])])
    req = PN('W', [('nodes', nodes), ('out', out), ('outTruthy', case.get('out_truthy', True)), ('sm', sm),
                   ('info', info), ('normM', case['normM']), ('normP', case['normP']), ('url', url),
                   ('sources', list(triple[1]) if triple else []), ('plan', fault_nodes(faults))])
    return proto.render(req)


def read_request(case, run, faults, natural):
    stream = PN('factory', [('f', IN_FID), ('s', IN_SID)]) if case['stream'] == 'factory' else PN('obj', [('s', IN_SID)])
    info = [PN('S', [('id', IN_SID), ('name', opt(run.name)), ('enc', None)])]
    req = PN('R', [('stream', stream), ('info', info), ('tree', TREE_ID), ('plan', fault_nodes(faults, natural))])
    return proto.render(req)


class SymEval(object):
    """evaluates the term strings the driver uses for the uninterpreted functions"""

    def __init__(self, triple, streams):
        self.triple, self.streams = triple, streams

    def __call__(self, s):
        if not (isinstance(s, str) and '\x01' in s):
            return s
        if s[:1] != '\x01':
            # literal text followed by a term (the relabelled message "<msg> in <repr …>")
            i = s.index('\x01')
            return s[:i] + self(s[i:])
        from calmjs.parse import sourcemap
        n = proto.parse(s[1:])
        k = n.kind
        if k == 'relpath':
            b, t = self(n.get('b')), self(n.get('t'))
            assert b.startswith('/') and t.startswith('/'), (b, t)     # the model guards relpath by isabs
            return normrel_indep(b, t)
        if k == 'mappings':
            return self.triple[0]
        if k == 'names':
            return self.triple[2]
        if k == 'json':
            return _json.dumps(sourcemap.encode_sourcemap(
                self(n.get('file')), self(n.get('mappings')), [self(x) for x in n.get('sources')], self(n.get('names'))),
                sort_keys=True, ensure_ascii=False)
        if k == 'b64':
            return _base64.b64encode(self(n.get('text')).encode(self(n.get('enc')))).decode('ascii')
        if k == 'repr':
            return repr(self(n.get('s')))
        if k == 'reprstream':
            return repr(self.streams[n.get('s')])
        raise ValueError('unknown term %r' % k)


def model_view(reply, ev):
    """driver reply -> (outcome, [events]) in the same shape as `real_view`"""
    if reply.startswith('ERR'):
        return ('ERR', reply), []
    r = proto.parse(reply)
    o = r.get('outcome')
    if o is None:
        outcome = ('ok', None)
    elif o.kind == 'ok':
        outcome = ('ok', (o.get('tree'), o.get('sourcepath')))
    else:
        outcome = ('exc', o.get('cls'), ev(o.get('msg')), o.get('syn'))
    events = []
    for e in r.get('trace'):
        if e.kind == 'opened':
            events.append(('opened', e.get('f'), e.get('s')))
        elif e.kind in ('read', 'closed'):
            events.append((e.kind, e.get('s')))
        elif e.kind == 'wrote':
            events.append(('wrote', e.get('s'), ev(e.get('x'))))
        elif e.kind == 'wrotelines':
            events.append(('wrotelines', e.get('s'), [ev(x) for x in e.get('xs')]))
        elif e.kind == 'fault':
            x = e.get('e')
            events.append(('fault', prim_of_node(e.get('p')), e.get('k'), (x.get('cls'), x.get('msg'), x.get('syn'))))
        else:
            events.append(('?', e.kind))
    return outcome, events


def real_view(run, kind):
    if run.exc is not None:
        outcome = ('exc',) + exc_tuple(run.exc)
    elif kind == 'write':
        outcome = ('ok', None) if run.ret is None else ('ok', repr(run.ret))
    else:
        tree = TREE_ID if (run.parsed and run.ret is run.parsed[-1]) else -1
        outcome = ('ok', (tree, getattr(run.ret, 'sourcepath', '<no sourcepath>')))
    events = []
    for e in run.rec.events:
        if e[0] == 'fault':
            events.append(('fault', e[1], e[2], exc_tuple(e[3])))
        else:
            events.append(tuple(e))
    return outcome, events


# --------------------------------------------------------------------------
# the direct judge (independent of the model)
# --------------------------------------------------------------------------

def judge_closing(run, factory_sids, passed_sids):
    """closing discipline + propagation on a real trace; returns list of complaints"""
    bad = []
    ev = run.rec.events
    opened = [e[2] for e in ev if e[0] == 'opened']
    for s in set(opened):
        if opened.count(s) != 1:
            bad.append('stream %d obtained %d times' % (s, opened.count(s)))
    for s in opened:
        idx = [i for i, e in enumerate(ev) if e[0] == 'closed' and e[1] == s]
        if len(idx) != 1:
            bad.append('factory stream %d closed %d times' % (s, len(idx)))
            continue
        later = [e for e in ev[idx[0] + 1:] if e[0] in ('read', 'wrote', 'wrotelines') and e[1] == s]
        if later:
            bad.append('factory stream %d used after close: %r' % (s, later[:2]))
        first = min(i for i, e in enumerate(ev) if e[0] == 'opened' and e[2] == s)
        if idx[0] < first:
            bad.append('stream %d closed before it was obtained' % s)
    for e in ev:
        if e[0] == 'closed' and e[1] not in opened:
            bad.append('passed-in stream %d was closed' % e[1])
    for s in passed_sids:
        if any(e[0] == 'opened' and e[2] == s for e in ev):
            bad.append('passed-in stream %d came from a factory?' % s)
    return bad


def judge_propagation(run, relabel_name=None):
    from calmjs.parse.exceptions import ECMASyntaxError
    bad = []
    raised = run.rec.raised
    if not raised:
        return bad
    if run.exc is None:
        bad.append('a primitive raised %r but the helper returned normally' % (raised[0],))
        return bad
    if len(raised) != 1:
        bad.append('%d primitives raised; the first failure must end the call' % len(raised))
    orig = raised[0]
    if relabel_name is not None and isinstance(orig, ECMASyntaxError) and run.rec.events and \
            [e for e in run.rec.events if e[0] == 'fault'][0][1] == ('parse',):
        if type(run.exc) is not type(orig):
            bad.append('syntax error re-raised as %s, not %s' % (type(run.exc).__name__, type(orig).__name__))
        want = '%s in %s' % (str(orig), relabel_name)
        if str(run.exc) != want:
            bad.append('syntax error message %r, expected %r' % (str(run.exc), want))
    else:
        if run.exc is not orig:
            bad.append('failure not propagated: raised %r, helper raised %r' % (orig, run.exc))
    return bad


KF18A = 'KF-18a'


def designation(container, rel, target, what):
    """Does the path `rel`, found inside the file `container`, designate `target`?  Returns a complaint or None.
    Complaints of the class of finding KF-18a (not both names absolute: normrelpath leaves the name verbatim,
    i.e. relative to the current directory instead of to `container`) are prefixed with its id."""
    both_abs = container.startswith('/') and target.startswith('/')
    if rel.startswith('/'):
        if both_abs:
            return '%s %r is not relative' % (what, rel)
        if target.startswith('/') and posixpath.normpath(rel) == posixpath.normpath(target):
            return None
        return '%s: %s %r does not designate %r' % (KF18A, what, rel, target)
    if both_abs:
        if resolve(container, rel) != posixpath.normpath(target):
            return '%s %r resolves from %r to %r, not to %r' % (what, rel, container, resolve(container, rel), target)
        return None
    if not container.startswith('/') and not target.startswith('/') and \
            resolve(container, rel) == posixpath.normpath(target):
        return None
    return '%s: %s %r found in %r designates %r, not %r (names not both absolute are written verbatim)' % (
        KF18A, what, rel, container, resolve(container, rel), target)


URL_RE = re.compile(r'\A\n//# sourceMappingURL=(.*)\n\Z', re.S)
DATA_RE = re.compile(r'\A\n//# sourceMappingURL=data:application/json;base64;charset=([^,]*),([A-Za-z0-9+/=]*)\Z')


def stream_text(run, sid):
    out = []
    for e in run.rec.events:
        if e[0] == 'wrote' and e[1] == sid:
            out.append(e[2])
        elif e[0] == 'wrotelines' and e[1] == sid:
            out.extend(e[2])
    return ''.join(out)


def check_map_doc(doc, case, triple, out_name, map_name, bad):
    """doc: the decoded JSON; must be the lower-level map with paths relative to the map's location"""
    from calmjs.parse import sourcemap
    mappings, sources, names = triple
    low = sourcemap.encode_sourcemap('<file>', mappings, list(sources), names)
    for key in ('version', 'names', 'mappings'):
        if doc.get(key) != low[key]:
            bad.append('map[%s] = %r differs from the lower-level API %r' % (key, doc.get(key), low[key]))
    if sorted(doc.keys()) != sorted(low.keys()):
        bad.append('map keys %r' % sorted(doc.keys()))
    on = 'about:invalid' if out_name is MISSING else out_name
    mn = 'about:invalid' if map_name is MISSING else map_name

    def designates(rel, target, what):
        if not isinstance(rel, str):
            bad.append('%s is %r' % (what, rel))
        elif case['normP'] and 'about:invalid' not in (mn, target):
            c = designation(mn, rel, target, what)
            if c:
                bad.append(c)
        elif rel != target:
            bad.append('%s %r != %r' % (what, rel, target))
    designates(doc.get('file'), on, 'map.file')
    ds = doc.get('sources')
    if not isinstance(ds, list) or len(ds) != len(sources):
        bad.append('map.sources %r vs lower-level %r' % (ds, sources))
    else:
        for r, s in zip(ds, sources):
            designates(r, s, 'map.source')


def judge_write(run, low):
    case = run.case
    bad = []
    gens, text, triple = low
    factory_sids = [OUT_SID] if case['out'] == 'factory' else []
    passed = [] if case['out'] == 'factory' else [OUT_SID]
    if case['sm'] == 'open':
        passed.append(SM_SID)
    bad += judge_closing(run, factory_sids, passed)
    bad += judge_propagation(run)
    valid = bool(gens)
    if not run.rec.raised:
        if not valid:
            if not isinstance(run.exc, TypeError):
                bad.append('no Node given but outcome is %r' % (run.exc,))
            if run.rec.events:
                bad.append('events although no Node was given: %r' % run.rec.events[:3])
            return bad
        if run.exc is not None:
            bad.append('no primitive failed but the helper raised %r' % (run.exc,))
            return bad
        # success: text
        names = NAMES[case['names']]
        out_text = stream_text(run, OUT_SID)
        if not out_text.startswith(text):
            bad.append('output does not start with the printer text')
            return bad
        rest = out_text[len(text):]
        smk = case['sm']
        map_expected = smk in ('factory', 'open') and case.get('sm_truthy', True)
        same_expected = smk == 'same' and case.get('out_truthy', True)
        if not map_expected and not same_expected:
            if rest != '':
                bad.append('unexpected trailer %r without a source map stream' % rest)
            if stream_text(run, SM_SID) != '':
                bad.append('source map written although not requested')
        elif map_expected:
            on = 'about:invalid' if names[0] is MISSING else names[0]
            mn = 'about:invalid' if names[1] is MISSING else names[1]
            if case['url'] == 'none':
                if rest != '':
                    bad.append('URL comment written although disabled: %r' % rest)
            else:
                m = URL_RE.match(rest)
                if not m:
                    bad.append('trailer is not one sourceMappingURL comment: %r' % rest)
                elif case['url'] != 'default':
                    if m.group(1) != case['url']:
                        bad.append('explicit URL not used: %r' % m.group(1))
                else:
                    url = m.group(1)
                    if case['normP'] and 'about:invalid' not in (on, mn):
                        c = designation(on, url, mn, 'sourceMappingURL')
                        if c:
                            bad.append(c)
                    elif url != mn:
                        bad.append('URL %r != map stream name %r' % (url, mn))
            try:
                doc = _json.loads(stream_text(run, SM_SID))
            except ValueError as e:
                bad.append('map stream is not JSON: %s' % e)
            else:
                check_map_doc(doc, case, triple, names[0], names[1], bad)
        else:
            m = DATA_RE.match(rest)
            if not m:
                bad.append('trailer is not an inline data URL: %r' % rest[:120])
            else:
                enc = case.get('encoding') or 'utf8'
                if m.group(1) != enc:
                    bad.append('charset %r, expected %r' % (m.group(1), enc))
                try:
                    doc = _json.loads(_base64.b64decode(m.group(2)).decode(enc))
                except Exception as e:
                    bad.append('data URL does not decode: %r' % e)
                else:
                    check_map_doc(doc, case, triple, names[0], names[0], bad)
            if stream_text(run, SM_SID) != '':
                bad.append('separate map written in same-stream arrangement')
    return bad


def judge_read(run):
    case = run.case
    bad = []
    bad += judge_closing(run, [IN_SID] if case['stream'] == 'factory' else [],
                         [] if case['stream'] == 'factory' else [IN_SID])
    name = run.name
    label = repr(name) if (name is not MISSING and name) else repr(run.src)
    bad += judge_propagation(run, relabel_name=label)
    if not run.rec.raised:
        if run.exc is not None:
            bad.append('no primitive failed but read raised %r' % (run.exc,))
        else:
            want = None if name is MISSING else name
            if not run.parsed or run.ret is not run.parsed[-1]:
                bad.append('read did not return the parser result')
            if getattr(run.ret, 'sourcepath', MISSING) != want:
                bad.append('sourcepath %r, expected %r' % (getattr(run.ret, 'sourcepath', MISSING), want))
    return bad


# --------------------------------------------------------------------------
# enumeration
# --------------------------------------------------------------------------

def fault_points(counts, close_too=False):
    pts = []
    for prim, n in sorted(counts.items(), key=lambda kv: repr(kv[0])):
        if prim[0] == 'close' and not close_too:
            continue
        for k in range(n):
            pts.append((prim, k))
    return pts


def kind_for(prim, i):
    if prim[0] == 'parse':
        return ('ECMASyntaxError', 'ECMARegexSyntaxError', 'RuntimeError', 'ValueError')[i % 4]
    return ('IOError', 'RuntimeError', 'ValueError', 'KeyboardInterrupt')[i % 4] if prim[0] != 'getName' \
        else ('IOError', 'RuntimeError', 'ValueError')[i % 3]


def write_cases(ctx, programs):
    """arrangements x variants; yields case dicts"""
    rng = ctx.sub_rng('write-cases')
    quick = ctx.tier != 'thorough'
    outs = ('factory', 'open')
    sms = ('none', 'same', 'factory', 'open')
    name_keys = sorted(NAMES)
    urls = ('default', 'none', 'maps/explicit.map')
    cases = []
    n = 0
    for pi, text in enumerate(programs):
        for out in outs:
            for sm in sms:
                # every arrangement gets, per program, a rotating choice of the secondary dimensions; the
                # first program(s) get the cross product
                variants = []
                for j in range(ctx.n(1, 3)):
                    variants.append((name_keys[(n + j) % len(name_keys)], urls[(n + j) % 3], (n + j) % 4 != 3, (n + j) % 5 != 4))
                if pi == 0:
                    if quick:
                        variants += [(nk, 'default', True, True) for nk in name_keys]
                        variants += [('abs', u, np_, nm) for u in urls for np_ in (True, False) for nm in (True, False)]
                    else:
                        variants += [(nk, u, np_, True) for nk in name_keys for u in urls for np_ in (True, False)]
                        variants += [('abs', 'default', True, False), ('rel', 'default', False, False)]
                for (nk, url, normP, normM) in sorted(set(variants), key=repr):
                    n += 1
                    c = dict(kind='write', items=[{'t': text}], shape='single', printer=PRINTERS[n % 2],
                             out=out, sm=sm, names=nk, url=url, normP=normP, normM=normM)
                    if sm == 'same':
                        c['encoding'] = (None, 'utf-8', '', 'latin-1', 'utf-16')[n % 5]
                    cases.append(c)
    # nodes shapes, falsy streams
    t0 = programs[0]
    t1 = programs[1 % len(programs)]
    shapes = [
        ('list', [{'t': t0}, {'t': t1}]),
        ('list', [{'t': t0}, {'x': 'not a node'}, {'x': None}, {'t': t1}, {'x': 3}]),
        ('tuple', [{'t': t1}, {'t': t0}, {'t': t1}]),
        ('gen', [{'t': t0}, {'t': t1}]),
        ('list', []),
        ('list', [{'x': 'x'}, {'x': 1}]),
        ('none', []), ('int', []), ('str', []),
    ]
    for shape, items in shapes:
        for out in outs:
            for sm in sms:
                n += 1
                cases.append(dict(kind='write', items=items, shape=shape, printer=PRINTERS[n % 2], out=out, sm=sm,
                                  names=name_keys[n % len(name_keys)], url='default', normP=True, normM=True))
    for out in outs:
        cases.append(dict(kind='write', items=[{'t': t0}], shape='single', printer='pretty', out=out, sm='same',
                          out_truthy=False, names='abs', url='default', normP=True, normM=True))
        for sm in ('factory', 'open'):
            cases.append(dict(kind='write', items=[{'t': t0}], shape='single', printer='minify', out=out, sm=sm,
                              sm_truthy=False, names='abs', url='default', normP=True, normM=True))
    rng.shuffle(cases)
    return cases


def read_cases(ctx, valid, invalid):
    cases = []
    n = 0
    for text in valid + invalid:
        for stream in ('factory', 'open'):
            for name in ('abs', 'rel', 'missing', 'empty'):
                n += 1
                cases.append(dict(kind='read', text=text, stream=stream, name=name,
                                  parser=('parse', 'Parser', 'comments')[n % 3]))
    return cases


def run_case(case, faults):
    if case['kind'] == 'write':
        return WriteRun(case, faults)
    return ReadRun(case, faults)


def natural_parse_fault(case):
    """syntax error of the text, obtained from the parser directly (not through io.read)"""
    from calmjs.parse.parsers import es5
    try:
        if case['parser'] == 'comments':
            es5.parse(case['text'], with_comments=True)
        else:
            es5.parse(case['text'])
    except Exception as e:
        return [(('parse',), 0, e)]
    return []


def examine(ctx, case, faults, low, drv_lines, pending):
    """run the real code once, judge it, queue the model request"""
    run = run_case(case, faults)
    if case['kind'] == 'write':
        bad = judge_write(run, low)
        req = write_request(case, run, low, faults)
        ev = SymEval(low[2], run.streams)
    else:
        bad = judge_read(run)
        nat = natural_parse_fault(case)
        req = read_request(case, run, faults, nat)
        ev = SymEval(None, run.streams)
    drv_lines.append(req)
    pending.append((case, faults, run, ev, bad))
    return run


def case_key(case, faults):
    return (_json.dumps(case, sort_keys=True), repr(faults))


def explore(ctx, cases, stats):
    """for every case: fault-free run, then every fault point; returns (judge_failures, tie_differences)"""
    judge_fail, tie_diff = [], []
    drv = Client(ctx.driver('drv_io')) if getattr(ctx, 'drivers_ok', True) else None
    for case in cases:
        low = None
        if case['kind'] == 'write':
            _, items = build_nodes(case)
            low = lowlevel(case, items)
        lines, pending = [], []
        base = examine(ctx, case, [], low, lines, pending)
        pts = fault_points(base.rec.counts)
        # factories that were not reached in the fault-free run still get a failing variant
        for i, (prim, k) in enumerate(pts):
            kind = kind_for(prim, i + k)
            faults = [(prim, k, kind, 'injected %s #%d' % (prim[0], k))]
            examine(ctx, case, faults, low, lines, pending)
        # "every use fails" plans and two simultaneous faults
        kinds = sorted(set(p for p, _ in pts), key=repr)
        for prim in kinds:
            examine(ctx, case, [(prim, None, 'RuntimeError', 'always ' + prim[0])], low, lines, pending)
        if len(pts) >= 2:
            a, b = pts[len(pts) // 3], pts[(2 * len(pts)) // 3]
            examine(ctx, case, [(a[0], a[1], 'IOError', 'first'), (b[0], b[1], 'ValueError', 'second')], low, lines, pending)
        replies = drv.ask_many(lines) if drv is not None else [None] * len(lines)
        for (c, faults, run, ev, bad), reply in zip(pending, replies):
            ctx.case(case_key(c, faults))
            stats['runs'] += 1
            ctx.bump('kind:' + c['kind'])
            if c['kind'] == 'write':
                ctx.bump('arrangement:out=%s,sm=%s' % (c['out'], c['sm']))
                ctx.bump('names:' + c['names'])
                ctx.bump('shape:' + c['shape'])
            else:
                ctx.bump('arrangement:read,%s,name=%s' % (c['stream'], c['name']))
            for f in faults:
                ctx.bump('fault:' + f[0][0])
            if not faults:
                ctx.bump('fault:none')
            ctx.bump('outcome:' + ('ok' if run.exc is None else type(run.exc).__name__))
            kf = [b for b in bad if b.startswith(KF18A)]
            bad = [b for b in bad if not b.startswith(KF18A)]
            if kf:
                stats.setdefault('kf', []).append((c, faults, kf))
            if bad:
                judge_fail.append((c, faults, bad))
            if reply is None:
                continue        # driver not built: the judge alone decides (the build obligation already failed)
            try:
                mv = model_view(reply, ev)
            except Exception as e:    # malformed reply
                mv = (('ERR', repr(e)), [])
            rv = real_view(run, c['kind'])
            if mv != rv:
                tie_diff.append((c, faults, describe_diff(mv, rv)))
    return judge_fail, tie_diff


def describe_diff(mv, rv):
    if mv[0] != rv[0]:
        return 'outcome: model %r, real %r' % (mv[0], rv[0])
    for i, (a, b) in enumerate(zip(mv[1], rv[1])):
        if a != b:
            return 'event %d: model %r, real %r' % (i, a, b)
    return 'trace length: model %d, real %d; model tail %r real tail %r' % (
        len(mv[1]), len(rv[1]), mv[1][len(rv[1]):][:3], rv[1][len(mv[1]):][:3])


def case_size(c):
    if c['kind'] == 'write':
        return sum(len(i.get('t', '')) for i in c['items'])
    return len(c['text'])


def pick_programs(ctx, label, n, maxlen):
    import corpus
    rng = ctx.sub_rng(label)
    pool = [t for t in corpus.g1_valid() if 4 <= len(t) <= maxlen]
    pool = sorted(set(pool))
    rng.shuffle(pool)
    multi = [t for t in pool if '\n' in t]
    chosen = multi[:max(1, n // 2)] + [t for t in pool if '\n' not in t][:n - max(1, n // 2)]
    return chosen[:n]


def real_file_judge(ctx, programs):
    """judge only: real files in a temporary directory (absolute and relative names through real os.path)"""
    import os
    import shutil
    import tempfile
    from calmjs.parse import io as cio, sourcemap
    from calmjs.parse.parsers import es5
    bad = []
    d = tempfile.mkdtemp(prefix='calmverif-c18-')
    cwd = os.getcwd()
    try:
        os.makedirs(os.path.join(d, 'src'))
        os.makedirs(os.path.join(d, 'build', 'maps'))
        for i, text in enumerate(programs):
            for absolute in (True, False):
                for mode in ('factory', 'open', 'same'):
                    os.chdir(d)
                    base = d if absolute else ''
                    src = os.path.join(base, 'src', 'p%d.js' % i)
                    out = os.path.join(base, 'build', 'p%d.min.js' % i)
                    mp = os.path.join(base, 'build', 'maps', 'p%d.min.js.map' % i)
                    with open(src, 'w') as f:
                        f.write(text)
                    opened = []

                    def opener(path, m, opened=opened):
                        def f():
                            h = open(path, m)
                            opened.append(h)
                            return h
                        return f
                    tree = cio.read(es5.parse, opener(src, 'r'))
                    if tree.sourcepath != src:
                        bad.append('real file: sourcepath %r != %r' % (tree.sourcepath, src))
                    if not all(h.closed for h in opened):
                        bad.append('real file: read left the source open')
                    printer = get_printer(PRINTERS[i % 2])
                    expected = ''.join(c[0] for c in get_printer(PRINTERS[i % 2])(tree))
                    triple = sourcemap.write(get_printer(PRINTERS[i % 2])(tree), Sink())
                    del opened[:]
                    passed = []
                    if mode == 'factory':
                        cio.write(printer, tree, opener(out, 'w'), opener(mp, 'w'))
                    elif mode == 'open':
                        passed = [open(out, 'w'), open(mp, 'w')]
                        cio.write(printer, tree, passed[0], passed[1])
                    else:
                        fo = opener(out, 'w')
                        cio.write(printer, tree, fo, fo)
                    if not all(h.closed for h in opened):
                        bad.append('real file: write left a factory stream open (%s)' % mode)
                    if any(h.closed for h in passed):
                        bad.append('real file: write closed a passed-in stream')
                    for h in passed:
                        h.close()
                    got = open(out).read()
                    if not got.startswith(expected):
                        bad.append('real file: output does not start with printer text')
                        continue
                    rest = got[len(expected):]
                    case = dict(normP=True)
                    if mode == 'same':
                        m = DATA_RE.match(rest)
                        if not m:
                            bad.append('real file: no data URL: %r' % rest[:80])
                            continue
                        doc = _json.loads(_base64.b64decode(m.group(2)).decode(m.group(1)))
                        check_map_doc(doc, case, triple, out, out, bad)
                    else:
                        m = URL_RE.match(rest)
                        if not m:
                            bad.append('real file: no URL comment: %r' % rest[:80])
                            continue
                        target = os.path.normpath(os.path.join(os.path.dirname(out), m.group(1)))
                        if os.path.realpath(target) != os.path.realpath(mp):
                            bad.append('%sreal file: URL %r does not lead from %r to %r' % (
                                '' if absolute else KF18A + ': ', m.group(1), out, mp))
                        check_map_doc(_json.load(open(mp)), case, triple, out, mp, bad)
                    ctx.case(('realfile', text, absolute, mode))
                    ctx.bump('realfile:%s,%s' % (mode, 'abs' if absolute else 'rel'))
    finally:
        os.chdir(cwd)
        shutil.rmtree(d, True)
    return bad


def run(ctx):
    import corpus
    import logging
    logging.getLogger('calmjs.parse').setLevel(logging.CRITICAL)
    ctx.rule('a case = (helper, arrangement of streams/names/flags, nodes shape, program(s), fault plan); '
             'non-trivial when at least one stream event happens (all counted cases reach the try block or raise before it by injection)')
    ctx.trusted += [
        'Lean 4.33 kernel; axioms propext, Quot.sound, Classical.choice only',
        'drv_io (compiled model) and this harness (stream doubles, term evaluation) — tie only',
        'uninterpreted in the model: os.path (normrelpath), json.dumps, base64, str.encode, repr, str.splitlines, '
        'the pure bookkeeping of sourcemap.write / encode_sourcemap; the URL / data-URL claims are checked by the judge only',
    ]
    ctx.assumptions += [
        'close() itself does not fail (hypothesis of write_closes_exactly_once / read_closes_exactly_once; with a failing close later closers are skipped)',
        'the unparser is a generator function; stream objects are not callable; a name/encoding property raising AttributeError counts as a missing attribute',
        'a stream returned by the source-map factory is a different object from the output stream',
    ]
    stats = dict(runs=0)
    nprog = ctx.n(8, 32)
    programs = pick_programs(ctx, 'programs', nprog, ctx.n(120, 300))
    wcases = write_cases(ctx, programs)
    rvalid = pick_programs(ctx, 'read-valid', ctx.n(3, 12), 200)
    rng = ctx.sub_rng('read-invalid')
    inv = sorted(set(corpus.g1_invalid()))
    rng.shuffle(inv)
    # rejected texts whose syntax-error message quotes format-like text (`%`, `%s`, `{}`, back-slashes): the re-labelled
    # message is the parser's message followed by the stream name, whatever characters the message contains
    hostile = ['var pct = total % ;', 'rate %= ;', "var label = '100% sure' 'thing';", "x = '%(name)s' y", "a %s b",
               'a {0} {} b', "'%d%%' '\\' %"]
    rcases = read_cases(ctx, rvalid, hostile[:ctx.n(4, 7)] + inv[:ctx.n(3, 12)])
    for c in (wcases[:3] + rcases[:2]):
        ctx.sample(c)
    jf_w, td_w = explore(ctx, wcases, stats)
    jf_r, td_r = explore(ctx, rcases, stats)
    judge_fail = jf_w + jf_r
    rf_all = real_file_judge(ctx, programs[:ctx.n(3, 10)])
    rf_bad = [b for b in rf_all if not b.startswith(KF18A)]
    rf_kf = [b for b in rf_all if b.startswith(KF18A)]
    ctx.obligation('judge:real files (open(), os.path) closed / text / URL resolves', not rf_bad, 'judge', '; '.join(rf_bad[:5]))
    if rf_bad:
        ctx.violation('C18 judge on real files: %s' % rf_bad[0], dict(realfile=True, complaints=rf_bad[:10],
                      programs=programs[:ctx.n(3, 10)]), True)
    tie_diff = td_w + td_r
    ctx.note('cases: %d write arrangements, %d read arrangements, %d runs of the real helpers' % (
        len(wcases), len(rcases), stats['runs']))

    # ---- known finding KF-18a (same class predicate as the hypothesis of `url_verbatim_unless_both_absolute`:
    #      the two stream names are not both absolute)
    kf_hits = sorted(stats.get('kf', []), key=lambda x: (len(x[1]), case_size(x[0])))
    registered = set(e.get('id') for e in ctx.known_findings)
    for e in ctx.known_findings:
        w = e.get('witness')
        if e.get('id') == KF18A and isinstance(w, dict) and 'case' in w:
            wc = w['case']
            _, items = build_nodes(wc)
            r = WriteRun(wc, [])
            wb = judge_write(r, lowlevel(wc, items))
            ctx.case(case_key(wc, ()))
            if not any(b.startswith(KF18A) for b in wb):
                ctx.note('%s: the registered witness no longer fails (%r)' % (KF18A, wb))
            else:
                kf_hits.append((wc, [], [b for b in wb if b.startswith(KF18A)]))
    if kf_hits or rf_kf:
        what = ('sourceMappingURL / map.file / map.sources are written verbatim (relative to the current directory, not '
                'to the file that contains them) when the two stream names are not both absolute: %d runs with doubles, '
                '%d with real files; e.g. %s' % (len(kf_hits), len(rf_kf), (kf_hits[0][2][0] if kf_hits else rf_kf[0])[:300]))
        if KF18A in registered:
            ctx.known(KF18A, what)
        elif kf_hits:
            c, faults, kb = kf_hits[0]
            ctx.violation('C18 judge: %s [%s]' % (kb[0], summary(c, faults)),
                          dict(case=c, faults=[list(f) for f in faults], complaints=kb, finding=KF18A), True)
            ctx.obligation('judge:sourceMappingURL designates the map (finding %s not registered in known_findings.json)' % KF18A,
                           False, 'judge', what)
        else:
            ctx.violation('C18 judge on real files: %s' % rf_kf[0], dict(realfile=True, complaints=rf_kf[:10],
                          programs=programs[:ctx.n(3, 10)], finding=KF18A), True)

    # ---- verdict
    reported = set()
    judge_fail.sort(key=lambda x: (case_size(x[0]), len(x[1])))
    for (c, faults, bad) in judge_fail:
        sig = (c['kind'], bad[0].split(':')[0][:60])
        if sig in reported:
            continue
        reported.add(sig)
        ctx.violation('C18 judge: %s [%s]' % (bad[0], summary(c, faults)),
                      dict(case=c, faults=[list(f) for f in faults], complaints=bad), True)
        if len(reported) >= 3:
            break
    ctx.obligation('judge:closing/propagation/text/url on real traces', not judge_fail, 'judge',
                   '%d failing runs' % len(judge_fail))
    tie_diff.sort(key=lambda x: (case_size(x[0]), len(x[1])))
    tie_only = [t for t in tie_diff if not any(t[0] == j[0] and t[1] == j[1] for j in judge_fail)]
    for stage, diffs in (('tie:S10-io.write', [t for t in tie_diff if t[0]['kind'] == 'write']),
                         ('tie:S10-io.read', [t for t in tie_diff if t[0]['kind'] == 'read'])):
        if diffs:
            c, faults, d = diffs[0]
            ctx.obligation(stage, False, 'tie', '%d differing runs; smallest: %s [%s] replay-case=%s' % (
                len(diffs), d, summary(c, faults), _json.dumps(dict(case=c, faults=[list(f) for f in faults]), sort_keys=True)))
        else:
            ctx.obligation(stage, True, 'tie', 'real trace+outcome == model trace+outcome on every run')
    if tie_only and not judge_fail:
        c, faults, d = tie_only[0]
        ctx.note('tie difference without judge failure (model no longer mirrors the code): %s' % d)
        ctx.violation('C18 tie S10 differs but the judge passes: %s [%s]' % (d, summary(c, faults)),
                      dict(case=c, faults=[list(f) for f in faults], difference=d, stage='S10'), False)


def summary(c, faults):
    if c['kind'] == 'write':
        s = 'write out=%s sm=%s names=%s url=%s shape=%s printer=%s' % (
            c['out'], c['sm'], c['names'], c['url'], c['shape'], c['printer'])
    else:
        s = 'read stream=%s name=%s parser=%s text=%r' % (c['stream'], c['name'], c['parser'], c['text'][:40])
    return s + ' faults=%r' % (faults,)


def replay(ctx, path):
    data = _json.load(open(path))
    rp = data['replay']
    if 'case' not in rp:
        print('replay file names broken obligations only: %s' % rp)
        return 1
    case = rp['case']
    faults = [(tuple(f[0]), f[1], f[2], f[3]) for f in rp.get('faults', [])]
    low = None
    if case['kind'] == 'write':
        _, items = build_nodes(case)
        low = lowlevel(case, items)
    lines, pending = [], []
    run = examine(ctx, case, faults, low, lines, pending)
    _, _, _, ev, bad = pending[0]
    print('case: %s' % summary(case, faults))
    print('real outcome: %r' % (real_view(run, case['kind'])[0],))
    for e in real_view(run, case['kind'])[1]:
        print('  real event: %r' % (e,))
    rc = 0
    for b in bad:
        print('JUDGE: %s' % b)
        rc = 1
    try:
        reply = Client(ctx.driver('drv_io')).ask(lines[0])
        mv = model_view(reply, ev)
        rv = real_view(run, case['kind'])
        if mv != rv:
            print('TIE: %s' % describe_diff(mv, rv))
            rc = 1
        else:
            print('tie: model trace and outcome agree with the implementation')
    except Exception as e:
        print('model not available: %r' % e)
    print('replay %s' % ('FAILS' if rc else 'passes'))
    return rc
