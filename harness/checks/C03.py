"""
C03  Parser accepts exactly the ES5 grammar and builds the tree it dictates.

proof   Props/C03: tables_valid (kernel decision over the regenerated LALR tables + certificate), lr_sound (what the
        driver accepts is a derivation of exactly the shifted tokens, for every token source), lr_deterministic.
tie     S2a ply driver vs Model.LR on recorded traces; S2b driver + actions vs Model.LR + Model.Actions (trees).
judge   differential against the independent ES5.1 reference parser (lean Spec.Es5Parse through drv_spec):
        accept/reject and tree structure on G3 (all token strings up to length k over a representative alphabet),
        G1, G2 and their single-token mutations (G4).
"""
import itertools
import json

import corpus
import genjs
import proto
import shrink
import specclient
import treedump
from parts import kfclass, lrtie, parsetie, texts as T

SPEC = dict(gen=['tables', 'actions', 'unicodecat', 'lexdata'], props=['CalmVerif.Props.C03', 'CalmVerif.Props.C03tok'], drivers=['drv_lr', 'drv_parse', 'drv_spec'],
            audit='Audit/C03.lean')

ALPHA = ['a', 'b', '1', "'s'", '/r/', '(', ')', '{', '}', '[', ']', ';', ',', '.', '=', '+', '-', '++', '/', '/=', '?', ':',
         '!', 'in', 'if', 'else', 'for', 'while', 'do', 'var', 'function', 'return', 'new', 'this', 'get', '\n', 'typeof',
         'break', 'case', 'switch', 'try', 'catch', 'throw', 'x:', '<', '&&', '|', 'instanceof', 'delete', 'default', 'finally',
         'continue', 'with', 'void', '==', '*']


def calm(text):
    from calmjs.parse.parsers.es5 import parse
    from calmjs.parse.exceptions import ECMASyntaxError
    try:
        return ('ok', treedump.dump(parse(text)))
    except ECMASyntaxError as e:
        return ('err', str(e))
    except Exception as e:
        return ('crash', type(e).__name__, str(e))


def verdict(c, s):
    if c[0] == 'crash':
        return 'crash'          # C12's subject; for C03 it counts as a rejection
    if c[0] == 'ok' and s[0] == 'ok':
        return 'same' if c[1] == s[1] else 'tree-differs'
    if c[0] == 'ok':
        return 'accepts-but-not-ES5'
    if s[0] == 'ok':
        return 'rejects-ES5'
    return 'both-reject'


def judge(ctx, spec, items, what):
    """items: list of (text, token list or None)"""
    texts = [t for t, _ in items]
    replies = spec.drv.ask_many(['parse ' + proto.enc_str(t) for t in texts])
    known_ids = {e['id'] for e in ctx.known_findings}
    for (text, toks), r in zip(items, replies):
        s = spec._dec_parse(r)
        c = calm(text)
        v = verdict(c, s)
        ctx.case((what, text), nontrivial=v != 'both-reject' or len(text.split()) > 2)
        ctx.bump('%s:%s' % (what, v))
        if v in ('same', 'both-reject'):
            continue
        if v == 'crash' and s[0] != 'ok':
            continue
        cls = kfclass.classes(toks if toks is not None else tokenize_rough(text)) & known_ids
        if cls:
            ctx.bump('%s:in-known-class' % what)
            continue
        # shrink and report
        def bad(t):
            if not specclient.sendable(t):
                return False
            return verdict(calm(t), spec.parse(t)) == v and not (kfclass.classes(tokenize_rough(t)) & known_ids)
        m = shrink.shrink_text(text, bad, 600)
        ctx.violation('%s: calmjs %s' % (what, v), dict(text=m, original=text, calmjs=repr(calm(m))[:600],
                                                        reference=repr(spec.parse(m))[:600], verdict=v))
        return False
    return True


def tokenize_rough(text):
    import re
    return re.findall(r'''/\*.*?\*/|//[^\n\r\u2028\u2029]*|'(?:[^'\\\n\r]|\\.)*'|"(?:[^"\\\n\r]|\\.)*"|\r\n|[\n\r\u2028\u2029]|[\w$]+|\+\+|--|/=|[^\s\ufeff]''', text, re.S)


def known_witnesses(ctx, spec):
    for e in ctx.known_findings:
        w = e.get('witness', {})
        text = w.get('text')
        if text is None:
            continue
        v = verdict(calm(text), spec.parse(text))
        if v not in ('same', 'both-reject'):
            ctx.known(e['id'], '%s (%r: %s)' % (e['what'], text, v))
        else:
            ctx.note('known finding %s no longer reproduces on its witness %r' % (e['id'], text))


def run(ctx):
    ctx.rule('G3: all token strings up to length k over a %d-token alphabet (quick k=2 plus a sample of k=3, thorough k=3 '
             'plus a sample of k=4); G1 repo manifests; G2 grammar-generated programs with random layout; G4 single-token '
             'mutations; judged = calmjs accept/reject and tree structure equal to the Lean ES5.1 reference parser; '
             'non-trivial = not rejected by both or longer than 2 tokens' % len(ALPHA))
    ctx.trusted += ['Lean 4.33 kernel', 'translator g_tables.py / g_actions.py', 'Spec.Es5Parse as a reading of ECMA-262 5.1 '
                    '(validated against calmjs on the corpus and against the known deviations list)',
                    'language equality L(tables) = L(ES5) is NOT proved: it is covered by this bounded differential only']
    spec = specclient.Spec(ctx)
    known_witnesses(ctx, spec)
    rng = ctx.sub_rng('g3')
    # G3
    items = []
    for k in (1, 2):
        for combo in itertools.product(ALPHA, repeat=k):
            items.append((' '.join(combo), list(combo)))
    k3 = [list(c) for c in itertools.product(ALPHA, repeat=3)]
    if ctx.tier == 'quick':
        k3 = rng.sample(k3, 6000)
    items += [(' '.join(c), c) for c in k3]
    if ctx.tier == 'thorough':
        for _ in range(60000):
            c = [rng.choice(ALPHA) for _ in range(4)]
            items.append((' '.join(c), c))
    if not judge(ctx, spec, items, 'G3'):
        return
    # G1 + G2 + G4
    items = [(t, None) for t in corpus.g1_valid() + corpus.g1_invalid() if specclient.sendable(t)]
    stats = {}
    for text, toks, lo in genjs.programs(ctx.sub_rng('g2'), ctx.n(250, 3000), stats=stats):
        items.append((text, None))
        for m in genjs.token_mutations(rng, toks, 2):
            items.append((m, m.split(' ')))
    for k_, v_ in stats.items():
        ctx.bump('gen:' + k_, v_)
    if not judge(ctx, spec, items, 'G124'):
        return
    # G6: one code point in code position - every code point below U+0250 and of the punctuation / symbol / format blocks, as
    # identifier, inside an identifier, between operands and as an operator (the lexical grammar's character classes seen
    # through the parser: a symbol that becomes an identifier character, a letter that stops being one)
    items6 = []
    cps = list(range(0x80, 0x250)) + list(range(0x2000, 0x2070)) + list(range(0x2100, 0x2150)) + [0x37e, 0x387, 0x3f6, 0x60c, 0xfeff,
                                                                                                  0xff04, 0xff3f, 0x3000, 0x180e]
    if ctx.tier != 'thorough':
        cps = [c for c in cps if c < 0x100 or c in (0x2028, 0x2029, 0x200c, 0x200d, 0x2118, 0x212e, 0xfeff)] + \
            rng.sample([c for c in cps if c >= 0x100], 60)
    for cp in cps:
        ch = chr(cp)
        for form in ('%s', 'x = a%sb;', 'var %s = 1;', 'x = a %s b;', 'a%s', '%sa = 1'):
            items6.append((form % ch, None))
    if not judge(ctx, spec, items6, 'G6'):
        return
    # G7: line-structured statements - every statement head that is followed by a sub-statement x every separator (the five
    # line terminator sequences, a blank, nothing) x every way a statement starts (prefix ++ / --, unary operators, brackets,
    # keywords, regex, function): semicolon insertion and the restricted productions must not fire between a head and its body
    items7 = []
    heads7 = ['if (a)', 'while (a)', 'for (;;)', 'for (k in o)', 'with (a)', 'if (a) b; else', 'do', 'l:', 'if (a) {} else',
              'for (var i = 0; i < n; i++)', 'switch (a) { case 1:', 'try {', '{', 'function g() {', 'if (f(a))', 'while ((a))']
    tails7 = {'do': ' while (c);', 'switch (a) { case 1:': ' }', 'try {': ' } finally {}', '{': ' }', 'function g() {': ' }'}
    starts7 = ['++b;', '--b;', '+b;', '-b;', '!b;', '~b;', '(b);', '[b];', 'b;', 'b++;', '{ b }', 'typeof b;', 'void 0;', 'new b;',
               '/r/.test(b);', 'function f(){}', ';', 'var c;', 'this.b;', '"s";', '1;', 'delete b.c;', 'b\n++c;', 'b\n--c']
    for h in heads7:
        for sep in ('\n', '\r', '\r\n', '\u2028', '\u2029', ' ', '', '\n\n', ' \n ', '\n//c\n', '/*\n*/'):
            for st in starts7:
                if sep == '' and (h[-1:].isalnum() or h[-1:] == '_') and (st[:1].isalnum() or st[:1] in '_"'):
                    continue
                items7.append((h + sep + st + tails7.get(h, ''), None))
    if ctx.tier != 'thorough':
        items7 = rng.sample(items7, 1500)
    if not judge(ctx, spec, items7, 'G7'):
        return
    # the parse must not depend on the node factory the parser was configured with (the grammar actions go through
    # self.asttypes): a second, independent AstTypesFactory must give structurally identical trees
    if not factory_scenario(ctx):
        return
    ctx.sample(dict(g3_example=' '.join(ALPHA[:3]), compared='accept/reject + tree structure vs Spec.Es5Parse'))
    # ties
    if getattr(ctx, 'drivers_ok', True):
        tt = [t for t, _ in items[:ctx.n(200, 1500)]]
        lrtie.lr_tie(ctx, tt)
        parsetie.parse_tie(ctx, tt[:ctx.n(120, 800)], with_comments=(False,))


FACTORY_TEXTS = ['switch(a){case 1: x; default: y; case 2: z}', 'switch(a){default: b}', 'switch(a){case 1: case 2: c; default:}',
                 'x = {a: 1, get b(){ return 1; }, set c(v){}, "d": 2, 3: e}; y = [1,,2,,];', 'for (var i = 0 in o) ; for (a in b) c;',
                 'try { a } catch (e) { b } finally { c }', 'l: for(;;) { continue l; } do x; while (y)',
                 'function f(a, b) { return function g() { return this; }; } new f(1)(2).x[y]++', 'if (a) b; else if (c) d; else e',
                 'a ? b : c, d = e += f, typeof void delete g, !-~+h; with (o) p; throw q; debugger']


def factory_scenario(ctx):
    from calmjs.parse.factory import AstTypesFactory
    from calmjs.parse.parsers.es5 import Parser
    from calmjs.parse.unparsers.es5 import pretty_print
    from calmjs.parse.walkers import ReprWalker
    texts = FACTORY_TEXTS + ctx.sub_rng('factory').sample(corpus.g1_valid(), ctx.n(40, 300))
    custom = AstTypesFactory(pretty_print, ReprWalker())
    for t in texts:
        ctx.case(('factory', t), nontrivial=True)
        try:
            a = Parser().parse(t)
        except Exception:
            continue
        try:
            b = Parser(asttypes=custom).parse(t)
        except Exception as e:
            ctx.violation('a parser configured with another AstTypesFactory rejects a program the default parser accepts',
                          dict(text=t, error='%s: %s' % (type(e).__name__, e)))
            return False
        da, db = treedump.dump(a), treedump.dump(b)
        if da != db:
            ctx.violation('the tree depends on the node factory the parser was configured with',
                          dict(text=t, default=proto.render(da)[:600], custom_factory=proto.render(db)[:600]))
            return False
    return True


def replay(ctx, path):
    d = json.load(open(path))['replay']
    spec = specclient.Spec(ctx)
    c, s = calm(d['text']), spec.parse(d['text'])
    print('calmjs   :', repr(c)[:500])
    print('reference:', repr(s)[:500])
    v = verdict(c, s)
    print('verdict  :', v)
    return 0 if v in ('same', 'both-reject') else 1
