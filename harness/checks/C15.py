"""
C15  Parsing is a pure function of the text: no history or thread effects.   (PARTIAL for threads)

proof      Props/C15: `parser_state_fresh` / `module_state_readonly` (decide over the regenerated partition
           table Gen.Api: Parser, Lexer and LRParser objects are never shared by two parse() calls; what is
           shared are unmutated tables), `parse_history_independent` (every sequential history, every
           engine), `reused_parser_is_not_pure` (non-vacuity).
tie = judge (stage S11)
  reference   for every (text, comment flag) of the pool the result — tree dump with positions, token maps and
              comments, or (exception class, message) — computed in a FRESH PROCESS: one `/venv/bin/python` is
              spawned per run on the same scratch copy of /repo/src; it imports calmjs.parse and then forks
              once per item, so every reference value comes from a process that has never parsed anything.
  sequential  exhaustive call sequences: a de Bruijn tour over the 24 (text, flag) items of the pool covers every
              sequence of length <= 2 (quick) / <= 3 (thorough) as a window of consecutive calls; random longer
              sequences over an extended pool (corpus G1 valid/invalid, generated programs, token mutations).
  threads     the pool parsed concurrently from 16 threads under sys.setswitchinterval 1e-6 … 5e-3, several
              rounds, every result compared with the reference.  Correspondence only: schedules are not
              modelled (Props/C15 header).
  state       deep structural hash of the module-level state of lexers.es5 / parsers.es5 / asttypes / the
              generated table modules before and after each stage.
selftest   the judge must flag ONE reused Parser object (the hazard `reused_parser_is_not_pure` is about).

A difference is a failing history: it is minimised by re-running candidate histories in fresh processes and
reported as VIOLATION with the history as replay.
"""
import json
import os
import subprocess
import sys
import threading
import time
from concurrent.futures import ThreadPoolExecutor

import boot
import corpus
import genjs
import proto
import shrink
import treedump
from gen import g_api

SPEC = dict(gen=['api'], props=['CalmVerif.Props.C15'], drivers=[], audit='Audit/C15.lean')

# 12 texts: valid / invalid, comments, ASI, regex-vs-division, multi-line (newline_idx), error recovery paths
POOL_TEXTS = [
    'var a = 1;',
    'a = b\n++c\nreturn_ = 1 // asi\n',
    '/* lead */ function f(x) { // line\n  return x /* mid */ + 1;\n}\n',
    'a = b / c / d; e = /re/g.test(f) / 2;',
    'x = {a: 1, "b": [1,,2], get c() { return this.a; }};\nfor (var i in x) { continue; }\n',
    'if (a) b; else c\nwhile (0) { break }\n}',                 # invalid: unmatched brace after ASI
    'var = 1;',                                                     # invalid
    'x = "unterminated\ny = 2;',                                    # invalid: lexer error handler
    'a = 1 +\n\n\n  * 2;',                                          # invalid, error on a later line
    '/* unterminated comment\nvar a;',                              # invalid
    '',
    'l: do { x = y\n/re/.exec(z) } while (0)\n"use strict"\n',
    # the same reserved words as property names (after `.`) and as keywords, in both orders across parses
    'o.class = 1; r = a.default; x = o.return\n/b/g',
    'switch (a) { default: b }\nfunction f() { return 1 }',
    'class = 2;',                                                   # invalid
    '/re/.test(a) ? b : c',                                         # starts with a regex, ends without `;`
    'f(a))',                                                        # invalid: mismatched parenthesis
    'var re = /abc',                                                # invalid: regex syntax error (lexer left in regex state)
    'var let = 1, static = 2; yield = let;',
    'x = 1 // trailing comment',
]


def result_of(text, wc):
    from calmjs.parse.parsers import es5 as p
    try:
        t = p.parse(text, with_comments=wc)
    except Exception as e:
        return ['err', type(e).__name__, str(e)]
    return ['ok', proto.render(treedump.dump(t, pos=True, tokmap=True, comments=True))]


# ---------------------------------------------------------------------------
# fresh processes
# ---------------------------------------------------------------------------

CHILD = r'''
import json, os, sys
harness, scratch = sys.argv[1], sys.argv[2]
sys.path.insert(0, harness)
import calmjs
calmjs.__path__ = [os.path.join(scratch, 'calmjs')] + [p for p in list(calmjs.__path__) if 'site-packages' in p]
for k in [k for k in sys.modules if k == 'calmjs.parse' or k.startswith('calmjs.parse.')]:
    del sys.modules[k]
import calmjs.parse
assert calmjs.parse.__file__.startswith(scratch), calmjs.parse.__file__
import logging
logging.disable(logging.CRITICAL)
from checks import C15
# byte-compile the generated table modules once (the environment may forbid implicit .pyc writing; without the
# .pyc every process compiles the 600-state table source again, 0.2 s); this parses nothing and imports nothing
import glob, py_compile
for f in glob.glob(os.path.join(scratch, 'calmjs', 'parse', 'parsers', '*tab_*.py')):
    try:
        py_compile.compile(f, doraise=True)
    except Exception:
        pass
job = json.load(sys.stdin)
out = []
if job['mode'] == 'each-fresh':
    # one fork per item: the forked process has imported the library and parsed nothing.
    # Up to 8 forks run at a time (the first Parser() of a process compiles the lexer's master regexes: ~0.25 s).
    items = job['items']
    out = [None] * len(items)
    running = []          # (index, pid, read fd)

    def reap():
        i, pid, r = running.pop(0)
        with os.fdopen(r, 'rb') as f:
            data = f.read()
        os.waitpid(pid, 0)
        out[i] = json.loads(data.decode('utf8'))

    for i, (text, wc) in enumerate(items):
        if len(running) >= 8:
            reap()
        r, w = os.pipe()
        pid = os.fork()
        if pid == 0:
            try:
                os.close(r)
                data = json.dumps(C15.result_of(text, bool(wc))).encode('utf8')
                with os.fdopen(w, 'wb') as f:
                    f.write(data)
            finally:
                os._exit(0)
        os.close(w)
        running.append((i, pid, r))
    while running:
        reap()
elif job['mode'] == 'cold-threads':
    # the very FIRST parses of this process run concurrently: 8 threads released together by a barrier
    import threading
    sys.setswitchinterval(job['interval'])
    items = job['items']
    out = [None] * len(items)
    nthreads = 8
    barrier = threading.Barrier(nthreads)

    def work(k):
        barrier.wait()
        for i in range(k, len(items), nthreads):
            text, wc = items[i]
            out[i] = C15.result_of(text, bool(wc))
    ts = [threading.Thread(target=work, args=(k,)) for k in range(nthreads)]
    for t in ts:
        t.start()
    for t in ts:
        t.join()
else:
    # one history, sequentially, in this fresh process
    for text, wc in job['items']:
        out.append(C15.result_of(text, bool(wc)))
sys.stdout.write(json.dumps(out))
'''

COLD_TEXTS = ['x = (((((((a)))))));', 'switch (a) { case 1: b; default: c; case 2: d }', 'function () {}', 'y = ((b)) + (((c)));',
              'o = {get a() { return ((1)); }, set b(v) {}}; for (var i = 0 in o) ;', 'a = [1,,2,,,]; (((f)))((g));']


def in_fresh_process(items, mode, interval=None):
    """mode 'each-fresh': every item in its own (forked) fresh process; 'history': the items one after the other in one"""
    here = os.path.dirname(os.path.dirname(os.path.abspath(__file__)))
    scratch = boot.boot()
    p = subprocess.run([sys.executable if sys.executable else '/venv/bin/python', '-c', CHILD, here, scratch],
                       input=json.dumps(dict(mode=mode, items=items, interval=interval)), stdout=subprocess.PIPE, stderr=subprocess.PIPE,
                       universal_newlines=True, timeout=900, env=dict(os.environ, PYTHONHASHSEED='0'))
    if p.returncode != 0:
        import framework
        raise framework.Infra('reference process failed: %s' % p.stderr[-2000:])
    return json.loads(p.stdout)


# ---------------------------------------------------------------------------
# helpers
# ---------------------------------------------------------------------------

def de_bruijn(k, n):
    """de Bruijn sequence over range(k), order n (Lyndon word concatenation), as a cyclic list"""
    a = [0] * (k * n)
    seq = []

    def db(t, p):
        if t > n:
            if n % p == 0:
                seq.extend(a[1:p + 1])
        else:
            a[t] = a[t - p]
            db(t + 1, p)
            for j in range(a[t - p] + 1, k):
                a[t] = j
                db(t + 1, t)
    db(1, 1)
    return seq


def module_objects():
    return g_api.parse_persistent_objects()


def module_snapshot():
    return [(n, g_api.dhash(o)) for n, o in module_objects()]


def reused_parser_results(items):
    """the hazard: ONE Parser object per comment flag serves every call"""
    from calmjs.parse.parsers import es5 as p
    parsers = {}
    out = []
    for text, wc in items:
        if wc not in parsers:
            parsers[wc] = p.Parser(with_comments=bool(wc))
        try:
            t = parsers[wc].parse(text)
            out.append(['ok', proto.render(treedump.dump(t, pos=True, tokmap=True, comments=True))])
        except Exception as e:
            out.append(['err', type(e).__name__, str(e)])
    return out


def minimise_history(history, ref_of):
    """history: list of [text, wc]; bad = in a fresh process the LAST call's result differs from its reference"""
    last = history[-1]

    def bad(prefix):
        items = list(prefix) + [last]
        try:
            rs = in_fresh_process(items, 'history')
        except Exception:
            return False
        return rs[-1] != ref_of(last)
    if not bad(history[:-1]):
        return None
    if bad([]):
        return [last]
    prefix = shrink.ddmin(history[:-1], bad, max_tests=40)
    return list(prefix) + [last]


# ---------------------------------------------------------------------------
# the check
# ---------------------------------------------------------------------------

def run(ctx):
    ctx.rule('item = (text, comment flag) over 12 pool texts (7 valid, 5 invalid; comments, ASI, regex/division, '
             'multi-line, lexer error handlers) x {False, True}; sequential: every window of k consecutive calls of a de '
             'Bruijn tour (k = 2 quick, 3 thorough) is one case, plus random sequences of length 4-20 over an extended '
             'pool; threads: 16 workers x switch intervals 1e-6..5e-3; non-trivial = the sequence has at least two calls '
             'or runs concurrently; distinct by the (text, flag) sequence')
    ctx.trusted += ['Lean 4.33 kernel', 'translator harness/gen/g_api.py (Parser objects of two parse() calls captured by a '
                    'profiler hook and compared by identity; deep structural hashes of shared objects)',
                    'fork(2)/subprocess give a process whose calmjs.parse has parsed nothing (the reference values)',
                    'thread schedules are sampled, not enumerated, and not modelled: the concurrency clause is '
                    'correspondence only (PARTIAL)']
    ctx.assumptions += ['CPython 3.12 with the GIL; ply 3.11 as installed in /venv',
                        'the generated lextab/yacctab modules exist in the scratch copy (first Parser() of the run writes them)']
    rng = ctx.sub_rng('c15')
    deep = bool(ctx.broken)

    pool = [[t, wc] for t in POOL_TEXTS for wc in (0, 1)]
    # extended pool for the random part
    ext_texts = rng.sample(corpus.g1_valid(), ctx.n(6, 120)) + rng.sample(corpus.g1_invalid(), ctx.n(3, 40))
    stats = {}
    for text, toks, lo in genjs.programs(rng, ctx.n(3, 60), stats=stats):
        if len(text) < 2500:
            ext_texts.append(text)
            ext_texts += list(genjs.token_mutations(rng, toks, 1))
    for k, v in stats.items():
        ctx.bump('gen:' + k, v)
    ext = [[t, rng.randrange(2)] for t in ext_texts]
    items = pool + ext

    from calmjs.parse.parsers import es5 as p
    p.parse('warm;')          # the generated table modules exist before any other process looks for them
    t0 = time.time()
    ref_list = in_fresh_process(items, 'each-fresh')
    ref = {json.dumps(it): r for it, r in zip(items, ref_list)}
    ctx.bump('reference values (one fresh process each)', len(ref_list))
    ctx.bump('reference: ok', len([r for r in ref_list if r[0] == 'ok']))
    ctx.bump('reference: error', len([r for r in ref_list if r[0] == 'err']))
    for r in ref_list:
        if r[0] == 'err':
            ctx.bump('error class:' + r[1])
    ctx.note('reference process: %.1fs for %d items' % (time.time() - t0, len(items)))

    def ref_of(it):
        return ref[json.dumps(it)]

    # ---- selftest ---------------------------------------------------------------------------------------------
    hz = [pool[4], pool[14], pool[4]]          # multi-line text, unterminated string, the multi-line text again
    cands = [hz, [pool[2], pool[0], pool[2]], [pool[14], pool[0]], [pool[16], pool[2]], [pool[3 * 2], pool[3 * 2]]]
    flagged = None
    for c in cands:
        rs = reused_parser_results(c)
        if any(r != ref_of(it) for r, it in zip(rs, c)):
            flagged = c
            break
    ctx.obligation('selftest: judge flags ONE reused Parser object (stateful Lexer fields)', flagged is not None, 'selftest',
                   'history of %d calls on one Parser differs from the fresh results' % (len(flagged) if flagged else 0))

    before = module_snapshot()
    history = []            # every parse() of this process, in order

    def call(it):
        history.append(it)
        return result_of(it[0], bool(it[1]))

    def fail(desc, it, got):
        h = minimise_history(list(history), ref_of)
        if h is None:
            # the calls that matter were made before this stage (translator, warm-up): search short prefixes
            cands = [[x] for x in pool] + [[rng.choice(pool), rng.choice(pool)] for _ in range(16)]
            for c in cands:
                try:
                    if in_fresh_process(c + [it], 'history')[-1] != ref_of(it):
                        h = minimise_history(c + [it], ref_of) or (c + [it])
                        break
                except Exception:
                    pass
        if h is not None:
            rs = in_fresh_process(h, 'history')
            ctx.violation('%s: result depends on history (reproduced in a fresh process, %d calls)' % (desc, len(h)),
                          dict(kind='history', history=h, expected=ref_of(it), got=rs[-1]))
        else:
            ctx.violation('%s: result differs from the fresh-process value in this process' % desc,
                          dict(kind='in-process', last_calls=history[-4:], n_calls=len(history), item=it,
                               expected=ref_of(it), got=got))

    # ---- corpus of past failures ---------------------------------------------------------------------------------
    for h in corpus.extra('C15'):
        if isinstance(h, dict) and 'history' in h:
            rs = [call(it) for it in h['history']]
            fresh = in_fresh_process(h['history'], 'each-fresh')
            if rs != fresh:
                ctx.violation('corpus history', dict(kind='history', history=h['history'], expected=fresh[-1], got=rs[-1]))
                return

    # ---- exhaustive short sequences ----------------------------------------------------------------------------
    order = ctx.n(2, 3) if not deep else 3
    tour = de_bruijn(len(pool), order)
    tour = tour + tour[:order - 1]          # unroll the cycle so every window occurs
    window = []
    for idx in tour:
        it = pool[idx]
        got = call(it)
        window = (window + [idx])[-order:]
        ctx.case(tuple(window), nontrivial=len(window) >= 2)
        if got != ref_of(it):
            fail('exhaustive sequences (order %d)' % order, it, got)
            return
    ctx.bump('exhaustive: calls', len(tour))
    ctx.note('exhaustive stage done at %.1fs' % (time.time() - t0))
    ctx.obligation('tie:S11 exhaustive parse sequences of length <= %d over %d items' % (order, len(pool)), True, 'tie',
                   '%d calls, every window of %d consecutive calls is a distinct sequence (%d of them); every result = '
                   'fresh-process value' % (len(tour), order, len(pool) ** order))

    # ---- random longer sequences -------------------------------------------------------------------------------
    n_rand = ctx.n(80, 400) if not deep else 400
    n_calls = 0
    for _ in range(n_rand):
        seq = [rng.choice(items) if rng.random() < 0.7 else rng.choice(pool) for _ in range(rng.randint(4, 20))]
        if rng.random() < 0.5:
            seq.append(seq[0])          # explicit repetition
        ctx.case(('random', tuple(json.dumps(s) for s in seq)))
        for it in seq:
            got = call(it)
            n_calls += 1
            if got != ref_of(it):
                fail('random sequence', it, got)
                return
    ctx.bump('random sequences', n_rand)
    ctx.note('random stage done at %.1fs' % (time.time() - t0))
    ctx.bump('random: calls', n_calls)
    ctx.obligation('tie:S11 random parse sequences (length 4-21, extended pool)', True, 'tie',
                   '%d sequences, %d calls' % (n_rand, n_calls))
    mid = module_snapshot()
    changed = [a[0] for a, b in zip(before, mid) if a != b]
    if changed:
        ctx.violation('parse() calls changed module-level state: %s' % changed,
                      dict(kind='state', changed=changed, n_calls=len(history)))
        return

    # ---- threads -----------------------------------------------------------------------------------------------
    intervals = [1e-6, 1e-5, 1e-4, 1e-3, 5e-3]
    rounds = ctx.n(2, 4) if not deep else 4
    per_thread = ctx.n(10, 24)
    old = sys.getswitchinterval()
    n_thr = 0
    bad = []
    lock = threading.Lock()
    try:
        for iv in intervals:
            for rd in range(rounds):
                sys.setswitchinterval(iv)
                work = []
                for w in range(16):
                    mine = [rng.choice(pool) for _ in range(per_thread)]
                    if w % 4 == 0:
                        mine = [rng.choice(items) for _ in range(per_thread)]
                    work.append(mine)
                barrier = threading.Barrier(16)

                def worker(mine):
                    barrier.wait()
                    out = []
                    for it in mine:
                        out.append((it, result_of(it[0], bool(it[1]))))
                    return out
                with ThreadPoolExecutor(max_workers=16) as ex:
                    results = list(ex.map(worker, work))
                sys.setswitchinterval(old)
                for w, res in enumerate(results):
                    for it, got in res:
                        n_thr += 1
                        if got != ref_of(it):
                            bad.append(dict(interval=iv, round=rd, worker=w, item=it, expected=ref_of(it), got=got))
                ctx.case(('threads', iv, rd, tuple(json.dumps(m) for m in work)))
                ctx.bump('threads: interval %g' % iv, 16 * per_thread)
                if bad:
                    break
            if bad:
                break
    finally:
        sys.setswitchinterval(old)
    if bad:
        b = bad[0]
        ctx.violation('concurrent parse differs from the fresh-process value (switch interval %g, %d differing results)' % (
            b['interval'], len(bad)), dict(kind='threads', first=b, n_bad=len(bad), workers=16, per_thread=per_thread))
        return
    ctx.obligation('tie:S11 concurrent parses, 16 threads x switch intervals %s (correspondence only: schedules not modelled)' % intervals,
                   True, 'tie', '%d parses in %d rounds' % (n_thr, len(intervals) * rounds))
    ctx.note('thread stage done at %.1fs' % (time.time() - t0))
    # cold start: processes whose FIRST parses are concurrent (lazily built shared tables are built under contention)
    cold_items = [[t, wc] for t in COLD_TEXTS for wc in (0, 1)] * 4
    cold_ref = in_fresh_process(cold_items[:len(COLD_TEXTS) * 2], 'each-fresh') * 4
    cold_bad = None
    for rep in range(ctx.n(6, 24)):
        iv = [1e-6, 1e-4, 1e-5][rep % 3]
        got = in_fresh_process(cold_items, 'cold-threads', interval=iv)
        ctx.case(('cold-threads', rep, iv))
        diff = [i for i in range(len(cold_items)) if got[i] != cold_ref[i]]
        if diff:
            cold_bad = dict(kind='cold-threads', interval=iv, text=cold_items[diff[0]][0], with_comments=cold_items[diff[0]][1],
                            expected=cold_ref[diff[0]], got=got[diff[0]], differing=len(diff))
            break
    if cold_bad:
        ctx.violation('parses that are the first of their process and run concurrently differ from the fresh-process value '
                      '(switch interval %g, %d differing results)' % (cold_bad['interval'], cold_bad['differing']), cold_bad)
    ctx.obligation('tie:S11 cold-start concurrent parses (8 threads released together in fresh processes; correspondence only)',
                   cold_bad is None, 'tie', '' if cold_bad is None else str(cold_bad)[:600])
    after = module_snapshot()
    changed = [a[0] for a, b in zip(before, after) if a != b]
    if changed:
        ctx.violation('concurrent parse() calls changed module-level state: %s' % changed,
                      dict(kind='state', changed=changed))
        return
    ctx.obligation('tie:S11 module-level state of lexer/parser/asttypes/generated tables unchanged', True, 'tie',
                   '%d objects hashed before, between and after the stages' % len(before))
    ctx.sample(dict(item=pool[5], reference=ref_of(pool[5])[:2] + [ref_of(pool[5])[-1][:160]]))
    ctx.sample(dict(item=pool[14], reference=ref_of(pool[14])))
    ctx.sample(dict(window=[pool[i] for i in tour[:order]]))


def replay(ctx, path):
    d = json.load(open(path))['replay']
    kind = d.get('kind')
    if kind == 'history':
        h = d['history']
        fresh = in_fresh_process([h[-1]], 'each-fresh')[0]
        seq = in_fresh_process(h, 'history')[-1]
        print('history of %d calls; last call %r' % (len(h), h[-1]))
        print('fresh   :', json.dumps(fresh)[:1500])
        print('history :', json.dumps(seq)[:1500])
        return 0 if fresh == seq else 1
    if kind == 'threads':
        it = d['first']['item']
        fresh = in_fresh_process([it], 'each-fresh')[0]
        old = sys.getswitchinterval()
        n_bad = 0
        try:
            sys.setswitchinterval(d['first']['interval'])
            with ThreadPoolExecutor(max_workers=16) as ex:
                for got in ex.map(lambda _: result_of(it[0], bool(it[1])), range(16 * 40)):
                    n_bad += got != fresh
        finally:
            sys.setswitchinterval(old)
        print('item %r: %d of %d concurrent results differ from the fresh value' % (it, n_bad, 16 * 40))
        return 1 if n_bad else 0
    print('nothing to replay deterministically:', json.dumps(d, default=repr)[:2000])
    return 1
