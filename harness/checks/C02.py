"""
C02  Minified output parses back to the same program; no token fusion.

proof   lean/CalmVerif/Props/C02.lean over Model.Unparse with the regenerated Gen.Defs / Gen.Rules.minify0/minify1.
typing  the hypothesis `wfVal` of the *_stream_typed theorems is evaluated by drv_rt on every tree printed (obligation
        'slot typing holds on every parsed tree').
tie     S3/S4 real minify printers (drop_semi off/on) vs Model.Unparse; S2 real parser vs Model.Parser on the outputs.
judge   (always, on the implementation; parts/roundtrip.py)  minify_print(tree, obfuscate=False, drop_semi in {False, True}):
        M1/M2 re-parsed by the real parser to the same structure, M3/M4 accepted by the ES5.1 reference parser with the same
        structure — modulo (a) line continuations removed from string literals, (b) with drop_semi stand-alone
        EmptyStatement items of statement lists; M5 the reference parser's token sequence of the output (plus the `;` its
        ASI inserts) equals that of the original (comments dropped; modulo (a), directly nested parentheses and trailing
        commas of array/object literals, which the tree does not record), with drop_semi only `;` tokens of removed empty
        statements may vanish; M6 without drop_semi the output relies on no ASI.
        Fixed in /repo and therefore no longer classes of known findings (a return is a VIOLATION): KF-02a `a / /re/` ->
        `a//re/` (9cebc23), KF-02d `while(a);` losing its body `;` under drop_semi (c249e7a).
        Inputs: as C01 plus the targeted token-adjacency generator (every token class x slot, parts/roundtrip.py).
"""
import specclient
from parts import roundtrip as R
from parts import unparse_tie as ut

SPEC = dict(gen=['defs', 'rules', 'tables', 'actions', 'lexdata', 'unicodecat'], props=['CalmVerif.Props.C02', 'CalmVerif.Props.C01typed2'],
            drivers=['drv_unparse', 'drv_spec', 'drv_parse', 'drv_rt'], audit='Audit/C02.lean')


def jobs_of(text, wcs=(False, True)):
    return [('minify', text, wc, d) for wc in wcs for d in (False, True)]


def minify_configs():
    return [c for c in ut.default_configs(obf=False, indents=[]) if c.ruleset in ('minify0', 'minify1')]


def run(ctx):
    ctx.rule('programs: as C01 (fixed list, corpus, G1, G2 with wild layouts) with and without comments, plus the targeted '
             'token-adjacency generator: every token class (identifier incl. $/_/non-ASCII/combining mark/connector, keyword '
             'literals, numbers 1 1. .5 1e3 0x1 017, strings, regex with and without flags, every punctuator) in every slot where '
             'two tokens can be adjacent (binary operands, unary after binary, postfix then binary, in/instanceof operands, member '
             'access, keyword + operand, statement sequences) and empty statements as loop/if/label bodies at the end of blocks, '
             'functions, clauses and the program; x drop_semi off/on; judged M1..M6; distinct by (text, comments flag, drop_semi)')
    ctx.trusted += ['Lean 4.33 kernel', 'Spec.Es5Lex/Es5Parse as a reading of ECMA-262 5.1 (the conforming parser of the judge)',
                    'translators g_defs.py, g_rules.py, g_lexdata.py', 'harness parts/roundtrip.py, unparse_tie.py, parsetie.py']
    ctx.assumptions += ['obfuscation off (C07 covers renaming)', 'texts are free of lone surrogates',
                        'the grammar layer (reference parser reads tokensOf(t) as t) rests on this judge, not on a theorem']
    spec = specclient.Spec(ctx)
    R.known_witnesses(ctx, spec)
    texts = R.program_texts(ctx, 'C02', ctx.n(60, 392), ctx.n(60, 1000))
    jobs = []
    for t in texts:
        jobs += jobs_of(t)
    res = R.judge_many(spec, jobs)
    bad, n = R.handle_results(ctx, spec, res, 'judge')
    # targeted generator
    T = R.targeted_programs()
    rng = ctx.sub_rng('targeted')
    fixed = [p for p in T if p[1] in ('fixed', 'unary-chain')]
    rest = [p for p in T if p[1] not in ('fixed', 'unary-chain')]
    pick = fixed + rng.sample(rest, min(len(rest), ctx.n(1500, 12000)))
    for _, slot in pick:
        ctx.bump('slot:' + slot.split(':')[0])
    res2 = R.judge_many(spec, [j for t, _ in pick for j in jobs_of(t, (False,))])
    bad2, n2 = R.handle_results(ctx, spec, res2, 'targeted')
    ctx.sample(dict(text='x = a + +b - --c / d in e;', drop_semi=True, output=R.minify(R.parse('x = a + +b - --c / d in e;'), True)))
    ctx.obligation('judge: minified output re-parses (real parser and ES5 reference) to the same program, token sequence unchanged, '
                   'dropped semicolons restored by ASI', not (bad or bad2), 'judge',
                   '%d + %d (program, comments, drop_semi) cases judged; %d unexplained failures' % (n, n2, len(bad) + len(bad2)))
    R.slot_typing(ctx, spec, res + res2)
    trng = ctx.sub_rng('tie')
    items = list(R.FIXED) + trng.sample(texts, min(len(texts), ctx.n(40, 800))) + [t for t, _ in trng.sample(pick, ctx.n(60, 600))]
    R.tie(ctx, spec, items, minify_configs(), lambda t: jobs_of(t, (False,)))


def replay(ctx, path):
    return R.replay_case(ctx, path)
