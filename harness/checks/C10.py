"""
C10  Base64-VLQ codec is a bijection in canonical Source Map V3 form.

Theorems: lean/CalmVerif/Props/C10.lean (all integers / lists / structures /
canonical strings, no bound).  This module is the *tie* (stage S6: the Lean model
Model/Vlq.lean against the imported calmjs.parse.vlq, through `drv_vlq`) and the
*direct judge* of the property on the implementation, whose independent oracle is
the Lean Spec codec (Spec/VlqV3.lean through `drv_vlq specenc/specdec/canon/wf`),
cross-checked against a ten-line Python reference that is also the fall-back
oracle when the driver cannot be built.

Verdict logic (BUILDERS.md): a model/implementation difference is shrunk and the
judge is run on it and around it; only a judge failure is a VIOLATION with a
concrete input, otherwise the tie obligation is recorded as broken.
"""
import json

import proto
import framework

SPEC = dict(
    gen=['vlq'],
    props=['CalmVerif.Props.C10'],
    drivers=['drv_vlq'],
    audit='Audit/C10.lean',
)

RFC4648 = 'ABCDEFGHIJKLMNOPQRSTUVWXYZabcdefghijklmnopqrstuvwxyz0123456789+/'
FOREIGN = [',', ';', '=', '-', '_', ' ', '\n', '\x00', '!', 'é', '€', '\U0001f600', 'Ａ']


def V():
    from calmjs.parse import vlq
    return vlq


# --------------------------------------------------------------------------
# independent Python reference (Source Map V3), used as fall-back oracle and to
# cross-check the Lean Spec driver.  Deliberately written with divmod, not bit ops.
# --------------------------------------------------------------------------

def ref_encode(v):
    raw = 2 * abs(v) + (1 if v < 0 else 0)
    out = []
    while True:
        raw, d = divmod(raw, 32)
        if raw:
            out.append(RFC4648[d + 32])
        else:
            out.append(RFC4648[d])
            return ''.join(out)


def ref_decode(s):
    """strict: None for a foreign character or an unterminated last group"""
    res, group = [], []
    for c in s:
        d = RFC4648.find(c)
        if d < 0:
            return None
        group.append(d % 32)
        if d < 32:
            raw = 0
            for g in reversed(group):
                raw = raw * 32 + g
            res.append(-(raw // 2) if raw % 2 else raw // 2)
            group = []
    return None if group else res


def ref_canonical(s):
    mid = False
    for c in s:
        d = RFC4648.find(c)
        if d < 0:
            return False
        if d >= 32:
            mid = True
        else:
            if (mid and d == 0) or (not mid and d == 1):
                return False
            mid = False
    return not mid


def py_wf(m):
    return len(m) > 0 and all(len(seg) > 0 for line in m for seg in line)


# --------------------------------------------------------------------------
# canonical outcomes of the implementation and of the model
# --------------------------------------------------------------------------

def exc_outcome(e):
    if isinstance(e, KeyError):
        k = e.args[0] if e.args else None
        if isinstance(k, str) and len(k) == 1:
            return ('EXC', 'KeyError', ord(k))
        return ('EXC', 'KeyError', repr(k))
    return ('EXC', type(e).__name__)


def guarded(f, *a):
    try:
        return ('OK', f(*a))
    except RecursionError:
        raise
    except Exception as e:           # noqa: the outcome *is* the exception kind
        return exc_outcome(e)


def norm_map(m):
    return [[[int(x) for x in seg] for seg in line] for line in m]


IMPL = {
    'enc': lambda a: guarded(lambda: V().encode_vlq(a)),
    'encs': lambda a: guarded(lambda: V().encode_vlqs(list(a))),
    'dec': lambda a: guarded(lambda: [int(x) for x in V().decode_vlqs(a)]),
    'dec1': lambda a: guarded(lambda: int(V().decode_vlq(a))),
    'encmap': lambda a: guarded(lambda: V().encode_mappings(a)),
    'decmap': lambda a: guarded(lambda: norm_map(V().decode_mappings(a))),
}


def request(kind, a):
    if kind in ('enc', 'specenc'):
        return '%s %d' % (kind, a)
    if kind in ('encs', 'specencs'):
        return ' '.join([kind] + ['%d' % x for x in a])
    if kind in ('dec', 'dec1', 'decmap', 'specdec', 'canon'):
        return '%s %s' % (kind, proto.enc_str(a))
    if kind in ('encmap', 'wf'):
        return '%s %s' % (kind, proto.render(a))
    raise ValueError(kind)


def parse_reply(kind, r):
    """Lean reply line -> the same canonical outcome shape as IMPL"""
    ts = r.split(' ')
    if ts[0] == 'EXC':
        if ts[1] == 'KeyError':
            return ('EXC', 'KeyError', int(ts[2]))
        return ('EXC', ts[1])
    if ts[0] == 'NONE':
        return ('NONE',)
    if ts[0] in ('T', 'F') and len(ts) == 1:
        return ('OK', ts[0] == 'T')
    if ts[0] != 'OK':
        raise framework.Infra('drv_vlq answered %r to a %s request' % (r[:200], kind))
    if kind in ('enc', 'encs', 'encmap', 'specenc', 'specencs'):
        return ('OK', proto.dec_str(ts[1]))
    if kind in ('dec', 'specdec'):
        return ('OK', [int(t) for t in ts[1:]])
    if kind == 'dec1':
        return ('OK', int(ts[1]))
    if kind == 'decmap':
        return ('OK', proto.parse(' '.join(ts[1:])))
    raise ValueError(kind)


class Client(object):
    """Pipelined client on top of framework.Driver.

    Util/Loop.lean only flushes its stdout on the `#flush` request (or at EOF), so
    every batch ends with `#flush` and is read up to the `#flushed` marker.  Batches
    are cut by *bytes* (requests with 400-bit integers are long): both pipe buffers
    (64 KiB) must be able to hold a whole batch or writer and reader dead-lock."""
    LIMIT = 48000

    def __init__(self, drv):
        self.drv = drv

    def _batch(self, lines):
        p = self.drv.p
        p.stdin.write('\n'.join(lines) + '\n#flush\n')
        p.stdin.flush()
        out = []
        for _ in lines:
            r = p.stdout.readline()
            if not r:
                raise framework.Infra('driver %s died' % self.drv.name)
            out.append(r.rstrip('\n'))
        if p.stdout.readline().rstrip('\n') != '#flushed':
            raise framework.Infra('driver %s lost synchronisation' % self.drv.name)
        self.drv.n += len(lines)
        return out

    def ask_many(self, lines):
        res, cur, size = [], [], 0
        for l in lines:
            assert '\n' not in l
            if cur and size + 6 * len(l) > self.LIMIT:
                res.extend(self._batch(cur))
                cur, size = [], 0
            cur.append(l)
            size += 6 * len(l.encode("utf8")) + 16
        if cur:
            res.extend(self._batch(cur))
        return res

    def ask(self, line):
        return self.ask_many([line])[0]


class Oracle(object):
    """the independent codec: Lean Spec through the driver, or the Python reference"""

    def __init__(self, drv):
        self.drv = drv

    def many(self, kind, args):
        if self.drv is None:
            return [self.py(kind, a) for a in args]
        rs = self.drv.ask_many([request(kind, a) for a in args])
        return [parse_reply(kind, r) for r in rs]

    def one(self, kind, a):
        return self.many(kind, [a])[0]

    @staticmethod
    def py(kind, a):
        if kind == 'specenc':
            return ('OK', ref_encode(a))
        if kind == 'specencs':
            return ('OK', ''.join(ref_encode(x) for x in a))
        if kind == 'specdec':
            r = ref_decode(a)
            return ('NONE',) if r is None else ('OK', r)
        if kind == 'canon':
            return ('OK', ref_canonical(a))
        if kind == 'wf':
            return ('OK', py_wf(a))
        raise ValueError(kind)


# --------------------------------------------------------------------------
# the direct judge: the laws of the property evaluated on the implementation
# --------------------------------------------------------------------------

def judge(kind, a, orc):
    """returns None if every applicable law holds on the implementation, else a text"""
    vlq = V()
    try:
        if kind == 'enc':
            s = vlq.encode_vlq(a)
            back = vlq.decode_vlqs(s)
            if tuple(back) != (a,):
                return 'law1 decode_vlqs(encode_vlq(%d)) = %r' % (a, back)
            if vlq.decode_vlq(s) != a:
                return 'law1 decode_vlq(encode_vlq(%d)) = %r' % (a, vlq.decode_vlq(s))
            want = orc.one('specenc', a)
            if want != ('OK', s):
                return 'law5 encode_vlq(%d) = %r but the V3 canonical form is %r' % (a, s, want[1])
            ind = orc.one('specdec', s)
            if ind != ('OK', [a]):
                return 'law5 independent V3 decoder reads encode_vlq(%d) = %r as %r' % (a, s, ind)
        elif kind == 'encs':
            s = vlq.encode_vlqs(list(a))
            back = vlq.decode_vlqs(s)
            if list(back) != list(a):
                return 'law2 decode_vlqs(encode_vlqs(%r)) = %r' % (a, back)
            want = orc.one('specencs', list(a))
            if want != ('OK', s):
                return 'law5 encode_vlqs(%r) = %r but the V3 canonical form is %r' % (a, s, want[1])
            ind = orc.one('specdec', s)
            if ind != ('OK', list(a)):
                return 'law5 independent V3 decoder reads encode_vlqs(%r) = %r as %r' % (a, s, ind)
        elif kind == 'encmap':
            if not py_wf(a):
                return None          # outside the quantifier of law 3
            s = vlq.encode_mappings(a)
            back = norm_map(vlq.decode_mappings(s))
            if back != norm_map(a):
                return 'law3 decode_mappings(encode_mappings(%r)) = %r' % (a, back)
            # independent reading of the text: split, then the V3 decoder per segment
            lines = s.split(';')
            ind = [[orc.one('specdec', seg) for seg in line.split(',') if seg] for line in lines]
            if ind != [[('OK', list(seg)) for seg in line] for line in a]:
                return 'law5 independent V3 decoder reads encode_mappings(%r) = %r as %r' % (a, s, ind)
        elif kind in ('dec', 'dec1', 'decmap'):
            if kind == 'decmap':
                return None
            if orc.one('canon', a) != ('OK', True):
                return None          # law 4 quantifies over canonical strings only
            ints = vlq.decode_vlqs(a)
            back = vlq.encode_vlqs(ints)
            if back != a:
                return 'law4 encode_vlqs(decode_vlqs(%r)) = %r' % (a, back)
            ind = orc.one('specdec', a)
            if ind != ('OK', list(ints)):
                return 'law5 decode_vlqs(%r) = %r but the independent V3 decoder reads %r' % (a, ints, ind)
            if a and vlq.decode_vlq(a) != ints[0]:
                return 'law4 decode_vlq(%r) = %r' % (a, vlq.decode_vlq(a))
    except RecursionError:
        raise
    except Exception as e:       # noqa
        return '%s on %r raised %s: %s' % (kind, a, type(e).__name__, e)
    return None


# --------------------------------------------------------------------------
# shrinking
# --------------------------------------------------------------------------

def shrink_candidates(kind, a):
    if kind == 'enc':
        if a:
            yield 0
            for d in (2, 32):
                c = int(a / d) if a > 0 else -int(-a / d)
                if c != a:
                    yield c
            yield a - 1 if a > 0 else a + 1
            if a < 0:
                yield -a
    elif kind == 'encs':
        a = list(a)
        for i in range(len(a)):
            yield a[:i] + a[i + 1:]
        for i in range(len(a)):
            for c in shrink_candidates('enc', a[i]):
                yield a[:i] + [c] + a[i + 1:]
    elif kind == 'encmap':
        for i in range(len(a)):
            yield a[:i] + a[i + 1:]
        for i in range(len(a)):
            for j in range(len(a[i])):
                yield a[:i] + [a[i][:j] + a[i][j + 1:]] + a[i + 1:]
                for c in shrink_candidates('encs', a[i][j]):
                    if c:
                        yield a[:i] + [a[i][:j] + [c] + a[i][j + 1:]] + a[i + 1:]
    else:
        for i in range(len(a)):
            yield a[:i] + a[i + 1:]
        for i in range(len(a)):
            if a[i] != 'A':
                yield a[:i] + 'A' + a[i + 1:]


def shrink(kind, a, bad, budget=400):
    """greedy: `bad(case)` is true for a case that still shows the problem"""
    steps = 0
    progress = True
    while progress and steps < budget:
        progress = False
        for c in shrink_candidates(kind, a):
            steps += 1
            if steps > budget:
                break
            try:
                if bad(c):
                    a = c
                    progress = True
                    break
            except framework.Infra:
                raise
            except Exception:
                continue
    return a


def neighbours(kind, a, rng):
    """deeper search around a shrunk difference"""
    if kind == 'enc':
        for d in range(-40, 41):
            yield a + d
        for k in range(0, 12):
            for d in (-1, 0, 1):
                yield a * 32 ** k + d
                yield -(a * 32 ** k + d)
    elif kind == 'encs':
        for x in a:
            for c in neighbours('enc', x, rng):
                yield [c]
        for c in list(a):
            yield list(a) + [c]
    elif kind == 'encmap':
        for line in a:
            for seg in line:
                yield [[seg]]
                yield [[seg, seg]]
    else:
        for c in RFC4648:
            yield a + c
            yield c + a


# --------------------------------------------------------------------------
# generators
# --------------------------------------------------------------------------

def gen_ints(ctx):
    """exhaustive symmetric range, every power-of-32 boundary, powers of two, random big"""
    n = ctx.n(5000, 70000)
    out = []
    for i in range(-n, n + 1):
        out.append(i)
    ctx.bump('int:exhaustive(+-%d)' % n, 2 * n + 1)
    for k in range(0, 81):
        for d in (-1, 0, 1):
            for s in (1, -1):
                out.append(s * (32 ** k + d))
                ctx.bump('int:32^k boundary')
    for k in range(0, 401, 1 if ctx.tier == 'thorough' else 7):
        for d in (-1, 0, 1):
            for s in (1, -1):
                out.append(s * (2 ** k + d))
                ctx.bump('int:2^k boundary')
    rng = ctx.sub_rng('ints')
    for _ in range(ctx.n(1500, 20000)):
        bits = rng.choice([rng.randint(1, 40), rng.randint(1, 400), rng.randint(17, 70)])
        v = rng.getrandbits(bits)
        out.append(-v if rng.random() < 0.5 else v)
        ctx.bump('int:random <=%d bits' % (40 if bits <= 40 else 100 if bits <= 100 else 400))
    return out


def rand_int(rng):
    r = rng.random()
    if r < 0.45:
        return rng.randint(-40, 40)
    if r < 0.7:
        return rng.randint(-5000, 5000)
    if r < 0.85:
        k = rng.randint(0, 30)
        return rng.choice((1, -1)) * (32 ** k + rng.choice((-1, 0, 1)))
    return rng.choice((1, -1)) * rng.getrandbits(rng.randint(1, 200))


def gen_lists(ctx):
    rng = ctx.sub_rng('lists')
    out = [[], [0], [0, 0], [-1], [15, 16, -15, -16]]
    for _ in range(ctx.n(1500, 20000)):
        n = rng.choice([0, 1, 1, 2, 3, 4, 4, 5, 5, rng.randint(6, 25)])
        out.append([rand_int(rng) for _ in range(n)])
    for l in out:
        ctx.bump('list:len %s' % (len(l) if len(l) < 6 else '6+'))
    return out


def gen_mappings(ctx):
    rng = ctx.sub_rng('mappings')
    out = [[], [[]], [[], []], [[[]]], [[[0]]], [[[0, 0, 0, 0]], [], [[1, 0, 2, 3, 1], [4]]], [[[1], []]],
           # segments that restate the previous position (all fields zero), leading and non-leading, 1 / 4 / 5 fields
           [[[4, 0, 0, 4], [0, 0, 0, 0], [2, 0, 1, 0]]], [[[0, 0, 0, 0], [0, 0, 0, 0]]], [[[3], [0], [0, 0, 0, 0, 0], [1, 0, 0, 0, 0]]],
           [[[0], [0], [0]], [[0, 0, 0, 0, 0], [0, 0, 0, 0, 0]]]]
    for _ in range(ctx.n(1200, 15000)):
        m = []
        for _l in range(rng.choice([0, 1, 1, 2, 3, 4, rng.randint(5, 12)])):
            line = []
            for _s in range(rng.choice([0, 0, 1, 1, 2, 3, rng.randint(4, 9)])):
                r = rng.random()
                n = 0 if r < 0.04 else rng.choice([1, 4, 4, 5, 5, rng.randint(1, 8)])
                if rng.random() < 0.06:
                    line.append([0] * n)        # an all-zero segment
                    continue
                line.append([rand_int(rng) if rng.random() < 0.3 else rng.randint(-60, 60) for _ in range(n)])
            m.append(line)
        out.append(m)
    # segments of every arity 1..4 over values whose base-32 digits are zero in the low places (16, 512, 16384: the
    # continuation characters are all `g`) next to small ones: every way a short segment string can be cut into fields
    import itertools
    special = [0, 1, -1, 15, 16, -16, 512, 16384, -16384, 32768]
    for n in (1, 2, 3, 4):
        combos = list(itertools.product(special, repeat=n))
        if len(combos) > ctx.n(1200, 12000):
            combos = rng.sample(combos, ctx.n(1200, 12000))
        for c in combos:
            out.append([[list(c)]])
        out.append([[list(c) for c in combos[:40]], [], [list(c) for c in combos[40:60]]])
    for m in out:
        ctx.bump('mappings:%s' % ('well-formed' if py_wf(m) else 'no line' if not m else 'has empty segment'))
    return out


def rand_canonical_group(rng):
    k = rng.choice([1, 1, 1, 2, 2, 3, 4, rng.randint(5, 40)])
    if k == 1:
        d = rng.choice([x for x in range(32) if x != 1])
        return RFC4648[d]
    return ''.join(RFC4648[rng.randint(32, 63)] for _ in range(k - 1)) + RFC4648[rng.randint(1, 31)]


def gen_strings(ctx):
    """(canonical, non-canonical over the alphabet, with foreign characters, exhaustive short)"""
    rng = ctx.sub_rng('strings')
    canon, alpha, foreign = [''], [], []
    for _ in range(ctx.n(1500, 20000)):
        canon.append(''.join(rand_canonical_group(rng) for _ in range(rng.choice([1, 1, 2, 3, 4, rng.randint(5, 15)]))))
    # exhaustive short strings over the alphabet: length <= 2 (quick), <= 3 (thorough)
    for a in RFC4648:
        alpha.append(a)
        for b in RFC4648:
            alpha.append(a + b)
            if ctx.tier == 'thorough':
                for c in RFC4648:
                    alpha.append(a + b + c)
    ctx.bump('string:exhaustive over alphabet, len<=%d' % ctx.n(2, 3), len(alpha))
    for _ in range(ctx.n(1500, 20000)):
        n = rng.choice([1, 2, 3, 4, 6, rng.randint(7, 40)])
        r = rng.random()
        if r < 0.4:
            s = ''.join(rng.choice(RFC4648) for _ in range(n))
        elif r < 0.6:     # redundant zero digit / negative zero somewhere
            s = ''.join(rng.choice([rand_canonical_group(rng), 'B', RFC4648[rng.randint(32, 63)] + 'A',
                                    RFC4648[rng.randint(32, 63)] + 'gA']) for _ in range(n))
        elif r < 0.8:     # unterminated tail
            s = ''.join(rand_canonical_group(rng) for _ in range(n - 1)) + ''.join(
                RFC4648[rng.randint(32, 63)] for _ in range(rng.randint(1, 4)))
        else:
            s = ''.join(rng.choice(RFC4648[:32]) for _ in range(n))
        alpha.append(s)
        ctx.bump('string:random over alphabet')
    for _ in range(ctx.n(800, 8000)):
        n = rng.choice([0, 1, 2, 3, 5, rng.randint(6, 20)])
        cs = [rng.choice(RFC4648) for _ in range(n)]
        for _k in range(rng.choice([1, 1, 2, 3])):
            cs.insert(rng.randint(0, len(cs)), rng.choice(FOREIGN))
        foreign.append(''.join(cs))
        ctx.bump('string:with foreign character')
    ctx.bump('string:constructed canonical', len(canon))
    return canon, alpha, foreign


def gen_mapping_strings(ctx, mappings_text):
    rng = ctx.sub_rng('mapstrings')
    out = ['', ';', ',', ';;', ',,', 'A,;,A', 'AAAA,CAAC;;gB']
    pool = RFC4648 + ',,,;;'
    for _ in range(ctx.n(1200, 12000)):
        n = rng.choice([0, 1, 2, 3, 5, 8, rng.randint(9, 60)])
        r = rng.random()
        if r < 0.6:
            s = ''.join(rng.choice(pool) for _ in range(n))
        elif r < 0.85 and mappings_text:
            s = list(rng.choice(mappings_text))
            for _k in range(rng.randint(0, 3)):
                if s:
                    s[rng.randrange(len(s))] = rng.choice(pool)
            s = ''.join(s)
        else:
            cs = [rng.choice(pool) for _ in range(n)]
            cs.insert(rng.randint(0, len(cs)), rng.choice(FOREIGN))
            s = ''.join(cs)
        out.append(s)
    ctx.bump('mapstring:random', len(out))
    return out


# --------------------------------------------------------------------------
# run
# --------------------------------------------------------------------------

def key_of(a):
    return json.dumps(a, sort_keys=True) if not isinstance(a, str) else a


class Stage(object):
    """one correspondence stage = one request kind"""

    def __init__(self, ctx, drv, orc):
        self.ctx, self.drv, self.orc = ctx, drv, orc
        self.diffs = {}       # kind -> first differences
        self.judge_fail = {}  # kind -> (case, text)

    def model(self, kind, a):
        return parse_reply(kind, self.drv.ask(request(kind, a)))

    def differs(self, kind, a):
        return self.model(kind, a) != IMPL[kind](a)

    def run(self, kind, cases, do_judge=True, nontrivial=lambda a: True):
        ctx = self.ctx
        impl = [IMPL[kind](a) for a in cases]
        if self.drv is not None:
            replies = self.drv.ask_many([request(kind, a) for a in cases])
            for a, r, want in zip(cases, replies, impl):
                if parse_reply(kind, r) != want:
                    self.diffs.setdefault(kind, [])
                    if len(self.diffs[kind]) < 5:
                        self.diffs[kind].append(a)
        for a, res in zip(cases, impl):
            ctx.case((kind, key_of(a)), nontrivial(a))
            ctx.bump('outcome:%s:%s' % (kind, res[0] if res[0] == 'OK' else res[1]))
        if do_judge:
            self.judge_batch(kind, cases)

    def judge_batch(self, kind, cases):
        """the laws on the implementation; oracle calls are batched for speed, the
        slow per-case `judge` is only used to describe a failure"""
        vlq = V()
        orc = self.orc
        bad = None
        try:
            if kind == 'enc':
                enc = [guarded(vlq.encode_vlq, a) for a in cases]
                want = orc.many('specenc', cases)
                ind = orc.many('specdec', [e[1] if e[0] == 'OK' and isinstance(e[1], str) else '' for e in enc])
                for a, e, w, d in zip(cases, enc, want, ind):
                    if e != w or d != ('OK', [a]) or guarded(vlq.decode_vlqs, e[1]) != ('OK', (a,)) \
                            or guarded(vlq.decode_vlq, e[1]) != ('OK', a):
                        bad = a
                        break
            elif kind == 'encs':
                enc = [guarded(vlq.encode_vlqs, list(a)) for a in cases]
                want = orc.many('specencs', cases)
                ind = orc.many('specdec', [e[1] if e[0] == 'OK' and isinstance(e[1], str) else '' for e in enc])
                for a, e, w, d in zip(cases, enc, want, ind):
                    if e != w or d != ('OK', list(a)) or guarded(vlq.decode_vlqs, e[1]) != ('OK', tuple(a)):
                        bad = a
                        break
            elif kind == 'encmap':
                wf = orc.many('wf', cases)
                for a, w in zip(cases, wf):
                    if w != ('OK', py_wf(a)):
                        raise framework.Infra('Spec WFMappings and the harness disagree on %r' % (a,))
                    if judge(kind, a, orc) is not None:
                        bad = a
                        break
            elif kind == 'dec':
                canon = orc.many('canon', cases)
                sel = [a for a, c in zip(cases, canon) if c == ('OK', True)]
                self.ctx.bump('law4:canonical strings judged', len(sel))
                ind = orc.many('specdec', sel)
                for a, d in zip(sel, ind):
                    ints = guarded(vlq.decode_vlqs, a)
                    if ints[0] != 'OK' or d != ('OK', list(ints[1])) or guarded(vlq.encode_vlqs, ints[1]) != ('OK', a):
                        bad = a
                        break
        except framework.Infra:
            raise
        if bad is not None and kind not in self.judge_fail:
            small = shrink(kind, bad, lambda c: judge(kind, c, orc) is not None)
            self.judge_fail[kind] = (small, judge(kind, small, orc) or judge(kind, bad, orc))


def run(ctx):
    ctx.rule('a case is one (operation, argument) pair; distinct = distinct argument per operation; '
             'trivial (not counted) only the empty list / empty string / empty structure')
    ctx.trusted.extend([
        'Lean 4.33 kernel; axioms propext, Quot.sound, Classical.choice only',
        'Spec/VlqV3.lean as a faithful reading of the Source Map V3 Base64-VLQ section and RFC 4648 table 1',
        'translator harness/gen/g_vlq.py (reflects the module constants) and this correspondence harness',
        'Lean compiler/runtime for drv_vlq (tie and judge oracle only; no theorem depends on it)',
    ])
    ctx.assumptions.extend([
        'Python str is modelled as a list of Unicode scalar values (no lone surrogates)',
        'arguments are Python ints (bool/float/other numeric types are outside the model)',
    ])
    drv = None
    if getattr(ctx, 'drivers_ok', True):
        try:
            drv = Client(ctx.driver('drv_vlq'))
        except framework.Infra as e:
            ctx.note('driver unavailable: %s' % e)
    orc = Oracle(drv)
    st = Stage(ctx, drv, orc)

    # the generated constants the driver was compiled with are those of the imported module
    if drv is not None:
        vlq = V()
        r = drv.ask('consts').split(' ')
        got = (r[0], [int(x) for x in r[1:6]], proto.dec_str(r[6]))
        want = ('OK', [vlq.VLQ_MULTI_CHAR, vlq.VLQ_SHIFT, vlq.VLQ_CONT, vlq.VLQ_CONT_MASK, vlq.VLQ_BASE_MASK], vlq.INT_B64)
        ctx.obligation('tie:S6 generated constants = imported module constants', got == want, 'tie',
                       '%r vs %r' % (got, want) if got != want else '')

    ints = gen_ints(ctx)
    lists = gen_lists(ctx)
    maps = gen_mappings(ctx)
    canon, alpha, foreign = gen_strings(ctx)
    for x in (ints[len(ints) // 2 + 123], ints[-1], lists[-1], maps[-1], canon[-1], alpha[-1], foreign[-1]):
        ctx.sample(x)

    # cross-check of the two independent oracles (Lean Spec vs Python reference)
    if drv is not None:
        sub = ints[::7] + ints[-3000:]
        ok = orc.many('specenc', sub) == [Oracle.py('specenc', a) for a in sub]
        strs = canon + alpha[::5] + foreign[::3]
        ok2 = orc.many('specdec', strs) == [Oracle.py('specdec', a) for a in strs]
        ok3 = orc.many('canon', strs) == [Oracle.py('canon', a) for a in strs]
        ctx.obligation('oracle: Lean Spec.VlqV3 = Python reference V3 codec (encode, decode, Canonical)',
                       ok and ok2 and ok3, 'tie', 'encode %s decode %s canonical %s' % (ok, ok2, ok3))

    st.run('enc', ints)
    st.run('encs', lists, nontrivial=lambda a: len(a) > 0)
    st.run('encmap', maps, nontrivial=lambda a: len(a) > 0)
    enc_texts = [r[1] for r in (IMPL['encs'](l) for l in lists) if r[0] == 'OK' and isinstance(r[1], str)]
    map_texts = [r[1] for r in (IMPL['encmap'](m) for m in maps) if r[0] == 'OK' and isinstance(r[1], str)]
    dec_cases = canon + alpha + foreign + enc_texts
    st.run('dec', dec_cases, nontrivial=lambda a: len(a) > 0)
    st.run('dec1', canon + alpha + foreign, do_judge=False, nontrivial=lambda a: len(a) > 0)
    st.run('decmap', map_texts + gen_mapping_strings(ctx, map_texts), do_judge=False, nontrivial=lambda a: len(a) > 0)

    # ---- the laws after calls that FAILED: a call that raises part way through (a non-integer in the middle of a segment,
    # an iterator that breaks) must leave nothing behind that changes what the next call returns
    vlq = V()

    def breaking():
        yield 1
        yield 2
        raise RuntimeError('source of integers broke')
    poison = [lambda: vlq.encode_vlqs((1, 2, None)), lambda: vlq.encode_vlqs(breaking()), lambda: vlq.encode_vlqs([5, 'x']),
              lambda: vlq.encode_mappings([[(1, 0, 0, 0), (2, None)]]), lambda: vlq.decode_vlqs('AA!A'), lambda: vlq.decode_vlq('!'),
              lambda: vlq.decode_mappings('AAAA;A!'), lambda: vlq.encode_vlq(None)]
    after = [('encs', [3]), ('encs', [0, -1, 1 << 40]), ('encmap', [[[1, 0, 0, 0], [2, 0, 1, 0, 3]], [[4]]]), ('enc', -128),
             ('dec', 'CEG'), ('dec', 'AAgB')]
    for k, bad in enumerate(poison):
        try:
            bad()
        except Exception:
            pass
        for kind, a in after:
            ctx.case(('after-failure', k, kind, key_of(a)))
            t = judge(kind, a, orc)
            if t is not None and kind not in st.judge_fail:
                st.judge_fail[kind] = (a, 'after a call that raised (#%d): %s' % (k, t))
    ctx.bump('after-failure-cases', len(poison) * len(after))

    # ---- verdict
    for kind, (case, text) in sorted(st.judge_fail.items()):
        ctx.violation('C10 fails on the implementation: %s' % text,
                      dict(kind=kind, arg=case, judge=text), True)
    names = dict(enc='encode_vlq', encs='encode_vlqs', encmap='encode_mappings', dec='decode_vlqs',
                 dec1='decode_vlq', decmap='decode_mappings')
    for kind in ('enc', 'encs', 'encmap', 'dec', 'dec1', 'decmap'):
        name = 'tie:S6 %s model = implementation' % names[kind]
        if drv is None:
            ctx.obligation(name, False, 'tie', 'driver drv_vlq not available')
            continue
        if kind not in st.diffs:
            ctx.obligation(name, True, 'tie')
            continue
        first = st.diffs[kind][0]
        small = shrink(kind, first, lambda c: st.differs(kind, c))
        detail = 'first difference %r, shrunk to %r: model %r, implementation %r' % (
            first, small, st.model(kind, small), IMPL[kind](small))
        # judge on the shrunk case and around it
        found = None
        rng = ctx.sub_rng('deeper/' + kind)
        jk = kind if kind != 'dec1' else 'dec'
        for c in [small, first] + list(neighbours(kind, small, rng)):
            t = judge(jk, c, orc)
            ctx.case((jk, key_of(c)))
            if t is not None:
                found = (shrink(jk, c, lambda x: judge(jk, x, orc) is not None), t)
                break
        if found is not None and not st.judge_fail:
            ctx.violation('C10 fails on the implementation: %s' % (judge(jk, found[0], orc) or found[1]),
                          dict(kind=jk, arg=found[0], judge=found[1], tie_difference=detail), True)
        ctx.obligation(name, False, 'tie', detail)
    if not st.judge_fail:
        ctx.note('judge: laws 1-5 held on the implementation for every generated case')


# --------------------------------------------------------------------------
# replay
# --------------------------------------------------------------------------

def replay(ctx, path):
    data = json.load(open(path))
    rp = data.get('replay', data)
    if 'kind' not in rp:
        print('replay file names broken obligations only (no failing input): %s' % json.dumps(rp)[:2000])
        return 1
    kind, a = rp['kind'], rp['arg']
    drv = None
    try:
        drv = Client(ctx.driver('drv_vlq'))
    except framework.Infra as e:
        print('model side unavailable (%s); using the Python reference oracle' % e)
    orc = Oracle(drv)
    impl = IMPL[kind](a)
    print('case: %s %r' % (kind, a))
    print('implementation: %r' % (impl,))
    if drv is not None:
        print('model:          %r' % (parse_reply(kind, drv.ask(request(kind, a))),))
    t = judge(kind, a, orc)
    print('judge: %s' % (t or 'all laws hold'))
    if t is not None:
        print('VIOLATION property=C10 replay=%s' % path)
        return 1
    return 0
