"""
C16: tree walking reaches every node exactly once, in document order.

tie S8 : Model.Walk (drv_walk, table Gen.Children) vs Walker.walk/filter/extract on trees dumped by vars() reflection
judge  : on the real objects, generic reflection over vars() (comments and private attributes included) as the oracle
known  : KF-16a - nodes stored under `comments` are never yielded
"""
import inspect
import json
import random

import boot
boot.boot()

import corpus
import framework
import proto
from gen import g_children

from calmjs.parse import asttypes
from calmjs.parse.exceptions import ECMASyntaxError
from calmjs.parse.parsers import es5
from calmjs.parse.parsers.es5 import parse
from calmjs.parse.walkers import Walker

SPEC = dict(gen=['children', 'defs'], props=['CalmVerif.Props.C16', 'CalmVerif.Props.C16order'], drivers=['drv_walk'], audit='Audit/C16.lean')

Node = asttypes.Node
KF = 'KF-16a'
KF2 = 'KF-16b'
KF2_WHAT = ('DoWhile.children() returns the predicate before the statement: `do s; while (p)` is walked p, s - '
            'not in source order')
KF_WHAT = ('nodes stored under the `comments` attribute (Comments/LineComment/BlockComment) are never yielded by '
           'Walker.walk/filter/extract')
STAGES = ['tie:S8-walk', 'tie:S8-filter', 'tie:S8-extract', 'tie:wf-hypothesis', 'tie:spec-preorder']
MAX_BATCH_BYTES = 40000        # a batch must fit the stdin pipe: the driver answers while we are still writing


def kind_of(n):
    return type(n).__name__


def ask_batch(drv, lines):
    """lineLoop flushes its stdout only on `#flush` (or EOF): one flush request closes every batch, and the batch
    (< 200 lines, see framework.Driver.ask_many) is written in one piece"""
    assert len(lines) < 200
    got = drv.ask_many(list(lines) + ['#flush'])
    if got[-1] != '#flushed':
        raise framework.Infra('drv_walk lost synchronisation: %r' % got[-1][:100])
    return got[:-1]


# ---------------------------------------------------------------------------------------------
# tree dump for the model driver (vars() reflection only, never children())
# ---------------------------------------------------------------------------------------------

def dump(root):
    """-> (wire line, {id(obj): n}, {id(obj): path}, [obj by n]); ids in order of discovery"""
    ids, paths, objs = {}, {}, []

    def node(n, path):
        if id(n) not in ids:
            ids[id(n)] = len(objs)
            paths[id(n)] = ','.join(path) or '.'
            objs.append(n)
        attrs = [('@id', ids[id(n)])]
        for k, v in vars(n).items():
            if k == '_children_list':
                k = 'children'
            elif k.startswith('_'):
                continue
            attrs.append((k, val(v, path, k, None)))
        return proto.Node(kind_of(n), attrs)

    def val(v, path, k, i):
        if isinstance(v, Node):
            return node(v, path + ['%s.%d' % (k, 0 if i is None else i)])
        if isinstance(v, (list, tuple)):
            if i is not None and g_children._contains_node(v, Node):
                raise TypeError('node inside a nested list: no path notation for %s' % k)
            return [val(x, path, k, j if i is None else i) for j, x in enumerate(v)]
        if v is None or isinstance(v, (bool, int, str)):
            return v
        if isinstance(v, float):
            return repr(v)
        raise TypeError('cannot dump attribute %s = %r' % (k, v))

    line = proto.render(node(root, []))
    return line, ids, paths, objs


# ---------------------------------------------------------------------------------------------
# generic reflection (oracle of the judge)
# ---------------------------------------------------------------------------------------------

def reflect(root):
    """every Node reachable through ANY vars() entry: {id: (obj, parent obj, under `comments`, vars() key in the parent)},
    discovery order"""
    info = {id(root): (root, None, False, None)}
    order = []
    todo = [root]
    while todo:
        n = todo.pop()
        for k, v in vars(n).items():
            under = info[id(n)][2] or k == g_children.COMMENTS_ATTR
            stack = [v]
            while stack:
                x = stack.pop()
                if isinstance(x, Node):
                    if id(x) not in info:
                        info[id(x)] = (x, n, under, k)
                        order.append(x)
                        todo.append(x)
                elif isinstance(x, (list, tuple, set, frozenset)):
                    stack.extend(x)
                elif isinstance(x, dict):
                    stack.extend(x.keys())
                    stack.extend(x.values())
    return info, order


def call(f):
    """('ok', value) or ('raise', 'ExcType: msg'); harness trouble is never swallowed"""
    try:
        return 'ok', f()
    except framework.Infra:
        raise
    except Exception as e:         # whatever the code under test raises is a result to compare
        return 'raise', '%s: %s' % (type(e).__name__, e)


def cond_of(ks):
    return lambda n: kind_of(n) in ks


def same(xs, ys):
    return len(xs) == len(ys) and all(x is y for x, y in zip(xs, ys))


def source_order(root, info, order, W, pos, fails):
    """(g) document order = source order: the leaves (walked nodes storing no node outside `comments`) of a PARSED
    tree must come in non-decreasing lexpos (oracle: positions set by the parser, independent of children()).
    -> inversions whose lowest common ancestor is a DoWhile with the first leaf under `predicate` and the second
    under `statement` (candidate finding KF-16b); every other inversion is appended to fails."""
    inner = set(id(info[id(m)][1]) for m in order if not info[id(m)][2])
    leaves = [n for n in W if id(n) in pos and id(n) not in inner and getattr(n, 'lexpos', None) is not None]
    dowhile = []
    for a, b in zip(leaves, leaves[1:]):
        if a.lexpos <= b.lexpos:
            continue
        chain = [a]
        while info[id(chain[-1])][1] is not None:
            chain.append(info[id(chain[-1])][1])
        cb, y = b, info[id(b)][1]
        while y is not None and not any(y is z for z in chain):
            cb, y = y, info[id(y)][1]
        if y is None:
            fails.append(('source-order', 'leaves out of source order without a common ancestor'))
            continue
        ca = chain[[i for i, z in enumerate(chain) if z is y][0] - 1]
        if kind_of(y) == 'DoWhile' and ca is getattr(y, 'predicate', None) and cb is getattr(y, 'statement', None):
            dowhile.append((a, b))
        else:
            fails.append(('source-order:' + kind_of(y), '%s at offset %d is yielded before %s at offset %d (inside a %s)' % (
                kind_of(a), a.lexpos, kind_of(b), b.lexpos, kind_of(y))))
    return dowhile


def judge(root, info, order, plan, skips_of):
    """plan = [(kinds tuple, extract too?)], skips_of(number of matches) -> skips to try;
    -> (fails [(category, message)], comments-only missed nodes, real results by operation);
    judge.dowhile = DoWhile predicate-before-statement inversions of the last call"""
    fails, real = [], {}
    judge.dowhile = []
    st, W = call(lambda: list(Walker().walk(root)))
    real['walk'] = (st, W)
    if st != 'ok':
        return [('raise:walk', W)], [], real
    pos = {}
    for i, n in enumerate(W):
        if not isinstance(n, Node) or id(n) not in info or n is root:
            fails.append(('foreign', 'walk yields %r which no attribute of the tree stores' % (n,)))
        elif id(n) in pos:
            fails.append(('duplicate:' + kind_of(n), 'walk yields the %s at #%d again at #%d' % (kind_of(n), pos[id(n)], i)))
        else:
            pos[id(n)] = i
    # (a) coverage
    missed = [n for n in order if id(n) not in pos]
    kf = []
    hard = [n for n in missed if not info[id(n)][2]]
    if hard:
        top = [n for n in hard if info[id(n)][1] is root or id(info[id(n)][1]) in pos] or hard
        where = '%s.%s' % (kind_of(info[id(top[0])][1]), info[id(top[0])][3])
        fails.append(('missed:' + where, 'walk never yields %d stored node(s); first: the %s stored in %s' % (
            len(hard), kind_of(top[0]), where)))
    elif missed:
        kf = missed
    # (b) parents first, (c) subtree of every node is one contiguous block, list items in list order
    cnt = {}
    anc = {}
    for n in W:
        chain = []
        p = info[id(n)][1] if id(n) in info else None
        while p is not None and p is not root:
            chain.append(p)
            cnt[id(p)] = cnt.get(id(p), 0) + 1
            p = info[id(p)][1]
        anc[id(n)] = chain
    for n in W:
        if id(n) not in pos:
            continue
        for a in anc[id(n)]:
            if id(a) not in pos or pos[id(a)] > pos[id(n)]:
                if a is anc[id(n)][0]:
                    fails.append(('parent-order:' + kind_of(a), '%s yielded before its parent %s' % (kind_of(n), kind_of(a))))
            elif pos[id(n)] > pos[id(a)] + cnt[id(a)]:
                fails.append(('contiguity:' + kind_of(a), 'descendant %s of %s yielded outside its block' % (kind_of(n), kind_of(a))))
    for m in [root] + order:
        for k, v in vars(m).items():
            if isinstance(v, (list, tuple)):
                ps = [pos[id(x)] for x in v if isinstance(x, Node) and id(x) in pos]
                if ps != sorted(ps):
                    fails.append(('list-order:' + kind_of(m), 'items of %s.%s are not yielded in list order' % (kind_of(m), k)))
    # (g) source order of the leaves
    judge.dowhile = source_order(root, info, order, W, pos, fails)
    # (d) determinism
    st2, W2 = call(lambda: list(Walker().walk(root)))
    if st2 != 'ok' or not same(W, W2):
        fails.append(('nondeterministic', 'a second walk differs from the first'))
    # (h) ONE Walker object, overlapping traversals: two walks in lock step, walks / filters / extracts started while an
    #     outer walk of the same object is suspended — each traversal is the same pre-order whatever else is in flight
    def overlapping():
        w = Walker()
        pairs = list(zip(w.walk(root), w.walk(root)))
        if not same([a for a, _ in pairs], W) or not same([b for _, b in pairs], W):
            return 'two walks of one Walker in lock step differ from a single walk (%d pairs for %d nodes)' % (len(pairs), len(W))
        out = []
        for i, n in enumerate(w.walk(root)):
            out.append(n)
            if i % 5 == 0:
                inner = list(w.walk(n))
                if not same(inner, list(Walker().walk(n))):
                    return 'a walk of a subtree started during a walk of the same Walker differs from a fresh one'
                f = list(w.filter(root, lambda x: isinstance(x, type(n))))
                if not same(f, [x for x in W if isinstance(x, type(n))]):
                    return 'a filter started during a walk of the same Walker is not walk-then-select'
                if w.extract(root, lambda x: x is n) is not n:
                    return 'extract during a walk of the same Walker does not find the node'
        if not same(out, W):
            return 'a walk interleaved with other traversals of the same Walker yields %d of %d nodes' % (len(out), len(W))
        return None
    sto, msg = call(overlapping)
    if sto != 'ok' or msg:
        fails.append(('overlapping', msg if sto == 'ok' else 'overlapping traversals raise: %s' % (msg,)))
    # (i) `walk` yields EVERY node whatever it is given as its second argument (the parameter exists for signature
    #     compatibility with filter only)
    for cond in (lambda n: False, lambda n: isinstance(n, type(W[-1])) if W else False):
        stc, Wc = call(lambda: list(Walker().walk(root, cond)))
        if stc != 'ok' or not same(Wc, W):
            fails.append(('walk-condition', 'walk(node, condition) yields %s nodes, walk(node) yields %d' % (
                len(Wc) if stc == 'ok' else Wc, len(W))))
            break
    # (j) the walk is a function of the tree AS IT IS NOW: after an in-place edit of a list a node hands out (statements
    #     popped / put back), a new walk reflects the edit - nothing is remembered from earlier traversals
    def edited():
        done = 0
        for m in [root] + order:
            for k, v in list(vars(m).items()):
                if k.startswith('_') or not isinstance(v, list) or len(v) < 2 or not all(isinstance(x, Node) for x in v):
                    continue
                if any(id(x) not in pos for x in v):
                    continue
                x = v.pop()
                try:
                    gone = set(id(y) for y in Walker().walk(x)) | {id(x)}
                    want = [n for n in W if id(n) not in gone]
                    got = list(Walker().walk(root))
                    if not same(got, want):
                        return 'after %s.%s.pop() a new walk yields %d nodes, the tree now holds %d' % (
                            kind_of(m), k, len(got), len(want))
                finally:
                    v.append(x)
                if not same(list(Walker().walk(root)), W):
                    return 'after putting the popped item of %s.%s back a new walk differs from the first' % (kind_of(m), k)
                done += 1
                if done >= 3:
                    return None
        return None
    ste, msg = call(edited)
    if ste != 'ok' or msg:
        fails.append(('in-place-edit', msg if ste == 'ok' else 'walking an edited tree raises: %s' % (msg,)))
    # (e) filter = walk then select, (f) extract = n-th match or TypeError
    for ks, ex in plan:
        cond = cond_of(ks)
        want = [n for n in W if cond(n)]
        stf, F = call(lambda: list(Walker().filter(root, cond)))
        real['filter', ks] = (stf, F)
        if stf != 'ok' or not same(F, want):
            fails.append(('filter', 'filter(%s) is not walk-then-select: %s' % (','.join(ks) or '-', F if stf != 'ok' else
                                                                                 [kind_of(n) for n in F])))
        for skip in (skips_of(len(want)) if ex else []):
            ste, E = call(lambda: Walker().extract(root, cond, skip))
            real['extract', ks, skip] = (ste, E)
            if skip < len(want):
                good = ste == 'ok' and E is want[skip]
            else:
                good = ste == 'raise' and E.startswith('TypeError')
            if not good:
                fails.append(('extract', 'extract(%s, skip=%d) with %d matches gives %s %s' % (
                    ','.join(ks) or '-', skip, len(want), ste, E if ste != 'ok' else kind_of(E))))
    return fails, kf, real


# ---------------------------------------------------------------------------------------------
# synthetic trees: every class of the table, optional parts present / absent
# ---------------------------------------------------------------------------------------------

_TABLE = {}


def table():
    if not _TABLE:
        rows, _ = g_children.table()
        _TABLE.update((r['kind'], r) for r in rows)
    return _TABLE


def build(kind, absent, nlist, rng, depth, cnt):
    cls = getattr(es5.asttypes, kind)
    shapes = dict(table()[kind]['attrs'])
    kw = {}
    for pname, p in list(inspect.signature(cls.__init__).parameters.items())[1:]:
        sh = shapes.get(pname)
        if sh is None:
            if p.default is p.empty:
                raise TypeError('%s.__init__ parameter %s has no shape in the table' % (kind, pname))
            continue
        if sh == 'node':
            kw[pname] = None if pname in absent else sub(rng, depth, cnt)
        elif sh == 'nodeList':
            kw[pname] = [sub(rng, depth, cnt) for _ in range(nlist)]
        else:
            kw[pname] = 'null'
    return cls(**kw)


def sub(rng, depth, cnt):
    if depth <= 0 or rng.random() < 0.4:
        cnt[0] += 1
        return es5.asttypes.Identifier('i%d' % cnt[0])
    kind = rng.choice(sorted(table()))
    nodes = [a for a, s in table()[kind]['attrs'] if s == 'node']
    return build(kind, set(a for a in nodes if rng.random() < 0.3), rng.choice((0, 1, 2)), rng, depth - 1, cnt)


def syn_name(kind, absent, nlist, comments, wrap, seed):
    return 'syn:%s:absent=%s:lists=%s:comments=%d:wrap=%s:seed=%d' % (
        kind, '+'.join(sorted(absent)) or '-', nlist, comments, wrap, seed)


def syn_build(name):
    """rebuild a synthetic tree from its name alone (rng seeded by the name, independent of VERIF_SEED)"""
    f = name.split(':')
    if f[0] != 'syn' or len(f) != 7:
        raise ValueError('not a synthetic tree name: %r' % name)
    opt = dict(x.split('=', 1) for x in f[2:])
    rng = random.Random(name)
    absent = set() if opt['absent'] == '-' else set(opt['absent'].split('+'))
    inst = build(f[1], absent, int(opt['lists']), rng, 2, [0])
    if opt['wrap'] == 'E':
        root = es5.asttypes.ES5Program([es5.asttypes.ExprStatement(expr=inst)])
    else:
        root = es5.asttypes.Program([inst])
    if opt['comments'] == '1':
        for n in reflect(root)[1]:
            if n is inst or rng.random() < 0.3:
                n.comments = asttypes.Comments([asttypes.LineComment('// x'), asttypes.BlockComment('/* y */')])
    return root


def syn_names(seeds):
    for kind in sorted(table()):
        row = table()[kind]
        nodes = [a for a, s in row['attrs'] if s == 'node']
        lens = (0, 1, 3) if any(s == 'nodeList' for _, s in row['attrs']) else (0,)
        for mask in range(1 << len(nodes)):
            absent = [a for i, a in enumerate(nodes) if mask >> i & 1]
            for nlist in lens:
                for seed in range(seeds):
                    for comments in (0, 1):
                        yield syn_name(kind, absent, nlist, comments, 'EP'[(comments + seed) % 2], seed)


# ---------------------------------------------------------------------------------------------
# the check
# ---------------------------------------------------------------------------------------------

class Case(object):
    def __init__(self, kind, text, wc, root):
        self.kind, self.text, self.wc, self.root = kind, text, wc, root

    def replay(self, what):
        return dict(kind=self.kind, text=self.text if self.kind == 'program' else None, with_comments=self.wc,
                    synthetic=self.text if self.kind == 'synthetic' else None, what=what)


class Check(object):
    def __init__(self, ctx, drv):
        self.ctx, self.drv = ctx, drv
        self.thorough = ctx.tier == 'thorough'
        self.krng = ctx.sub_rng('kinds')
        self.has_kf = any(e.get('id') == KF for e in ctx.known_findings)
        self.has_kf2 = any(e.get('id') == KF2 for e in ctx.known_findings)
        self.found = {}            # category -> (size, desc, replay)
        self.unresolved = dict((s, []) for s in STAGES)
        self.queue, self.qbytes = [], 0
        self.kf_trees = 0

    # ---- planning of kind sets / skips
    def plan(self, order):
        present = sorted(set(kind_of(n) for n in order))
        rest = [k for k in sorted(table()) if k not in present]
        absent = self.krng.choice(rest) if rest else 'NoSuchKind'
        r = self.krng
        sets = [()]
        if present:
            sets.append(tuple(sorted([r.choice(present), absent])))
            sets.append(tuple(sorted(r.sample(present, r.randint(1, len(present))))))
        if self.thorough:
            sets += [tuple(present), (absent,)]
            for _ in range(3):
                if present:
                    sets.append(tuple(sorted(r.sample(present, r.randint(1, min(3, len(present)))))))
        sets = list(dict.fromkeys(sets))
        return sets, [s for s in sets if self.thorough or s][:len(sets) if self.thorough else 2]

    def skips(self, m):
        if self.thorough:
            return list(range(m + 2))
        return sorted(set(s for s in (0, m - 1, m, m + 1) if s >= 0))

    # ---- one tree
    def process(self, case):
        ctx = self.ctx
        info, order = reflect(case.root)
        nontrivial = len(order) >= 3
        sets, xsets = self.plan(order)
        fails, kf, real = judge(case.root, info, order, [(ks, ks in xsets) for ks in sets], self.skips)
        plan = [(ks, sorted(k[2] for k in real if k[0] == 'extract' and k[1] == ks)) for ks in sets]
        for k in set(kind_of(n) for n in order):
            ctx.bump('kind:' + k)
        ctx.bump('trees:parsed' if case.kind == 'program' else 'trees:synthetic')
        ctx.bump('with_comments' if case.wc else 'without_comments')
        ctx.bump('nodes', len(order))
        if kf:
            self.kf_trees += 1
            ctx.bump('trees with nodes under comments (%s)' % KF)
            if self.has_kf:
                ctx.known(KF, KF_WHAT)
            else:
                k0 = kf[0]
                fails.append(('missed-under-comments', 'walk never yields the %d node(s) stored under `comments` '
                              '(first: %s on a %s)' % (len(kf), kind_of(k0), kind_of(info[id(k0)][1]))))
        if judge.dowhile:
            ctx.bump('trees with a DoWhile walked predicate-first (%s)' % KF2)
            if self.has_kf2:
                ctx.known(KF2, KF2_WHAT)
            else:
                a, b = judge.dowhile[0]
                fails.append(('source-order:DoWhile', 'predicate %s at offset %d is yielded before statement %s at offset %d' % (
                    kind_of(a), a.lexpos, kind_of(b), b.lexpos)))
        for cat, msg in fails:
            self.report(case, cat, msg, len(order))
        case.failed = bool(fails)
        # cases explored
        ctx.case((case.text, case.wc, 'walk', None, None), nontrivial)
        ctx.bump('op:walk')
        for ks, skips in plan:
            ctx.case((case.text, case.wc, 'filter', ks, None), nontrivial)
            ctx.bump('op:filter')
            for s in skips:
                ctx.case((case.text, case.wc, 'extract', ks, s), nontrivial)
                ctx.bump('op:extract')
        if self.drv is not None:
            self.enqueue(case, real, plan, order, info)
        return fails, kf

    def report(self, case, cat, msg, size):
        desc = 'C16 %s on %s %r (with_comments=%s): %s' % (cat, case.kind, case.text, case.wc, msg)
        key = (case.kind != 'program', size, len(case.text))      # prefer trees the parser built, then small ones
        if cat not in self.found or key < self.found[cat][0]:
            self.found[cat] = (key, desc, case.replay('%s: %s' % (cat, msg)))

    # ---- tie
    def enqueue(self, case, real, plan, order, info):
        line, ids, paths, objs = dump(case.root)
        case.line = line

        def item(n):
            if not isinstance(n, Node) or id(n) not in ids:
                return '?/%s/?' % kind_of(n)
            return '%d/%s/%s' % (ids[id(n)], kind_of(n), paths[id(n)])

        def out(res):
            st, v = res
            return ' '.join(['OK'] + [item(n) for n in v]) if st == 'ok' else 'RAISE ' + v

        reqs = [('tie:S8-walk', 'walk ' + line, out(real['walk'])), ('tie:wf-hypothesis', 'wf ' + line, 'T')]
        every = [item(n) for n in objs[1:]]
        reqs.append(('tie:spec-preorder', 'prefull ' + line, ('set', sorted(every))))
        reqs.append(('tie:spec-preorder', 'pre ' + line, ('set', sorted(
            x for x in every if not any(s.startswith(g_children.COMMENTS_ATTR + '.') for s in x.split('/')[2].split(','))))))
        for ks, skips in plan:
            kstr = ','.join(ks) or '-'
            if ('filter', ks) in real:
                reqs.append(('tie:S8-filter', 'filter %s %s' % (kstr, line), out(real['filter', ks])))
            for s in skips:
                if ('extract', ks, s) in real:
                    st, v = real['extract', ks, s]
                    want = 'OK ' + item(v) if st == 'ok' else ('NOMATCH' if v == 'TypeError: no match found' else 'RAISE ' + v)
                    reqs.append(('tie:S8-extract', 'extract %s %d %s' % (kstr, s, line), want))
        for stage, req, want in reqs:
            n = len(req.encode('utf8')) + 1
            if self.queue and (self.qbytes + n > MAX_BATCH_BYTES or len(self.queue) >= 190):
                self.flush()
            self.queue.append((case, stage, req, want))
            self.qbytes += n

    def flush(self):
        if not self.queue:
            return
        got = ask_batch(self.drv, [q[2] for q in self.queue])
        for (case, stage, req, want), g in zip(self.queue, got):
            if isinstance(want, tuple):         # specification lists: compared as sets of items
                ok = g.startswith('OK') and sorted(g.split()[1:]) == want[1]
                want = 'OK {' + ' '.join(want[1]) + '}'
            else:
                ok = g == want
            if not ok:
                self.ctx.bump('tie-difference:' + stage)
                if not case.failed:             # judge passes on this tree: the difference stays unexplained
                    self.unresolved[stage].append(
                        '%s %r with_comments=%s request=%s\n implementation: %s\n model: %s' % (
                            case.kind, case.text, case.wc, req[:600], want[:600], g[:600]))
        self.queue, self.qbytes = [], 0

    def finish(self):
        self.flush()
        ctx = self.ctx
        for cat in sorted(self.found)[:5]:
            _, desc, rep = self.found[cat]
            ctx.violation(desc, rep, True)
        for stage in STAGES:
            u = self.unresolved[stage]
            ctx.obligation(stage, not u, 'tie', ('%d unexplained difference(s) (judge passes); first: %s' % (len(u), u[0]))
                           if u else 'model and implementation agree on every case (differences explained by a judge '
                           'failure: %d)' % ctx.dist.get('tie-difference:' + stage, 0))


def parse_case(ctx, text, wc):
    try:
        return Case('program', text, wc, parse(text, with_comments=wc))
    except ECMASyntaxError:
        if ctx is not None:
            ctx.bump('skipped:ECMASyntaxError')
        return None


def decorate(text):
    return '/* lead */ ' + text + ' // trail'


def cases(ctx):
    seen = set()

    def prog(text, wc):
        if (text, wc) not in seen:
            seen.add((text, wc))
            c = parse_case(ctx, text, wc)
            if c is not None:
                ctx.sample(dict(text=text, with_comments=wc), 8)
                yield c

    for e in corpus.extra('C16') or []:
        for c in prog(e['text'], bool(e.get('with_comments'))):
            yield c
    base = g_children.PROBES + g_children.COMMENT_PROBES + corpus.g1_valid()
    for text in base:
        for text2, wc in ((text, False), (text, True), (decorate(text), True)):
            for c in prog(text2, wc):
                yield c
    for name in syn_names(ctx.n(1, 4)):
        ctx.sample(name, 12)
        yield Case('synthetic', name, name.split(':')[4] == 'comments=1', syn_build(name))
    rng = ctx.sub_rng('concat')
    g1 = corpus.g1_valid()
    for _ in range(ctx.n(0, 300)):
        picks = [rng.choice(g1) for _ in range(rng.randint(2, 6))]
        for text2, wc in (('\n'.join(picks), False), ('\n'.join(picks), True), ('\n'.join(decorate(p) for p in picks), True)):
            ctx.bump('concat:tried')
            for c in prog(text2, wc):
                yield c


def run(ctx):
    boot.boot()
    ctx.rule('non-trivial = tree with >= 3 nodes below the root; each (tree, operation, kind set, skip) counted once')
    ctx.assumptions += [
        'Python recursion limit not modelled (trees deeper than the interpreter stack raise RecursionError)',
        'extract with negative skip not explored', 'conditions are membership tests on the class name only',
        'trees are trees: no node object stored twice (the parser never shares nodes)']
    ctx.trusted += ['Lean 4.33 kernel', 'axioms propext, Quot.sound, Classical.choice only',
                    'tree dump by vars() reflection (checks/C16.dump), proto wire format, drv_walk runtime',
                    'translator g_children (table of what every class stores / returns)']
    drv = ctx.driver('drv_walk')
    cover = ask_batch(drv, ['cover'])[0]
    ctx.obligation('tie:cover-driver', cover == 'T', 'tie', 'drv_walk `cover` (coverTable of the generated table) = %s' % cover)
    chk = Check(ctx, drv)
    for case in cases(ctx):
        chk.process(case)
    # known-finding witnesses
    for e in ctx.known_findings:
        if e.get('id') != KF:
            continue
        w = e.get('witness') or {}
        c = parse_case(None, w.get('text', ''), bool(w.get('with_comments')))
        fails, kf = chk.process(c) if c is not None else ([], [])
        if kf and not fails:
            ctx.known(KF, KF_WHAT)
        else:
            ctx.note('%s witness %r no longer reproduces (fails=%s): the finding may be fixed' % (KF, w, fails))
    if chk.has_kf and not chk.kf_trees:
        ctx.note('%s is listed as open but no tree shows it any more' % KF)
    chk.finish()


def replay(ctx, path):
    boot.boot()
    data = json.load(open(path))
    r = data.get('replay') or {}
    if r.get('kind') not in ('program', 'synthetic'):
        print('REPLAY C16: no failing input was recorded; obligations that no longer check:')
        for o in r.get('broken', []):
            print('  %s (%s): %s' % (o.get('name'), o.get('kind'), str(o.get('detail'))[:400]))
        return 1
    if r['kind'] == 'program':
        case = parse_case(None, r['text'], bool(r.get('with_comments')))
        if case is None:
            print('REPLAY C16: trouble: the recorded program no longer parses: %r' % r['text'])
            return 2
    else:
        case = Case('synthetic', r['synthetic'], bool(r.get('with_comments')), syn_build(r['synthetic']))
    try:
        drv = ctx.driver('drv_walk')
    except framework.Infra as e:
        print('REPLAY C16: tie skipped (%s); judge only' % e)
        drv = None
    chk = Check(ctx, drv)
    chk.thorough = True
    print('REPLAY C16: input %s %r with_comments=%s (recorded: %s)' % (case.kind, case.text, case.wc, r.get('what')))
    fails, kf = chk.process(case)
    chk.flush()
    for stage in STAGES:
        for u in chk.unresolved[stage][:1]:
            print('REPLAY C16: tie difference %s: %s' % (stage, u))
    for cat, n in sorted(ctx.dist.items()):
        if cat.startswith('tie-difference:'):
            print('REPLAY C16: %s x%d' % (cat, n))
    if fails:
        for cat, msg in fails:
            print('REPLAY C16: violation reproduced: %s: %s' % (cat, msg))
        return 1
    if judge.dowhile:
        print('REPLAY C16: known-finding class %s: DoWhile walked predicate before statement' % KF2)
    if kf:
        print('REPLAY C16: only the known finding %s (%d nodes under `comments` not walked)' % (KF, len(kf)))
        return 0
    print('REPLAY C16: property holds on this case')
    return 0
