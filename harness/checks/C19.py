"""
C19  Literal data in a program is extracted as the equal Python value.

Theorems: lean/CalmVerif/Props/C19.lean (string_value_agree_partial, number_value_agree,
extract_json_partial, + refutations of the full statements on the KF-19a/b witnesses).

This module is
  * the tie, stage S9: the real `ast_to_dict(es5(text), fold_ops=f)` against the Lean model
    (`drv_extract extract f <dumped tree>`), on JSON literals and on a JS-flavoured stream
    (single quotes, identifier / numeric keys, hex, `1.`, `.5`, octal / \\x / \\v escapes, line
    continuations, elisions, grouping), in four binding forms and both fold_ops settings;
  * two oracle ties: Spec.Json through the driver (`json <text>`) against Python's `json.loads`,
    and the tree convention of the theorems (`tree <text>`) against the tree the real parser builds;
  * the direct judge on the implementation: result == {name: json.loads(literal)} with type-strict
    equality (bool/int/float distinguished, sign of zero, never nan) and nothing else in the result.

Verdict logic (BUILDERS.md): a tie difference is shrunk, the judge is run on it and around it; only
a judge failure is a VIOLATION with an input.  A judge failure is a KNOWN-FINDING only if its id is
in known_findings.json AND the literal has the structural class (KF-19a: a `\\/` escape, KF-19b: an
escaped UTF-16 surrogate pair; evaluated by the driver with the predicates the `_partial` theorems
assume, cross-checked by a regex) AND the failure disappears when exactly that spelling is repaired.
"""
import json
import math
import re

import proto
import framework
import treedump

SPEC = dict(
    gen=['extractor'],
    props=['CalmVerif.Props.C19'],
    drivers=['drv_extract'],
    audit='Audit/C19.lean',
)

FORMS = ('var', 'assign', 'funcvar', 'funcassign', 'among')


# --------------------------------------------------------------------------
# canonical rendering of Python values (same format as Driver/ExtractMain.lean)
# --------------------------------------------------------------------------

def enc_cps(s):
    return ''.join(c if proto._plain(c) else '%%%x;' % ord(c) for c in s)


def render_float(f):
    if f != f:
        return 'fnan'
    sign = '-' if math.copysign(1.0, f) < 0 else '+'
    if f in (float('inf'), float('-inf')):
        return 'f%sinf' % sign
    n, d = abs(f).as_integer_ratio()
    if n == 0:
        return 'f%s0p0' % sign
    e = 0
    if d == 1:
        while n % 2 == 0:
            n //= 2
            e += 1
    else:
        e = -(d.bit_length() - 1)
    return 'f%s%dp%d' % (sign, n, e)


def py_toks(v, out):
    if v is None:
        out.append('N')
    elif v is True:
        out.append('T')
    elif v is False:
        out.append('F')
    elif type(v) is int:
        out.append('i%d' % v)
    elif type(v) is float:
        out.append(render_float(v))
    elif isinstance(v, str):
        out.append("s'" + enc_cps(v))
    elif isinstance(v, type):
        out.append('C' + v.__name__)
    elif isinstance(v, dict):
        out.append('{')
        for k, x in v.items():
            py_toks(k, out)
            py_toks(x, out)
        out.append('}')
    elif isinstance(v, (list, tuple)):
        out.append('[')
        for x in v:
            py_toks(x, out)
        out.append(']')
    else:
        out.append('?' + type(v).__name__)
    return out


def render_py(v):
    return ' '.join(py_toks(v, []))


def strict_eq(a, b):
    """type-strict equality: bool / int / float distinguished, sign of zero, nan never equal"""
    if type(a) is not type(b):
        return False
    if isinstance(a, float):
        return a == b and math.copysign(1.0, a) == math.copysign(1.0, b)
    if isinstance(a, list):
        return len(a) == len(b) and all(strict_eq(x, y) for x, y in zip(a, b))
    if isinstance(a, dict):
        if len(a) != len(b):
            return False
        for k, x in a.items():
            if type(k) is not str or k not in b or not strict_eq(x, b[k]):
                return False
        return True
    return a == b


# --------------------------------------------------------------------------
# JSON syntax trees with spellings:  ('null',) ('bool', b) ('num', text) ('str', body)
#                                    ('arr', [t\u2026]) ('obj', [(keybody, t)\u2026])
# --------------------------------------------------------------------------

def render_syn(t, rng=None, style='compact'):
    """style: compact | spaced | indent | random"""
    def ws():
        if style == 'compact':
            return ''
        if style == 'spaced':
            return ' '
        if style == 'random':
            return rng.choice(['', '', ' ', '  ', '\t', '\n', ' \n '])
        return ''

    def go(t, lvl):
        k = t[0]
        if k == 'null':
            return 'null'
        if k == 'bool':
            return 'true' if t[1] else 'false'
        if k == 'num':
            return t[1]
        if k == 'str':
            return '"' + t[1] + '"'
        nl = ('\n' + '  ' * (lvl + 1)) if style == 'indent' else ''
        end = ('\n' + '  ' * lvl) if style == 'indent' else ''
        if k == 'arr':
            if not t[1]:
                return '[' + ws() + ']'
            return '[' + (',' + ws()).join(nl + ws() + go(x, lvl + 1) for x in t[1]) + end + ws() + ']'
        if not t[1]:
            return '{' + ws() + '}'
        return '{' + (',' + ws()).join(
            nl + ws() + '"' + key + '"' + ws() + ':' + (' ' if style != 'compact' else '') + ws() + go(x, lvl + 1)
            for key, x in t[1]) + end + ws() + '}'
    return go(t, 0)


class NotJson(Exception):
    pass


def parse_syn(text):
    """spelling-preserving JSON reader (RFC 8259 grammar; literals are NOT validated here)"""
    n = len(text)

    def ws(i):
        while i < n and text[i] in ' \t\n\r':
            i += 1
        return i

    def body(i):
        j = i
        while True:
            if j >= n:
                raise NotJson()
            c = text[j]
            if c == '"':
                return text[i:j], j + 1
            j += 2 if c == '\\' else 1

    def val(i):
        i = ws(i)
        if i >= n:
            raise NotJson()
        c = text[i]
        if c == '"':
            b, j = body(i + 1)
            return ('str', b), j
        if c == '[':
            j = ws(i + 1)
            xs = []
            if j < n and text[j] == ']':
                return ('arr', xs), j + 1
            while True:
                x, j = val(j)
                xs.append(x)
                j = ws(j)
                if j < n and text[j] == ',':
                    j += 1
                elif j < n and text[j] == ']':
                    return ('arr', xs), j + 1
                else:
                    raise NotJson()
        if c == '{':
            j = ws(i + 1)
            kvs = []
            if j < n and text[j] == '}':
                return ('obj', kvs), j + 1
            while True:
                j = ws(j)
                if j >= n or text[j] != '"':
                    raise NotJson()
                k, j = body(j + 1)
                j = ws(j)
                if j >= n or text[j] != ':':
                    raise NotJson()
                x, j = val(j + 1)
                kvs.append((k, x))
                j = ws(j)
                if j < n and text[j] == ',':
                    j += 1
                elif j < n and text[j] == '}':
                    return ('obj', kvs), j + 1
                else:
                    raise NotJson()
        for w, t in (('true', ('bool', True)), ('false', ('bool', False)), ('null', ('null',))):
            if text.startswith(w, i):
                return t, i + len(w)
        m = re.compile(r'[-+.eE0-9]+').match(text, i)
        if m:
            return ('num', m.group()), m.end()
        raise NotJson()

    t, i = val(0)
    if ws(i) != n:
        raise NotJson()
    return t


def bodies(t):
    if t[0] == 'str':
        yield t[1]
    elif t[0] == 'arr':
        for x in t[1]:
            for b in bodies(x):
                yield b
    elif t[0] == 'obj':
        for k, x in t[1]:
            yield k
            for b in bodies(x):
                yield b


def map_bodies(t, f):
    if t[0] == 'str':
        return ('str', f(t[1]))
    if t[0] == 'arr':
        return ('arr', [map_bodies(x, f) for x in t[1]])
    if t[0] == 'obj':
        return ('obj', [(f(k), map_bodies(x, f)) for k, x in t[1]])
    return t


ESC = re.compile(r'\\u([0-9a-fA-F]{4})|\\(.)|([^\\])', re.S)
PAIR = re.compile(r'\\u([dD][89abAB][0-9a-fA-F]{2})\\u([dD][c-fC-F][0-9a-fA-F]{2})')


def items(body):
    """escape-aware split of a string body into (kind, text) items"""
    out = []
    for m in ESC.finditer(body):
        if m.group(1) is not None:
            out.append(('u', m.group(0)))
        elif m.group(2) is not None:
            out.append(('e', m.group(0)))
        else:
            out.append(('c', m.group(0)))
    return out


def has_solidus(body):
    return any(k == 'e' and t == '\\/' for k, t in items(body))


def has_pair(body):
    it = items(body)
    for (k1, t1), (k2, t2) in zip(it, it[1:]):
        if k1 == 'u' and k2 == 'u' and 0xD800 <= int(t1[2:], 16) <= 0xDBFF and 0xDC00 <= int(t2[2:], 16) <= 0xDFFF:
            return True
    return False


def repair_solidus(body):
    return ''.join('/' if (k == 'e' and t == '\\/') else t for k, t in items(body))


def repair_pair(body):
    it = items(body)
    out = []
    i = 0
    while i < len(it):
        k1, t1 = it[i]
        if k1 == 'u' and i + 1 < len(it) and it[i + 1][0] == 'u':
            hi, lo = int(t1[2:], 16), int(it[i + 1][1][2:], 16)
            if 0xD800 <= hi <= 0xDBFF and 0xDC00 <= lo <= 0xDFFF:
                out.append(chr(0x10000 + (hi - 0xD800) * 0x400 + (lo - 0xDC00)))
                i += 2
                continue
        out.append(t1)
        i += 1
    return ''.join(out)


# --------------------------------------------------------------------------
# programs
# --------------------------------------------------------------------------

def program(form, name, lit):
    if form == 'var':
        return 'var %s = %s;' % (name, lit)
    if form == 'assign':
        return '%s = %s;' % (name, lit)
    if form == 'funcvar':
        return 'function f() { var %s = %s; }' % (name, lit)
    if form == 'funcassign':
        return 'function f() { %s = %s; }' % (name, lit)
    if form == 'among':
        return 'var before = [1, "s"]; %s = %s; var after = {"k": null};' % (name, lit)
    raise ValueError(form)


def expected(form, name, v):
    if form in ('var', 'assign'):
        return {name: v}
    if form in ('funcvar', 'funcassign'):
        return {'f': [[], {name: v}]}
    return {'before': [1, 's'], name: v, 'after': {'k': None}}


def located(form, name, res):
    """(value found under the name, True iff nothing else was added)"""
    try:
        if form in ('var', 'assign'):
            return res[name], list(res) == [name]
        if form in ('funcvar', 'funcassign'):
            inner = res['f'][1]
            return inner[name], (list(res) == ['f'] and len(res['f']) == 2 and res['f'][0] == []
                                 and list(inner) == [name])
        return res[name], (sorted(res, key=str) == sorted(['before', name, 'after'])
                           and res['before'] == [1, 's'] and res['after'] == {'k': None})
    except (KeyError, IndexError, TypeError):
        return None, False


class Impl(object):
    def __init__(self):
        from calmjs.parse import es5
        from calmjs.parse.unparsers.extractor import ast_to_dict
        from calmjs.parse.exceptions import ECMASyntaxError
        self.es5, self.ast_to_dict, self.ParseError = es5, ast_to_dict, ECMASyntaxError
        self._cache = {}

    def parse(self, text):
        """None if the text is not a program the parser accepts"""
        if text not in self._cache:
            if len(self._cache) > 4000:
                self._cache.clear()
            try:
                self._cache[text] = self.es5(text)
            except self.ParseError:
                self._cache[text] = None
            except RecursionError:
                raise
            except Exception as e:        # lexer-internal errors (e.g. KeyError on '\\8'): not this property
                self._cache[text] = None
        return self._cache[text]

    def run(self, text, fold):
        """('OK', dict) | ('EXC', name) | None (not parseable)"""
        import warnings
        ast = self.parse(text)
        if ast is None:
            return None
        try:
            with warnings.catch_warnings():
                warnings.simplefilter('ignore')
                return ('OK', self.ast_to_dict(ast, fold_ops=fold))
        except RecursionError:
            raise
        except Exception as e:            # noqa: the outcome is the exception kind
            return ('EXC', type(e).__name__)

    def outcome(self, text, fold):
        r = self.run(text, fold)
        if r is None:
            return None
        return 'OK ' + render_py(r[1]) if r[0] == 'OK' else 'EXC ' + r[1]

    def tree(self, text):
        ast = self.parse(text)
        return None if ast is None else proto.render(treedump.dump(ast))


class Model(object):
    """byte-bounded batches over framework.Driver (the driver flushes after every reply)"""

    def __init__(self, drv):
        self.drv = drv

    def many(self, lines):
        res, cur, size = [], [], 0
        for l in lines:
            b = len(l.encode('utf8')) + 1
            if cur and size + b > 24000:
                res.extend(self.drv.ask_many(cur))
                cur, size = [], 0
            if b > 24000:
                res.append(self.drv.ask(l))
                continue
            cur.append(l)
            size += b
        if cur:
            res.extend(self.drv.ask_many(cur))
        return res

    def one(self, line):
        return self.drv.ask(line)


# --------------------------------------------------------------------------
# the direct judge
# --------------------------------------------------------------------------

def judge(impl, form, name, lit, fold):
    """None if the property holds for this JSON literal on the implementation, else a text"""
    import warnings
    try:
        want = json.loads(lit)
    except ValueError:
        return None                       # not JSON: outside the quantifier
    r = impl.run(program(form, name, lit), fold)
    if r is None:
        return None                       # not an ES5 program (e.g. raw U+2028 in a string): outside
    if r[0] != 'OK':
        return 'ast_to_dict raised %s' % r[1]
    got, alone = located(form, name, r[1])
    if not alone:
        return 'result is %s, expected exactly %s' % (ascii(r[1]), ascii(expected(form, name, want)))
    if not strict_eq(got, want):
        return 'value under %r is %s, a JSON parser gives %s' % (name, ascii(got), ascii(want))
    return None


def classify(mdl, lit):
    """(KF-19a?, KF-19b?) for a JSON literal: driver predicates, cross-checked structurally"""
    try:
        t = parse_syn(lit)
    except NotJson:
        return (False, False)
    a = any(has_solidus(b) for b in bodies(t))
    b = any(has_pair(b) for b in bodies(t))
    if mdl is not None:
        r = mdl.one('class ' + proto.enc_str(lit)).split()
        if r[0] == 'OK' and (r[1] == '1', r[2] == '1') != (a, b):
            raise framework.Infra('exclusion predicates disagree on %r: driver %r, harness %r' % (lit, r, (a, b)))
    return (a, b)


def explained_by(impl, form, name, lit, fold, a, b):
    """the failure disappears when exactly the classified spellings are repaired"""
    try:
        t = parse_syn(lit)
    except NotJson:
        return False
    if a:
        t = map_bodies(t, repair_solidus)
    if b:
        t = map_bodies(t, repair_pair)
    fixed = render_syn(t)
    try:
        if not strict_eq(json.loads(fixed), json.loads(lit)):
            return False
    except ValueError:
        return False
    return judge(impl, form, name, fixed, fold) is None


# --------------------------------------------------------------------------
# generators
# --------------------------------------------------------------------------

RAW_POOL = list('abcXYZ019 _-+=.,:;!?#$%&()*<>@[]^`{|}~/\'') + [
    '\x7f', '\u00e9', '\u00df', '\u0416', '\u4e2d', '\u20ac', '\uffff', '\ufeff', '\u200b', '\U0001f600',
    '\U00010000', '\U0010ffff', '\u0301']
SIMPLE_ESC = ['\\"', '\\\\', '\\b', '\\f', '\\n', '\\r', '\\t']
NUM_POOL = [
    '0', '-0', '1', '-1', '10', '123456789', '9007199254740993', '-9007199254740993', '18446744073709551616',
    '123456789012345678901234567890123456789', '0.0', '-0.0', '0.5', '-0.5', '1.0', '1.5', '0.1', '0.2', '0.3',
    '3.141592653589793', '1e0', '1E0', '1e2', '1E2', '1e+2', '1e-2', '-1e2', '0e0', '-0e0', '0e5', '0.0e-5',
    '1e22', '1e23', '1e-23', '5e-324', '4.9e-324', '2.4703282292062327e-324', '2.4703282292062328e-324',
    '2.2250738585072014e-308', '2.2250738585072011e-308', '1.7976931348623157e308', '1.7976931348623158e308',
    '1.7976931348623159e308', '1e308', '1e309', '-1e309', '1e400', '-1e400', '1e-400', '-1e-400', '1e999',
    '0.000001', '1e-7', '123.456e-7', '100e-2', '1.00', '0.10', '12345678901234567890.0',
    '9007199254740992.5', '9007199254740993.0', '4503599627370496.5', '4503599627370497.5',
    '0.1000000000000000055511151231257827021181583404541015625',
    '8.98846567431158e307', '1.0e+00', '2E-1', '7e00', '7e-00', '1e0000000002',
]


def gen_string_body(rng, json_only=True):
    n = rng.choice([0, 1, 1, 2, 3, 5, 8, rng.randint(9, 20)])
    out = []
    for _ in range(n):
        r = rng.random()
        if r < 0.45:
            out.append(rng.choice(RAW_POOL))
        elif r < 0.6:
            out.append(rng.choice(SIMPLE_ESC))
        elif r < 0.66:
            out.append('\\/')
        elif r < 0.8:
            cp = rng.choice([rng.randint(0, 0x7f), rng.randint(0x80, 0xd7ff), rng.randint(0xe000, 0xffff),
                             0, 0x1f, 0x22, 0x5c, 0x2f, 0x2028, 0x2029])
            h = '%04x' % cp
            out.append('\\u' + (h.upper() if rng.random() < 0.4 else h))
        elif r < 0.88:
            cp = rng.randint(0x10000, 0x10ffff) - 0x10000
            hi, lo = 0xd800 + (cp >> 10), 0xdc00 + (cp & 0x3ff)
            out.append('\\u%04x\\u%04X' % (hi, lo))
        elif r < 0.93:
            out.append('\\u%04x' % rng.choice([0xd800, 0xdbff, 0xdc00, 0xdfff, rng.randint(0xd800, 0xdfff)]))
        else:
            # an escaped back-slash followed by a character that would be an escape letter if the pair were read wrong
            out.append(rng.choice(['\\\\/', '\\\\u0041', '\\\\\\/', '\\\\\\\\', '\\\\"'.replace('"', '\\"')] +
                                  ['\\\\' + c for c in 'abfnrtvxuNU0123']))
    return ''.join(out)


def gen_number(rng):
    r = rng.random()
    if r < 0.4:
        return rng.choice(NUM_POOL)
    sign = '-' if rng.random() < 0.35 else ''
    ip = rng.choice(['0', str(rng.randint(1, 9)), str(rng.randint(10, 99999)),
                     str(rng.getrandbits(rng.choice([8, 53, 64, 200])) or 1)])
    fp = ''
    if rng.random() < 0.5:
        fp = '.' + ''.join(rng.choice('0123456789') for _ in range(rng.choice([1, 1, 2, 3, 6, 17, 30])))
    ep = ''
    if rng.random() < 0.45:
        ep = rng.choice('eE') + rng.choice(['', '+', '-']) + rng.choice(
            ['0', '1', '2', '5', '10', '22', '23', '05', '100', '300', '308', '309', '323', '324', '325', '400'])
    return sign + ip + fp + ep


def gen_syn(rng, depth):
    r = rng.random()
    if depth <= 0 or r < 0.5:
        q = rng.random()
        if q < 0.08:
            return ('null',)
        if q < 0.2:
            return ('bool', rng.random() < 0.5)
        if q < 0.6:
            return ('num', gen_number(rng))
        return ('str', gen_string_body(rng))
    n = rng.choice([0, 1, 1, 2, 2, 3, 4, rng.randint(5, 7)])
    if r < 0.75:
        return ('arr', [gen_syn(rng, depth - 1) for _ in range(n)])
    keys = []
    for _ in range(n):
        if keys and rng.random() < 0.25:
            keys.append(rng.choice(keys))              # duplicate name (same spelling)
        elif rng.random() < 0.1:
            keys.append(rng.choice(['a', '\\u0061', 'A', '', ' ', '\\n', '\\u000a', 'f', 'x', 'return']))
        else:
            keys.append(gen_string_body(rng))
    return ('obj', [(k, gen_syn(rng, depth - 1)) for k in keys])


def gen_pyvalue(rng, depth):
    r = rng.random()
    if depth <= 0 or r < 0.5:
        q = rng.random()
        if q < 0.1:
            return None
        if q < 0.2:
            return rng.random() < 0.5
        if q < 0.4:
            return rng.choice([0, 1, -1, rng.randint(-10 ** 6, 10 ** 6), rng.getrandbits(80), -rng.getrandbits(64)])
        if q < 0.6:
            return rng.choice([0.0, -0.0, 0.5, 1e-5, 1.5e300, 5e-324, 1e16, 1e22, 123.456, -2.5e-7,
                               rng.random(), rng.uniform(-1e6, 1e6), rng.random() * 10 ** rng.randint(-320, 308)])
        n = rng.choice([0, 1, 2, 4, 8])
        return ''.join(rng.choice(RAW_POOL + ['"', '\\', '\n', '\t', '\x00', '\x1f', '\u2028', '/'])
                       for _ in range(n))
    n = rng.choice([0, 1, 2, 3, 5])
    if r < 0.75:
        return [gen_pyvalue(rng, depth - 1) for _ in range(n)]
    return dict((gen_pyvalue(rng, 0) if False else ''.join(rng.choice(RAW_POOL[:20] + ['\u00e9', '\U0001f600', '"'])
                                                         for _ in range(rng.randint(0, 4))),
                 gen_pyvalue(rng, depth - 1)) for _ in range(n))


JS_STRINGS = [
    "'single'", "'it\\'s'", "'say \"hi\"'", '"\\x41\\x7e\\xff"', "'\\v\\0'", '"\\0"', '"\\101\\60\\7"', '"\\377"', '"\\400"',
    '"\\1234"', '"\\08"', '"a\\\nb"', "'a\\\r\nb'", "'a\\\rb'", '"\\a\\c\\d\\e\\g\\q"', '"\\A\\B\\Z"', '"\\!\\#\\-\\.\\:\\@\\[\\]\\^\\`\\{\\}\\~"',
    "'\\/'", "'\\ud83d\\ude00'", "'\\uD800'", '"\\N"', '"\\N{DIGIT ONE}"', "''", '""', "'\"\"'", '"\'\'"', '"\\\u2028x"',
    '"\\x0a"', '"\\u000A"', '"tab\there"', '"nul\\0end"', "'\\''", '"\\""', '"\\\\n"', '"\\s\\w\\y\\z"',
]
JS_NUMBERS = ['1.', '.5', '0.', '.0e1', '1.e2', '5.E-1', '0x10', '0XfF', '0x0', '0xdeadBEEF', '00', '000', '010', '0777', '07',
              '0x123456789abcdef0123', '1e5', '.5e-3', '+1', '+0.5', '- 1', '-.5', '-0x10', '+-1', '-+1', '- -1', '-(1)', '(-1)']


def gen_js(rng, depth):
    """JS-flavoured literal text (tie only)"""
    r = rng.random()
    if depth <= 0 or r < 0.45:
        q = rng.random()
        if q < 0.35:
            return rng.choice(JS_STRINGS)
        if q < 0.7:
            return rng.choice(JS_NUMBERS)
        if q < 0.8:
            return rng.choice(['true', 'false', 'null', '-true', '-null', '+false', '-x', '+y', 'undefined'])
        return render_syn(gen_syn(rng, 1))
    n = rng.choice([0, 1, 2, 3])
    if r < 0.7:
        xs = [gen_js(rng, depth - 1) for _ in range(n)]
        if xs and rng.random() < 0.3:
            xs.insert(rng.randint(0, len(xs)), '')         # elision
        return '[' + ','.join(xs) + (',' if xs and rng.random() < 0.15 else '') + ']'
    if r < 0.78:
        return '(' + gen_js(rng, depth - 1) + ')'
    ms = []
    for _ in range(n):
        k = rng.choice(['a', 'b', 'if', '$', '_x', "'q'", '"q"', "'a'", '1', '1.0', '0x1', '0', '0.0', '2', "''", '\u00e9'])
        ms.append('%s: %s' % (k, gen_js(rng, depth - 1)))
    return '{' + ', '.join(ms) + '}'


# --------------------------------------------------------------------------
# shrinking of syntax trees
# --------------------------------------------------------------------------

def shrink_syn(t):
    k = t[0]
    if k in ('arr', 'obj'):
        xs = t[1]
        for x in (xs if k == 'arr' else [v for _, v in xs]):
            yield x
        for i in range(len(xs)):
            yield (k, xs[:i] + xs[i + 1:])
        for i in range(len(xs)):
            if k == 'arr':
                for c in shrink_syn(xs[i]):
                    yield (k, xs[:i] + [c] + xs[i + 1:])
            else:
                key, v = xs[i]
                for c in shrink_syn(v):
                    yield (k, xs[:i] + [(key, c)] + xs[i + 1:])
                for c in shrink_syn(('str', key)):
                    yield (k, xs[:i] + [(c[1], v)] + xs[i + 1:])
    elif k == 'str':
        it = items(t[1])
        for i in range(len(it)):
            yield ('str', ''.join(x for _, x in it[:i] + it[i + 1:]))
    elif k == 'num':
        for c in ('0', '1', '-1', '0.5', '1e2'):
            if c != t[1] and len(c) < len(t[1]):
                yield ('num', c)
        if len(t[1]) > 1:
            yield ('num', t[1][:-1])
            yield ('num', t[1][1:])


def shrink(t, bad, budget=600):
    steps = 0
    progress = True
    while progress and steps < budget:
        progress = False
        for c in shrink_syn(t):
            steps += 1
            if steps > budget:
                break
            try:
                if bad(c):
                    t, progress = c, True
                    break
            except framework.Infra:
                raise
            except Exception:
                continue
    return t


# --------------------------------------------------------------------------
# run
# --------------------------------------------------------------------------

class Run(object):
    def __init__(self, ctx, impl, mdl):
        self.ctx, self.impl, self.mdl = ctx, impl, mdl
        self.tie_diffs = []          # (case dict)
        self.judge_fails = []        # (case dict, text)
        self.known_ids = set(e.get('id') for e in ctx.known_findings)
        self.what = dict((e.get('id'), e.get('what')) for e in ctx.known_findings)
        self.unmodelled = 0
        self.compared = 0

    def unexplained(self, form, name, lit, fold, use_driver=True):
        """(judge text, class ids) if the property fails and the failure is NOT a listed known finding, else None"""
        t = judge(self.impl, form, name, lit, fold)
        if t is None:
            return None
        a, b = classify(self.mdl if use_driver else None, lit)
        ids = [i for i, f in (('KF-19a', a), ('KF-19b', b)) if f]
        if ids and all(i in self.known_ids for i in ids) and explained_by(self.impl, form, name, lit, fold, a, b):
            return None
        return (t, ids)

    def tie_batch(self, cases):
        """cases: dicts(form,name,lit,is_json,syn).  Compares both fold settings."""
        ctx, impl = self.ctx, self.impl
        reqs, meta = [], []
        for c in cases:
            text = program(c['form'], c['name'], c['lit'])
            tree = impl.tree(text)
            if tree is None:
                ctx.bump('program:not accepted by the parser')
                continue
            for fold in (False, True):
                reqs.append('extract %d %s' % (1 if fold else 0, tree))
                meta.append((c, fold, impl.outcome(text, fold)))
        if self.mdl is None:
            return
        for (c, fold, want), got in zip(meta, self.mdl.many(reqs)):
            if got.startswith('UNMODELLED'):
                self.unmodelled += 1
                ctx.bump('tie:model declares the case unmodelled')
                continue
            self.compared += 1
            ctx.bump('tie:outcome %s' % want.split(' ')[0 if want.startswith('OK') else 1])
            if got != want and len(self.tie_diffs) < 8:
                self.tie_diffs.append(dict(c, fold=fold, model=got, impl=want))

    def judge_batch(self, cases):
        ctx, impl = self.ctx, self.impl
        for c in cases:
            if not c['is_json']:
                continue
            for fold in (False, True):
                ctx.case(('judge', c['form'], c['lit'], fold), nontrivial=len(c['lit']) > 4)
                t = judge(impl, c['form'], c['name'], c['lit'], fold)
                if t is None:
                    ctx.bump('judge:holds')
                    continue
                a, b = classify(self.mdl, c['lit'])
                ids = [i for i, f in (('KF-19a', a), ('KF-19b', b)) if f]
                if ids and all(i in self.known_ids for i in ids) and \
                        explained_by(impl, c['form'], c['name'], c['lit'], fold, a, b):
                    for i in ids:
                        ctx.bump('judge:known finding %s' % i)
                        ctx.known(i, self.what.get(i) or KF_WHAT[i])
                    continue
                ctx.bump('judge:FAILS')
                if len(self.judge_fails) < 6 and not any(x[2] == ids for x in self.judge_fails):
                    self.judge_fails.append((dict(c, fold=fold), t, ids))


KF_WHAT = {
    'KF-19a': 'a string literal with the escape \\/ is extracted with the backslash kept (ast.literal_eval applies Python escape rules); witness: var x = "\\/";',
    'KF-19b': 'a UTF-16 surrogate pair spelled with two \\uXXXX escapes is extracted as two lone surrogates instead of one character; witness: var x = "\\ud83d\\ude00";',
}
KF_WITNESS = {'KF-19a': '"\\/"', 'KF-19b': '"\\ud83d\\ude00"'}


def mk(form, name, lit, is_json, syn=None):
    return dict(form=form, name=name, lit=lit, is_json=is_json, syn=syn)


def gen_cases(ctx):
    rng = ctx.sub_rng('json')
    cases = []
    # fixed seeds: every number of the pool, every escape kind, structural corner cases
    fixed = [('num', n) for n in NUM_POOL] + [('str', b) for b in (
        '', 'a', '\\"', '\\\\', '\\/', '\\b\\f\\n\\r\\t', '\\u0041', '\\u00e9', '\\u00E9', '\\ud83d\\ude00', '\\uD83D\\uDE00',
        '\\ud800', '\\udc00', '\\udc00\\ud800', '\\ud800x\\udc00', '\\ud800\\u0041', '\\\\/', '\\\\\\/', '\\\\ud83d\\\\ude00',
        '\u00e9\U0001f600', '/', "'", "it's", '\\u0000', '\\u001f', '\x7f', '\\u2028\\u2029', '\ufeff', '\\u005c\\u002f',
        '\\\\u002f', 'a\\/b\\/c', '<\\/script>', 'C:\\\\apps\\\\new\\\\table', '\\\\alpha', '\\\\N{DASH}', '\\\\U0001F600', '\\\\x41',
        '\\\\101', '\\\\\\\\a', 'a\\\\', '\\\\\\\\\\\\n')] + [
        ('str', '\ufeffabc'), ('str', '\ufffehello'), ('str', '\\ufeffx'), ('str', '\\ufffe'), ('str', 'a\ufeff'),
        ('obj', [('\ufeffk', ('num', '1')), ('\\ufffe', ('str', '\ufffe'))]),
        # many values of one kind in one program (anything a traversal accumulates per value shows here)
        ('arr', [('num', '-%d' % (i + 1)) for i in range(400)]),
        ('arr', [('arr', [('num', '-%d.5' % i), ('num', '%d' % i)]) for i in range(500)]),
        ('obj', [('k%d' % i, ('num', '-%de2' % i)) for i in range(600)]),
        ('arr', [('str', 's%d' % i) for i in range(700)]),
        ('arr', []), ('obj', []), ('arr', [('arr', [])]), ('arr', [('obj', [])]), ('obj', [('', ('null',))]),
        ('obj', [('a', ('num', '1')), ('a', ('num', '2'))]),
        ('obj', [('a', ('num', '1')), ('b', ('num', '2')), ('a', ('num', '3'))]),
        ('obj', [('a', ('num', '1')), ('\\u0061', ('num', '2'))]),
        ('obj', [('a', ('obj', [('a', ('num', '1')), ('a', ('arr', []))])), ('a', ('obj', [('b', ('null',)), ('b', ('bool', True))]))]),
        ('obj', [('\\/', ('num', '1')), ('/', ('num', '2'))]),
        ('obj', [('f', ('num', '1')), ('x', ('num', '2')), ('before', ('num', '3'))]),
        ('arr', [('null',), ('bool', True), ('bool', False), ('num', '-0'), ('num', '-0.0'), ('str', '')]),
        ('arr', [('num', '1'), ('num', '2'), ('num', '3'), ('num', '4'), ('arr', [('num', '1'), ('num', '2'), ('num', '3'), ('num', '4'), ('num', '5')])]),
        ('arr', [('num', '-1.5'), ('num', '-2.25e1'), ('num', '2.5'), ('num', '-3')]),
    ]
    deep = ('num', '1')
    for i in range(8):
        deep = ('arr', [deep]) if i % 2 else ('obj', [('k', deep)])
    fixed.append(deep)
    for t in fixed:
        for form in FORMS:
            cases.append(mk(form, 'x', render_syn(t), True, t))
        ctx.bump('gen:fixed corner case')
    for _ in range(ctx.n(260, 4000)):
        t = gen_syn(rng, rng.choice([0, 1, 2, 2, 3, 3, 4, 6, 8]))
        style = rng.choice(['compact', 'compact', 'spaced', 'indent', 'random'])
        lit = render_syn(t, rng, style)
        name = rng.choice(['x', 'x', 'data', '$', '_cfg', 'f', 'before'])
        for form in rng.sample(FORMS, ctx.n(2, 3)):
            if name in ('f', 'before') and form not in ('var', 'assign'):
                continue
            cases.append(mk(form, name, lit, True, t))
        ctx.bump('gen:random JSON syntax tree, style %s' % style)
    prng = ctx.sub_rng('dumps')
    for _ in range(ctx.n(120, 2000)):
        v = gen_pyvalue(prng, prng.choice([0, 1, 2, 3, 5]))
        kw = prng.choice([dict(), dict(ensure_ascii=False), dict(indent=2), dict(separators=(',', ':')),
                          dict(ensure_ascii=False, indent=1, separators=(' , ', ' : ')), dict(sort_keys=True)])
        lit = json.dumps(v, **kw)
        try:
            t = parse_syn(lit)
        except NotJson:
            raise framework.Infra('harness JSON reader rejects json.dumps output %r' % lit)
        cases.append(mk(prng.choice(FORMS), 'x', lit, True, t))
        ctx.bump('gen:json.dumps(%s)' % ','.join(sorted(kw)))
    js = []
    jrng = ctx.sub_rng('js')
    for s in JS_STRINGS + JS_NUMBERS:
        js.append(mk('var', 'x', s, False))
        js.append(mk('funcassign', 'x', '[%s, {k: %s}]' % (s, s), False))
        ctx.bump('gen:JS-flavoured fixed spelling')
    for _ in range(ctx.n(250, 3000)):
        js.append(mk(jrng.choice(FORMS), jrng.choice(['x', 'y1', '$']), gen_js(jrng, jrng.choice([0, 1, 2, 3])), False))
        ctx.bump('gen:JS-flavoured random literal (tie only)')
    # malformed / non-literal stream: programs around the property's domain
    for lit in ['', 'y', 'y = 2', 'z = {"a": 1}', 'function(){ return 1; }', 'function g(a, b){ var c = [a]; return {"k": -1}; }',
                '[,]', '[,,1]', '{a: {b: {c: [1, [2, [3]]]}}}', '-[]', '-{}', '-"1"', '!1', '~1', 'typeof 1', 'void 0', '1 + 1', '"a" + "b"',
                'a.b', 'a[0]', 'f(1)', 'new X()', 'this', '/re/', '1, 2', 'true ? 1 : 2']:
        js.append(mk('var', 'x', lit, False))
        js.append(mk('assign', 'x', lit, False))
        ctx.bump('gen:non-literal right-hand side (tie only)')
    return cases, js


def run(ctx):
    ctx.rule('a case is one (binding form, name, literal text, fold_ops) tuple; distinct = distinct tuple; '
             'trivial (not counted): literal text of at most 4 characters')
    ctx.trusted.extend([
        'Lean 4.33 kernel; axioms propext, Quot.sound, Classical.choice only',
        'Spec/Json.lean as a faithful reading of RFC 8259 \u00a76 (numbers), \u00a77 (strings), \u00a74 (objects; duplicate names: last wins) '
        '\u2014 cross-checked against Python json.loads on every generated JSON text (oracle tie)',
        'Model/Extract.lean `toDouble` as the correctly rounded decimal\u2192binary64 conversion CPython documents for float literals '
        'and float(str) (modelled, not verified; exercised by the tie on boundary spellings)',
        'CPython ast.literal_eval string/number literal semantics as transcribed in Model/Extract.lean `pyLiteralEval` (modelled, tie only)',
        'translator harness/gen/g_extractor.py (reflects rule objects of extractor(fold_ops).definitions) and this harness',
        'Lean compiler/runtime for drv_extract (tie, oracle tie, classification only; no theorem depends on it)',
    ])
    ctx.assumptions.extend([
        'program text is a sequence of Unicode scalar values (no raw lone surrogates)',
        'integer literals have fewer digits than CPython\'s int/str conversion limit (4300)',
        'Python warnings are not turned into errors (literal_eval emits SyntaxWarning for \\/)',
        'dict results are compared in insertion order in the tie, order-insensitively (Python ==) in the judge',
    ])
    impl = Impl()
    mdl = None
    if getattr(ctx, 'drivers_ok', True):
        try:
            mdl = Model(ctx.driver('drv_extract'))
        except framework.Infra as e:
            ctx.note('driver unavailable: %s' % e)
    R = Run(ctx, impl, mdl)

    cases, js = gen_cases(ctx)
    for c in (cases[3], cases[len(cases) // 2], cases[-1], js[5], js[-40]):
        ctx.sample(program(c['form'], c['name'], c['lit'])[:300])

    # ---- known-finding witnesses
    for e in ctx.known_findings:
        kid = e.get('id')
        w = e.get('witness') or KF_WITNESS.get(kid)
        if not w:
            continue
        t = judge(impl, 'var', 'x', w, False)
        if t is not None:
            ctx.known(kid, e.get('what') or KF_WHAT.get(kid, t))
        else:
            ctx.note('known finding %s no longer reproduces on its witness %r' % (kid, w))

    # ---- oracle ties (JSON texts)
    if mdl is not None:
        texts = sorted(set(c['lit'] for c in cases))
        bad_json, bad_tree = [], []
        for lit, got in zip(texts, mdl.many(['json ' + proto.enc_str(l) for l in texts])):
            try:
                want = 'OK ' + render_py(json.loads(lit))
            except ValueError:
                want = 'NOTJSON'
            if got != want and len(bad_json) < 3:
                bad_json.append((lit, got, want))
        ctx.obligation('oracle: Spec.Json value (drv_extract json) = Python json.loads on %d JSON texts' % len(texts),
                       not bad_json, 'tie', bad_json)
        for lit, got in zip(texts, mdl.many(['tree ' + proto.enc_str(l) for l in texts])):
            ast = impl.parse('x = ' + lit + ';')
            if ast is None:
                continue
            real = proto.render(treedump.dump(ast.children()[0].expr.right))
            if got != 'OK ' + real and len(bad_tree) < 3:
                bad_tree.append((lit, got, real))
        ctx.obligation('tie: tree convention of the theorems (treeOf) = tree built by the real ES5 parser', not bad_tree,
                       'tie', bad_tree)

    # ---- tie S9 + judge
    CH = 150
    for i in range(0, len(cases), CH):
        R.tie_batch(cases[i:i + CH])
        R.judge_batch(cases[i:i + CH])
    for i in range(0, len(js), CH):
        R.tie_batch(js[i:i + CH])
        for c in js[i:i + CH]:
            ctx.case(('tie', c['form'], c['lit']), nontrivial=len(c['lit']) > 4)

    # ---- verdict
    for c, text, ids in R.judge_fails[:3]:
        small = c
        if c.get('syn') is not None:
            s0 = shrink(c['syn'], lambda t: R.unexplained(c['form'], c['name'], render_syn(t), c['fold'], False) is not None)
            cand = dict(c, lit=render_syn(s0), syn=None)
            u = R.unexplained(cand['form'], cand['name'], cand['lit'], cand['fold'])
            if u is not None:
                small, (text, ids) = cand, u
        ctx.violation('C19 fails on the implementation: %s  [program: %s ; fold_ops=%s%s]' % (
            text, program(small['form'], small['name'], small['lit']), small['fold'],
            (' ; class ' + ','.join(ids) + ' not listed in known_findings.json') if ids else ''),
            dict(form=small['form'], name=small['name'], lit=small['lit'], fold=small['fold'], judge=text,
                 classes=ids), True)

    name = 'tie:S9 ast_to_dict model = implementation (%d outcomes compared, %d declared unmodelled)' % (
        R.compared, R.unmodelled)
    if mdl is None:
        ctx.obligation(name, False, 'tie', 'driver drv_extract not available')
    elif not R.tie_diffs:
        ctx.obligation(name, True, 'tie')
        if R.compared and R.unmodelled * 2 > R.compared + R.unmodelled:
            ctx.obligation('tie:S9 coverage (most cases are modelled)', False, 'tie',
                           '%d unmodelled of %d' % (R.unmodelled, R.compared + R.unmodelled))
    else:
        d = R.tie_diffs[0]
        detail = 'first difference: program %r fold_ops=%s: model %s, implementation %s' % (
            program(d['form'], d['name'], d['lit']), d['fold'], d['model'][:300], d['impl'][:300])
        found = None
        if d.get('syn') is not None:
            def differs(t):
                text = program(d['form'], d['name'], render_syn(t))
                tree = impl.tree(text)
                if tree is None:
                    return False
                got = mdl.one('extract %d %s' % (1 if d['fold'] else 0, tree))
                return not got.startswith('UNMODELLED') and got != impl.outcome(text, d['fold'])
            s = shrink(d['syn'], differs)
            detail += '; shrunk literal %r' % render_syn(s)
            # judge on the shrunk case and around it (all forms, both folds, sub-terms)
            around = [s] + list(shrink_syn(s))[:200]
            for t in around:
                for form in FORMS:
                    for fold in (False, True):
                        lit = render_syn(t)
                        ctx.case(('judge', form, lit, fold))
                        u = R.unexplained(form, d['name'], lit, fold)
                        if u is not None:
                            found = (form, lit, fold, u[0])
                            break
                    if found:
                        break
                if found:
                    break
        if found and not R.judge_fails:
            ctx.violation('C19 fails on the implementation: %s [program: %s ; fold_ops=%s]' % (
                found[3], program(found[0], d['name'], found[1]), found[2]),
                dict(form=found[0], name=d['name'], lit=found[1], fold=found[2], judge=found[3], tie_difference=detail), True)
        ctx.obligation(name, False, 'tie', detail)
    if not R.judge_fails:
        ctx.note('judge: the property held on the implementation for every generated JSON case outside the known-finding classes')


# --------------------------------------------------------------------------
# replay
# --------------------------------------------------------------------------

def replay(ctx, path):
    data = json.load(open(path))
    rp = data.get('replay', data)
    if 'lit' not in rp:
        print('replay file names broken obligations only (no failing input): %s' % json.dumps(rp)[:2000])
        return 1
    form, name, lit, fold = rp['form'], rp['name'], rp['lit'], bool(rp['fold'])
    impl = Impl()
    text = program(form, name, lit)
    print('program:        %s' % text)
    print('fold_ops:       %s' % fold)
    print('implementation: %s' % impl.outcome(text, fold))
    try:
        print('json.loads:     %s' % render_py(json.loads(lit)))
    except ValueError:
        print('json.loads:     (literal is not JSON)')
    try:
        mdl = Model(ctx.driver('drv_extract'))
        tree = impl.tree(text)
        if tree is not None:
            print('model:          %s' % mdl.one('extract %d %s' % (1 if fold else 0, tree)))
        print('Spec.Json:      %s' % mdl.one('json ' + proto.enc_str(lit)))
        print('classes (a,b):  %s' % mdl.one('class ' + proto.enc_str(lit)))
    except framework.Infra as e:
        print('model side unavailable (%s)' % e)
    t = judge(impl, form, name, lit, fold)
    print('judge: %s' % (t or 'the property holds for this case'))
    if t is not None:
        print('VIOLATION property=C19 replay=%s' % path)
        return 1
    return 0
