"""
G2: grammar-directed random ES5 program generator with random layout.

A program is generated as a list of `Tok`s straight from the ES5 grammar
(precedence levels, NoIn, "no brace or function" statement starts), so it is
valid by construction; `render` then lays the tokens out with random white
space, line terminators and comments, omitting ASI-removable semicolons when
asked.  Every random choice comes from the `random.Random` passed in.

Flags on a token:
  semi      the token is a statement-terminating `;` that ASI can supply
            *provided* a line terminator / `}` / EOF follows and the next token
            cannot continue the statement (decided in render)
  nonl      no line terminator may be placed before this token
            (restricted productions: postfix ++/--, operand of return/throw,
            label of break/continue)
  regex     the token is a regular-expression literal
"""

RESERVED = set('''break case catch continue debugger default delete do else finally for function if in
instanceof new return switch this throw try typeof var void while with null true false class const enum export
extends import super'''.split())

IDENT_POOL = ['a', 'b', 'c', 'x', 'y', 'z', 'foo', 'bar', 'baz', 'i', 'j', 'k', 'n', 'obj', 'arr', 'fn', 'cb',
              '$', '_', '$x', '_y', 'a1', 'of', 'yield', 'undefined', 'NaN', 'async',
              'ifx', 'inx', 'dox', 'newx', 'thisx', 'varx',
              'été', 'π', 'näive', 'a‿b', 'x٠', 'À', 'ǅx', 'ʰa']
# a‿b has connector punctuation (Pc), x٠ an arabic-indic digit (Nd), näive / À combining marks (Mn), ǅ Lt, ʰ Lm, ↀ Nl
CJK_IDENTS = ['日本', '한글', 'x日', 'ↀ']      # calmjs's LETTER table lacks CJK/Hangul ranges (finding KF-06b)
ASCII_IDENTS = [i for i in IDENT_POOL if all(ord(c) < 128 for c in i)]

NUMBERS = ['0', '1', '2', '7', '10', '42', '255', '1000000', '1.5', '0.5', '.5', '5.', '1e3', '1E3', '1e+3',
           '1.5e-7', '.5e1', '5.e1', '0x1F', '0XaB', '0x0', '017', '00', '1.0', '0.0', '123456789012345678901234567890']
STRINGS = ["'a'", '"a"', "''", '""', "'it\\'s'", '"say \\"hi\\""', "'a\\nb'", "'\\x41'", "'\\u0041'", "'\\0'",
           "'\\101'", "'\\7'", "'tab\\t'", "'back\\\\slash'", "'é'", '"日本"', "'a b'", "'//x'", "'/*x*/'",
           "'</script>'", "'\\v\\f\\b\\r'", "'q\"q'", '"q\'q"', "'\\e\\q'", "'\U0001F600'"]
# characters that Python's str.splitlines treats as line boundaries but ES5 does not (VT, FF, FS, GS, RS, NEL)
STRINGS += ["'a\x0bb'", "'a\x0cb'", "'\x1c\x1d\x1e'", "'n\x85l'", '"\x0b"']
STRINGS_CONT = ["'a\\\nb'", '"a\\\r\nb"', "'a\\ b'", "'x\\\ny\\\nz'"]
REGEXES = ['/a/', '/ab+c/g', '/[/]/', '/\\//', '/a|b/i', '/[^\\]]+/m', '/\\d+/gi', '/(?:x)*/', '/[a-z]/', '/=x/',
           '/ /', '/\\[/', '/a{1,2}/', '/^$/', '/[\\/]/', '/é/', '/x/gim']
BINOPS = [  # (level, ops) lowest binds loosest
    (1, ['||']), (2, ['&&']), (3, ['|']), (4, ['^']), (5, ['&']), (6, ['==', '!=', '===', '!==']),
    (7, ['<', '>', '<=', '>=', 'instanceof', 'in']), (8, ['<<', '>>', '>>>']), (9, ['+', '-']), (10, ['*', '/', '%'])]
ASSIGNOPS = ['=', '+=', '-=', '*=', '/=', '%=', '<<=', '>>=', '>>>=', '&=', '|=', '^=']
UNOPS = ['delete', 'void', 'typeof', '++', '--', '+', '-', '~', '!']


class Tok(object):
    __slots__ = ('text', 'semi', 'nonl', 'regex', 'onesp', 'tight')

    def __init__(self, text, semi=False, nonl=False, regex=False):
        self.text = text
        self.semi = semi
        self.nonl = nonl
        self.regex = regex
        self.onesp = False
        self.tight = False      # only plain spaces before this token (no comments, no line terminators)

    def __repr__(self):
        return 'Tok(%r)' % self.text


class Opts(object):
    def __init__(self, **kw):
        self.unicode_idents = True
        self.regex = True
        self.cont_strings = True      # line continuations in strings
        self.with_stmt = True
        self.getset = True
        self.octal = True
        self.funcdecl_in_block = True
        self.labels = True
        self.postfix = True
        self.max_depth = 3
        self.max_stmts = 3
        self.reserved_props = True
        self.free_names = True        # identifiers never declared
        self.scoped = False           # generate declared variables mostly (for obfuscation tests)
        self.cjk_idents = False       # identifiers calmjs rejects (KF-06b)
        self.getset_anykey = False    # getters/setters with string/number keys: calmjs rejects (KF-03c)
        self.p_binop = 0.05
        self.kw_before_div = False    # `a.if / b` (KF-05c)
        self.getset_anyspace = False  # `get  x(){}` with other than one white-space char (KF-03d)
        self.restricted_propname_nl = False
        self.header_paren_nl = False
        self.any_lhs = False          # any LeftHandSideExpression as assignment / ++ target (early errors in engines)
        self.with_bare_body = False   # `with (x) /re/` (KF-05a)
        self.__dict__.update(kw)


class Gen(object):
    def __init__(self, rng, opts=None):
        self.r = rng
        self.o = opts or Opts()
        self.out = []
        self.stats = {}

    # -- helpers
    def t(self, text, **kw):
        if text in ('/', '/=') and not kw.get('regex') and self.out and not self.o.kw_before_div and (
                self.out[-1].text in RESERVED and self.out[-1].text not in ('this', 'null', 'true', 'false')):
            # a reserved word used as property name followed by a division: calmjs reads a regex (KF-05c)
            text = '*' if text == '/' else '*='
        tok = Tok(text, **kw)
        if (len(self.out) >= 2 and self.out[-1].text in ('return', 'throw', 'break', 'continue')
                and self.out[-2].text == '.' and not self.o.restricted_propname_nl):
            tok.nonl = True     # `a.throw <LT>` makes calmjs insert a semicolon (KF-04e)
        if text == '(' and self.out and self.out[-1].text in ('if', 'for', 'while', 'with') and not self.o.header_paren_nl:
            tok.nonl = True     # `if <LT> (a) /re/`: header paren not recognised (KF-05b')
            tok.tight = True
        self.out.append(tok)

    def hit(self, k):
        self.stats[k] = self.stats.get(k, 0) + 1

    def chance(self, p):
        return self.r.random() < p

    def ident(self):
        pool = IDENT_POOL if self.o.unicode_idents else ASCII_IDENTS
        if self.o.cjk_idents and self.chance(0.1):
            return self.r.choice(CJK_IDENTS)
        return self.r.choice(pool)

    def propname(self):
        r = self.r.random()
        if r < 0.2 and self.o.reserved_props:
            return self.r.choice(sorted(RESERVED))
        return self.ident()

    def number(self):
        n = self.r.choice(NUMBERS)
        if not self.o.octal and len(n) > 1 and n[0] == '0' and n[1].isdigit():
            n = '8'
        return n

    def string(self):
        if self.o.cont_strings and self.chance(0.08):
            return self.r.choice(STRINGS_CONT)
        return self.r.choice(STRINGS)

    # -- expressions.  d = remaining depth; noin: `in` operator forbidden at top level;
    #    nobf: must not start with `{` or `function`
    def primary(self, d, nobf=False):
        r = self.r
        choices = ['id', 'id', 'id', 'num', 'num', 'str', 'this', 'lit']
        if d > 0:
            choices += ['paren', 'array', 'array']
            if not nobf:
                choices += ['object', 'object', 'func']
            if self.o.regex:
                choices += ['regex']
        c = r.choice(choices)
        self.hit('prim:' + c)
        if c == 'id':
            self.t(self.ident())
        elif c == 'num':
            self.t(self.number())
        elif c == 'str':
            self.t(self.string())
        elif c == 'this':
            self.t('this')
        elif c == 'lit':
            self.t(r.choice(['null', 'true', 'false']))
        elif c == 'regex':
            self.t(r.choice(REGEXES), regex=True)
        elif c == 'paren':
            self.t('(')
            if self.chance(0.15):
                self.t('(')
                self.expr(d - 1)
                self.t(')')
            else:
                self.expr(d - 1)
            self.t(')')
        elif c == 'array':
            self.array(d)
        elif c == 'object':
            self.object(d)
        elif c == 'func':
            self.function(d, expr=True)

    def array(self, d):
        self.t('[')
        n = self.r.choice([0, 0, 1, 2, 3])
        first = True
        for _ in range(n):
            if not first:
                self.t(',')
            first = False
            while self.chance(0.15):
                self.t(',')      # elision
                self.hit('elision')
            self.assign(d - 1)
        while self.chance(0.15):
            self.t(',')
            self.hit('elision-trailing')
        self.t(']')

    def object(self, d):
        self.t('{')
        n = self.r.choice([0, 1, 1, 2, 3])
        for i in range(n):
            if i:
                self.t(',')
            k = self.r.random()
            if k < 0.15 and self.o.getset:
                self.hit('getter')
                self.t('get')
                self.propkey(self.o.getset_anykey, onesp=True)
                self.t('(')
                self.t(')')
                self.body(d - 1)
            elif k < 0.3 and self.o.getset:
                self.hit('setter')
                self.t('set')
                self.propkey(self.o.getset_anykey, onesp=True)
                self.t('(')
                self.t(self.ident())
                self.t(')')
                self.body(d - 1)
            else:
                self.propkey()
                self.t(':')
                self.assign(d - 1)
        if n and self.chance(0.1):
            self.t(',')
        self.t('}')

    def propkey(self, anykey=True, onesp=False):
        n = len(self.out)
        self._propkey(anykey)
        if onesp and not self.o.getset_anyspace:
            self.out[n].onesp = True

    def _propkey(self, anykey=True):
        k = self.r.random()
        if k < 0.6 or not anykey:
            self.t(self.propname())
        elif k < 0.8:
            self.t(self.string())
        else:
            self.t(self.number())

    def member(self, d, nobf=False, allow_call=True):
        """member / call / new chains"""
        r = self.r
        if d > 0 and self.chance(0.12):
            self.hit('new')
            self.t('new')
            self.member(d - 1, allow_call=False)
            if self.chance(0.7):
                self.args(d - 1)
            else:
                return   # `new X` without arguments: no further suffix to stay simple
        else:
            self.primary(d, nobf)
        n = 0
        while d > 0 and self.chance(0.3) and n < 3:
            n += 1
            k = r.random()
            if k < 0.4:
                self.hit('dot')
                self.t('.')
                self.t(self.propname())
            elif k < 0.65:
                self.hit('bracket')
                self.t('[')
                self.expr(d - 1)
                self.t(']')
            elif allow_call:
                self.hit('call')
                self.args(d - 1)

    def args(self, d):
        self.t('(')
        n = self.r.choice([0, 1, 1, 2, 3])
        for i in range(n):
            if i:
                self.t(',')
            self.assign(d - 1)
        self.t(')')

    def target(self, d, nobf=False):
        """a simple assignment target: identifier or member access (no early-error shapes unless asked)"""
        if self.o.any_lhs:
            return self.member(d, nobf)
        self.t(self.ident())
        n = 0
        while d > 0 and self.chance(0.3) and n < 2:
            n += 1
            if self.chance(0.6):
                self.t('.')
                self.t(self.propname())
            else:
                self.t('[')
                self.expr(d - 1)
                self.t(']')

    def postfix(self, d, nobf=False):
        if self.o.postfix and self.chance(0.08):
            self.hit('postfix')
            self.target(d, nobf)
            self.t(self.r.choice(['++', '--']), nonl=True)
        else:
            self.member(d, nobf)

    def unary(self, d, nobf=False):
        if d > 0 and self.chance(0.2):
            op = self.r.choice(UNOPS)
            self.hit('unary')
            self.t(op)
            if op in ('++', '--'):
                self.target(d - 1)
            else:
                self.unary(d - 1)
        else:
            self.postfix(d, nobf)

    def binary(self, d, level=1, noin=False, nobf=False):
        if level > 10:
            return self.unary(d, nobf)
        ops = BINOPS[level - 1][1]
        if noin:
            ops = [o for o in ops if o != 'in']
        self.binary(d, level + 1, noin, nobf)
        n = 0
        while d > 0 and self.chance(self.o.p_binop) and n < 2:
            n += 1
            self.hit('binop')
            self.t(self.r.choice(ops))
            self.binary(d - 1, level + 1, noin)

    def conditional(self, d, noin=False, nobf=False):
        self.binary(d, 1, noin, nobf)
        if d > 0 and self.chance(0.1):
            self.hit('conditional')
            self.t('?')
            self.assign(d - 1)
            self.t(':')
            self.assign(d - 1, noin)

    def assign(self, d, noin=False, nobf=False):
        if d > 0 and self.chance(0.2):
            self.hit('assign')
            self.target(d - 1, nobf)
            self.t(self.r.choice(ASSIGNOPS))
            self.assign(d - 1, noin)
        else:
            self.conditional(d, noin, nobf)

    def expr(self, d, noin=False, nobf=False):
        self.assign(d, noin, nobf)
        if d > 0 and self.chance(0.08):
            self.hit('comma')
            self.t(',')
            self.assign(d - 1, noin)

    # -- functions and statements
    def body(self, d):
        self.t('{')
        for _ in range(self.r.randint(0, self.o.max_stmts if d > 0 else 1)):
            self.statement(d - 1, in_func=True, source_element=True)
        self.t('}')

    def function(self, d, expr=False):
        self.hit('funcexpr' if expr else 'funcdecl')
        self.t('function')
        if not expr or self.chance(0.4):
            self.t(self.r.choice(ASCII_IDENTS))
        self.t('(')
        for i in range(self.r.choice([0, 1, 2, 3])):
            if i:
                self.t(',')
            self.t(self.ident())
        self.t(')')
        self.body(d)

    def block(self, d, in_func, in_loop=False):
        self.t('{')
        for _ in range(self.r.randint(0, self.o.max_stmts if d > 0 else 1)):
            self.statement(d - 1, in_func, in_loop=in_loop, source_element=self.o.funcdecl_in_block)
        self.t('}')

    def semi(self):
        self.t(';', semi=True)

    def vardecls(self, d, noin=False):
        for i in range(self.r.choice([1, 1, 2, 3])):
            if i:
                self.t(',')
            self.t(self.ident())
            if self.chance(0.6):
                self.t('=')
                self.assign(d, noin)

    def statement(self, d, in_func=False, in_loop=False, source_element=False, labels=()):
        r = self.r
        kinds = ['expr'] * 5 + ['var'] * 3 + ['empty']
        if d > 0:
            kinds += ['block', 'if', 'if', 'for', 'forin', 'while', 'dowhile', 'switch', 'try', 'throw', 'debugger']
            if self.o.labels:
                kinds += ['label']
            if self.o.with_stmt:
                kinds += ['with']
            if source_element:
                kinds += ['funcdecl', 'funcdecl']
        if in_func:
            kinds += ['return', 'return']
        if in_loop:
            kinds += ['break', 'continue']
        k = r.choice(kinds)
        self.hit('stmt:' + k)
        if k == 'expr':
            self.expr(max(d, 1), nobf=True)
            self.semi()
        elif k == 'var':
            self.t('var')
            self.vardecls(max(d, 1))
            self.semi()
        elif k == 'empty':
            self.t(';')
        elif k == 'block':
            self.block(d, in_func, in_loop)
        elif k == 'if':
            self.t('if')
            self.t('(')
            self.expr(d)
            self.t(')')
            self.statement(d - 1, in_func, in_loop)
            if self.chance(0.4):
                self.t('else')
                self.statement(d - 1, in_func, in_loop)
        elif k == 'for':
            self.t('for')
            self.t('(')
            v = r.random()
            if v < 0.3:
                self.t('var')
                self.vardecls(d - 1, noin=True)
            elif v < 0.7:
                self.expr(d - 1, noin=True)
            self.t(';')
            if self.chance(0.7):
                self.expr(d - 1)
            self.t(';')
            if self.chance(0.7):
                self.expr(d - 1)
            self.t(')')
            self.statement(d - 1, in_func, True)
        elif k == 'forin':
            self.t('for')
            self.t('(')
            if self.chance(0.5):
                self.t('var')
                self.t(self.ident())
                if self.chance(0.15):
                    self.t('=')
                    self.assign(d - 1, noin=True)
            else:
                self.target(d - 1)
            self.t('in')
            self.expr(d - 1)
            self.t(')')
            self.statement(d - 1, in_func, True)
        elif k == 'while':
            self.t('while')
            self.t('(')
            self.expr(d)
            self.t(')')
            self.statement(d - 1, in_func, True)
        elif k == 'dowhile':
            self.t('do')
            self.statement(d - 1, in_func, True)
            self.t('while')
            self.t('(')
            self.expr(d)
            self.t(')')
            self.semi()
        elif k == 'with':
            self.t('with')
            self.t('(')
            self.expr(d)
            self.t(')')
            if self.o.with_bare_body:
                self.statement(d - 1, in_func, in_loop)
            else:
                self.block(d - 1, in_func, in_loop)
        elif k == 'switch':
            self.t('switch')
            self.t('(')
            self.expr(d)
            self.t(')')
            self.t('{')
            had_default = False
            for _ in range(r.randint(0, 3)):
                if not had_default and self.chance(0.25):
                    had_default = True
                    self.t('default')
                    self.t(':')
                else:
                    self.t('case')
                    self.expr(d - 1)
                    self.t(':')
                for _ in range(r.randint(0, 2)):
                    self.statement(d - 1, in_func, True, source_element=self.o.funcdecl_in_block)
            self.t('}')
        elif k == 'try':
            self.t('try')
            self.block(d - 1, in_func, in_loop)
            v = r.random()
            if v < 0.7:
                self.t('catch')
                self.t('(')
                self.t(self.ident())
                self.t(')')
                self.block(d - 1, in_func, in_loop)
            if v >= 0.4:
                self.t('finally')
                self.block(d - 1, in_func, in_loop)
        elif k == 'throw':
            self.t('throw')
            n = len(self.out)
            self.expr(d)
            self.out[n].nonl = True
            self.semi()
        elif k == 'debugger':
            self.t('debugger')
            self.semi()
        elif k == 'label':
            self.t(r.choice(ASCII_IDENTS))
            self.t(':')
            self.statement(d - 1, in_func, in_loop)
        elif k == 'funcdecl':
            self.function(d, expr=False)
        elif k == 'return':
            self.t('return')
            if self.chance(0.7):
                n = len(self.out)
                self.expr(max(d, 1))
                self.out[n].nonl = True
            self.semi()
        elif k in ('break', 'continue'):
            self.t(k)
            self.semi()

    def program(self):
        for _ in range(self.r.randint(1, self.o.max_stmts + 1)):
            self.statement(self.o.max_depth, source_element=True)
        return self.out


# --------------------------------------------------------------------------
# layout
# --------------------------------------------------------------------------

ISOLATING = set('()[]{};,')
LINE_TERMS = ['\n', '\n', '\n', '\r', '\r\n', ' ', ' ']
SAFE_LINE_TERMS = ['\n', '\n', '\r', '\r\n']
SPACES = [' ', ' ', ' ', '\t', '  ', '\x0b', '\x0c', '\xa0', '﻿', ' ', '　']
# tokens which, at the start of a statement, would continue the previous statement if its `;` were dropped
CONTINUERS = set(['(', '[', '+', '-', '++', '--', '/', '.', ',', '?', ':', '*', '%', '<', '>', '=', '&', '|', '^',
                  'in', 'instanceof'])


def needs_sep(a, b):
    if a in ISOLATING or b in ISOLATING:
        # `5.` followed by nothing dangerous; `)` `(` never fuse
        return False
    return True


class Layout(object):
    """
    style: 'min'    single spaces only where needed, no newlines except the ones ASI relies on
           'spaced' one space between all tokens, newline after each `;`/`{`/`}`
           'wild'   random white space, line terminators (kinds per `terms`) and comments anywhere legal
    drop_semi: probability of omitting an ASI-removable semicolon
    comments: probability of a comment between two tokens (wild only)
    comments_at_asi / comments_before_regex / unicode_terms: enable layouts that hit known calmjs deviations
    """

    def __init__(self, style='spaced', drop_semi=0.0, comments=0.0, comments_at_asi=False,
                 comments_before_regex=False, unicode_terms=False, unicode_spaces=True,
                 unicode_space_before_regex=False, blank_lines=0.3, comment_lines=0.0):
        self.__dict__.update(locals())
        del self.__dict__['self']


def can_drop(toks, i):
    """`;` at index i (flag semi) is ASI-removable w.r.t. what follows?"""
    if i + 1 >= len(toks):
        return 'eof'
    nxt = toks[i + 1]
    if nxt.text == '}':
        return 'brace'
    if nxt.regex or nxt.text in CONTINUERS or nxt.text[:1] in '([+-/.`' or nxt.text[:1] in '"\'' and False:
        return None
    # do-while `;`: ES5 only allows omission with a newline as for the others
    # `else` after `if (a) b;`  -> the `;` before else is removable only with a newline (rule 1): fine
    return 'nl'


def render(rng, toks, layout=None, stats=None):
    lo = layout or Layout()
    out = []
    terms = LINE_TERMS if lo.unicode_terms else SAFE_LINE_TERMS
    all_spaces = SPACES if lo.unicode_spaces else [' ', ' ', '\t']
    spaces = all_spaces
    n = len(toks)
    prev = None
    pending_nl = False      # a dropped `;` that relies on a following line terminator
    i = 0

    def ws(allow_nl, need, asi_here=False, before_regex=False):
        """white space to put between two tokens"""
        s = ''
        spaces = all_spaces
        if before_regex and not lo.unicode_space_before_regex:
            # calmjs reads a `/` preceded by white space other than SP/TAB as division (finding KF-05d)
            spaces = [' ', ' ', '\t']
        if lo.style == 'wild':
            k = rng.random()
            if k < 0.25 and not need:
                s = ''
            elif k < 0.75:
                s = rng.choice(spaces)
            else:
                s = rng.choice(spaces) + rng.choice(spaces)
            if allow_nl and rng.random() < 0.15:
                s += rng.choice(terms) + (rng.choice(spaces) if rng.random() < 0.5 else '')
            if lo.comments and rng.random() < lo.comments and (lo.comments_at_asi or not asi_here) and (
                    lo.comments_before_regex or not before_regex):
                if allow_nl and rng.random() < 0.4:
                    s += '// c' + rng.choice(['', ' x', '/*', "'"]) + rng.choice(terms)
                elif allow_nl and rng.random() < 0.3:
                    s += '/* m' + rng.choice(terms) + ' */'
                else:
                    s += '/*' + rng.choice(['', ' c ', '*', '/', '//', '\x0b', '\x0c', '\x85', '\x1c']) + '*/'
                s += rng.choice(['', ' '])
            if need and not s:
                s = ' '
        elif lo.style == 'spaced':
            s = ' '
        else:
            s = ' ' if need else ''
        return s

    while i < n:
        t = toks[i]
        if t.semi and lo.drop_semi and rng.random() < lo.drop_semi:
            how = can_drop(toks, i)
            if how:
                if stats is not None:
                    stats['asi:' + how] = stats.get('asi:' + how, 0) + 1
                if how == 'nl':
                    pending_nl = True
                i += 1
                continue
        if prev is not None:
            need = needs_sep(prev.text, t.text)
            if pending_nl:
                # the line terminator that makes ASI apply; the layout before it must not contain comments
                # after the newline unless comments_at_asi
                s = ''
                if lo.style == 'wild' and rng.random() < 0.5:
                    s += rng.choice(spaces)
                s += rng.choice(terms)
                # blank lines and whole-line comments after the terminator ASI relies on (each ends with a terminator, so the
                # token that follows is still directly preceded by one)
                while lo.style == 'wild' and lo.blank_lines and rng.random() < lo.blank_lines:
                    s += (rng.choice(spaces) if rng.random() < 0.3 else '') + rng.choice(terms)
                while lo.comment_lines and rng.random() < lo.comment_lines:
                    s += rng.choice(['// c', '//', '/* c */', '// ;']) + rng.choice(terms)
                if lo.style == 'wild' and rng.random() < 0.3:
                    s += rng.choice(spaces)
                if lo.comments_at_asi and lo.comments and rng.random() < lo.comments:
                    s += '/*c*/'
                out.append(s)
                pending_nl = False
            else:
                allow_nl = not t.nonl
                if t.tight:
                    out.append(rng.choice(['', ' ', '  ']) if lo.style == 'wild' else ('' if lo.style == 'min' else ' '))
                    out.append(t.text)
                    prev = t
                    i += 1
                    continue
                if t.onesp:
                    out.append(' ')
                    out.append(t.text)
                    prev = t
                    i += 1
                    continue
                if lo.style == 'spaced' and prev.text in (';', '{', '}') and allow_nl:
                    out.append('\n')
                else:
                    out.append(ws(allow_nl, need, before_regex=t.regex))
        out.append(t.text)
        prev = t
        i += 1
    if lo.style != 'min' and rng.random() < 0.7:
        out.append(rng.choice(terms))
    return ''.join(out)


def program(rng, opts=None, layout=None, stats=None):
    g = Gen(rng, opts)
    toks = g.program()
    if stats is not None:
        for k, v in g.stats.items():
            stats[k] = stats.get(k, 0) + v
    return render(rng, toks, layout, stats), toks


def programs(rng, n, opts=None, layouts=None, stats=None):
    """yields (text, toks, layout)"""
    layouts = layouts or [Layout('spaced'), Layout('min'), Layout('wild'), Layout('wild', drop_semi=0.6),
                          Layout('wild', comments=0.15), Layout('spaced', drop_semi=1.0)]
    for _ in range(n):
        lo = rng.choice(layouts)
        text, toks = program(rng, opts, lo, stats)
        yield text, toks, lo


def token_mutations(rng, toks, n):
    """G4: single-token deletions / duplications / replacements / swaps, rendered 'spaced'"""
    pool = ['(', ')', '{', '}', '[', ']', ';', ',', '+', '-', '/', '=', 'in', 'if', 'var', 'function', 'x', '1',
            "'s'", 'return', ':', '?', '.', '++', 'new', 'else', 'while', 'for', 'do', 'case', 'default', 'catch', 'get']
    texts = [t.text for t in toks]
    for _ in range(n):
        ts = list(texts)
        if not ts:
            return
        k = rng.randrange(4)
        i = rng.randrange(len(ts))
        if k == 0:
            del ts[i]
        elif k == 1:
            ts.insert(i, ts[i])
        elif k == 2:
            ts[i] = rng.choice(pool)
        else:
            j = rng.randrange(len(ts))
            ts[i], ts[j] = ts[j], ts[i]
        yield ' '.join(ts)
