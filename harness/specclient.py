"""
Thin client of the independent ES5.1 reference driver `drv_spec` (lean/Driver/SpecMain.lean).

    spec = Spec(ctx)            # or Spec(None): starts its own framework.Driver('drv_spec')
    spec.parse(text)   -> ('ok', proto.Node)                          | ('err', offset, reason)
    spec.tokens(text)  -> ('ok', [Tok...], [Comment...])              | ('err', offset, reason)
    spec.asi(text)     -> ('ok', [offsets])                           | ('err', offset, reason)
    spec.linecol(text, off) -> (line, col)
    spec.lex(text, goals='') -> like tokens(), stand-alone lexing; goals: 'd'/'r' per token starting with '/'

Text must be free of lone surrogates (they cannot be sent through the utf-8 pipe; the spec model is
defined on Unicode scalar values only) - `sendable(text)` tells.
"""
import collections

import proto

Tok = collections.namedtuple('Tok', 'cls text off line col nl_before')
Comment = collections.namedtuple('Comment', 'kind text off')


def sendable(text):
    return not any(0xD800 <= ord(c) <= 0xDFFF for c in text)


class Spec(object):
    def __init__(self, ctx=None, exe='drv_spec'):
        if ctx is not None:
            self.drv = ctx.driver(exe)
            self._own = False
        else:
            import framework
            self.drv = framework.Driver(exe)
            self._own = True

    def close(self):
        if self._own:
            self.drv.close()

    # ---- raw
    def _ask(self, verb, text, *more):
        if not sendable(text):
            raise ValueError('text with lone surrogates cannot be sent to drv_spec')
        return self.drv.ask(' '.join([verb, proto.enc_str(text)] + list(more)))

    def _ask_many(self, verb, texts):
        return self.drv.ask_many(['%s %s' % (verb, proto.enc_str(t)) for t in texts])

    @staticmethod
    def _err(r):
        parts = r.split()
        if len(parts) >= 3 and parts[0] == 'ERR' and parts[1].isdigit():
            return ('err', int(parts[1]), parts[2])
        raise RuntimeError('drv_spec protocol error: %s' % r[:300])

    # ---- decoding
    @classmethod
    def _dec_parse(cls, r):
        if r.startswith('OK '):
            return ('ok', proto.parse(r[3:]))
        return cls._err(r)

    @classmethod
    def _dec_tokens(cls, r):
        if r.startswith('OK '):
            body, _, cm = r[3:].partition(' COMMENTS ')
            toks = [Tok(*t) for t in proto.parse(body)]
            cms = [Comment(*c) for c in proto.parse(cm)]
            return ('ok', toks, cms)
        return cls._err(r)

    @classmethod
    def _dec_asi(cls, r):
        if r.startswith('OK '):
            return ('ok', proto.parse(r[3:]))
        return cls._err(r)

    # ---- API
    def parse(self, text):
        return self._dec_parse(self._ask('parse', text))

    def parse_many(self, texts):
        return [self._dec_parse(r) for r in self._ask_many('parse', texts)]

    def tokens(self, text):
        return self._dec_tokens(self._ask('tokens', text))

    def tokens_many(self, texts):
        return [self._dec_tokens(r) for r in self._ask_many('tokens', texts)]

    def asi(self, text):
        return self._dec_asi(self._ask('asi', text))

    def asi_many(self, texts):
        return [self._dec_asi(r) for r in self._ask_many('asi', texts)]

    def lex(self, text, goals=''):
        return self._dec_tokens(self._ask('lex', text, proto.enc_str(goals)))

    def linecol(self, text, off):
        r = self._ask('linecol', text, str(int(off)))
        a, b = r.split()
        return int(a), int(b)
