"""
Running the implementation stage by stage with canonical dumps (DESIGN.md 3.5).
Everything imports calmjs.parse lazily (after boot.boot()).
"""
import proto
import treedump


def exc_info(e):
    return (type(e).__name__, str(e))


def make_parser(cfg='cached', with_comments=False):
    """cfg: cached | fresh | reopt (reopt == cached modules after optimize.reoptimize, done by the caller)"""
    from calmjs.parse.parsers import es5
    if cfg == 'fresh':
        return es5.Parser(lex_optimize=False, yacc_optimize=False, with_comments=with_comments)
    return es5.Parser(with_comments=with_comments)


def parse(text, with_comments=False, cfg='cached'):
    """returns ('ok', tree) or ('err', class name, message)"""
    try:
        p = make_parser(cfg, with_comments)
        return ('ok', p.parse(text))
    except Exception as e:
        return ('err',) + exc_info(e)


def lr_trace(text, cfg='cached', with_comments=False):
    """
    Runs the real parser and records
      events      token types delivered by lexer.token() ('T') and by p_error ('!T')
      reductions  production numbers in the order ply reduced them
      outcome     ('ok', tree) | ('err', cls, msg)
    """
    p = make_parser(cfg, with_comments)
    events = []
    reductions = []
    lexer = p.lexer
    orig_token = lexer.token

    def token():
        t = orig_token()
        if t is not None:
            events.append(t.type)
        return t
    lexer.token = token
    lr = p.parser
    orig_err = lr.errorfunc

    def errorfunc(tok):
        n = len(events)
        r = orig_err(tok)
        # tokens fetched by p_error itself (backtracking, _raise_syntax_error look-ahead) are not parser input
        del events[n:]
        if r is not None:
            events.append('!' + r.type)
        return r
    lr.errorfunc = errorfunc
    saved = []
    for i, prod in enumerate(lr.productions):
        if prod.callable is None:
            continue
        def wrap(f, i):
            def g(pp):
                reductions.append(i)
                return f(pp)
            return g
        saved.append((prod, prod.callable))
        prod.callable = wrap(prod.callable, i)
    try:
        try:
            tree = p.parse(text)
            out = ('ok', tree)
        except Exception as e:
            out = ('err',) + exc_info(e)
    finally:
        for prod, f in saved:
            prod.callable = f
        lr.errorfunc = orig_err
        lexer.token = orig_token
    return events, reductions, out


def tree_line(tree, **kw):
    return proto.render(treedump.dump(tree, **kw))


def parse_trace(text, cfg='cached', with_comments=False):
    """
    Like lr_trace but records the full token payload needed by drv_parse (stage S2b):
    returns (request line for drv_parse, outcome)
    """
    import proto as _p
    p = make_parser(cfg, with_comments)
    events = []
    lexer = p.lexer
    orig_token = lexer.token

    def enc(t, flag):
        hid = getattr(t, 'hidden_tokens', None) or []
        parts = [flag, t.type, _p.enc_str(t.value), str(t.lexpos), str(t.lineno), str(getattr(t, 'colno', 0)),
                 str(lexer.lexpos), str(lexer.lineno), str(len(hid))]
        for h in hid:
            parts += [h.type, _p.enc_str(h.value), str(h.lexpos), str(h.lineno), str(h.colno)]
        return ' '.join(parts)

    def token():
        t = orig_token()
        if t is not None:
            events.append(enc(t, 'T'))
        else:
            events.append("E $end ' 0 0 0 %d %d 0" % (lexer.lexpos, lexer.lineno))
        return t
    lexer.token = token
    lr = p.parser
    orig_err = lr.errorfunc

    def errorfunc(tok):
        n = len(events)
        r = orig_err(tok)
        del events[n:]
        if r is not None:
            events.append(enc(r, '!'))
        return r
    lr.errorfunc = errorfunc
    try:
        try:
            tree = p.parse(text)
            out = ('ok', tree)
        except Exception as e:
            out = ('err',) + exc_info(e)
    finally:
        lr.errorfunc = orig_err
        lexer.token = orig_token
    nl = lexer.newline_idx
    req = 'parse %s %d NL %d %s EV %s' % (cfg, 1 if with_comments else 0, len(nl), ' '.join(str(i) for i in nl), ' '.join(events))
    return req, out
