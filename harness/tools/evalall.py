"""
Batch evaluation of seeded changes:  evalall.py "<prop> <mutant> <check ids…>" …
For each: verify in its scratch worktree, run the named checks against it (VERIF_REPO), keep it under
/verif/seeded/<prop>-<mutant>/ when confirmed, append one JSON record to /verif/seeded/results.jsonl.
"""
import json
import os
import sys
import time

sys.path.insert(0, os.path.dirname(os.path.abspath(__file__)))
import eval_seeded as E

OUT = os.path.join(E.VERIF, 'seeded', 'results.jsonl')


def main():
    os.makedirs(os.path.dirname(OUT), exist_ok=True)
    for spec in sys.argv[1:]:
        parts = spec.split()
        prop, mut, checks = parts[0], parts[1], parts[2:]
        wt = '/tmp/mut/%s' % prop
        mdir = '%s/out/%s' % (wt, mut)
        t0 = time.time()
        rec = dict(property=prop, mutant=mut, checks={})
        try:
            v = E.verify(wt, mdir)
            rec['verify'] = {k: v[k] for k in ('apply', 'tests_with', 'tests_tail', 'demo_with', 'demo_without', 'confirmed')}
            if v['confirmed']:
                res = E.run(mdir, checks, wt=wt)
                for pid, r in res.items():
                    rec['checks'][pid] = dict(rc=r['rc'], verdict=[l for l in r['lines'] if l.startswith('VIOLATION')][:1],
                                              description=r.get('description'), replay=(r.get('replay') or '')[:300])
                try:
                    meta = json.load(open(os.path.join(mdir, 'meta.json')))
                except Exception:
                    meta = {}
                E.keep(mdir, '%s-%s' % (prop, mut), extra=dict(
                    confirmed=rec['verify'], checks_run={pid: dict(rc=c['rc'], verdict=c['verdict'], description=c['description'])
                                                         for pid, c in rec['checks'].items()},
                    how_run='harness/tools/eval_seeded.py verify + runwt (patch applied in a scratch worktree, checks pointed at it '
                            'through VERIF_REPO; quick tier, seed 0)'))
        except BaseException as e:
            rec['error'] = repr(e)
        rec['wall_s'] = round(time.time() - t0, 1)
        with open(OUT, 'a') as f:
            f.write(json.dumps(rec) + '\n')
        print(json.dumps(rec)[:600])
        sys.stdout.flush()


if __name__ == '__main__':
    main()
