"""
Evaluate seeded changes (mutants) against the checks.

  eval_seeded.py verify <worktree> <mutant dir>      confirm: patch applies, repo tests pass with it, demo fails with / passes without
  eval_seeded.py run <mutant dir> <Cnn> [more ids]   apply to /repo, run ./check <id> --tier quick for each id, undo; prints verdicts
  eval_seeded.py keep <mutant dir> <dest name>       copy into /verif/seeded/<dest name>/ (patch.diff, demo.py, meta.json)

/repo is always restored (git checkout -- . and removal of generated *tab_* files) in a finally block.
"""
import json
import os
import shutil
import subprocess
import sys

VERIF = os.path.dirname(os.path.dirname(os.path.dirname(os.path.abspath(__file__))))
PY = '/venv/bin/python'


def sh(cmd, **kw):
    return subprocess.run(cmd, shell=True, stdout=subprocess.PIPE, stderr=subprocess.STDOUT, universal_newlines=True, **kw)


def clean_tabs(root):
    sh('rm -f %s/src/calmjs/parse/parsers/lextab_* %s/src/calmjs/parse/parsers/yacctab_*' % (root, root))
    sh('find %s/src -name __pycache__ -type d -prune -exec rm -rf {} +' % root)


def verify(wt, mdir):
    patch = os.path.join(mdir, 'patch.diff')
    demo = os.path.join(mdir, 'demo.py')
    res = {}
    sh('git -C %s checkout -- .' % wt)
    clean_tabs(wt)
    r = sh('%s %s' % (PY, demo))
    res['demo_without'] = r.returncode
    a = sh('git -C %s apply %s' % (wt, patch))
    res['apply'] = a.returncode
    try:
        clean_tabs(wt)
        runner = os.path.join(wt, 'out', 'run_tests.py')
        if not os.path.exists(runner):
            os.makedirs(os.path.dirname(runner), exist_ok=True)
            open(runner, 'w').write(
                "import sys, calmjs\ncalmjs.__path__ = ['%s/src/calmjs'] + [p for p in calmjs.__path__ if 'site-packages' in p]\n"
                "for k in [k for k in sys.modules if k.startswith('calmjs.parse')]: del sys.modules[k]\n"
                "import calmjs.parse\nimport pytest; sys.exit(pytest.main(['-q', '-p', 'no:cacheprovider', '%s/src/calmjs/parse/tests']))\n" % (wt, wt))
        t = sh('%s %s' % (PY, runner))
        res['tests_with'] = t.returncode
        res['tests_tail'] = t.stdout.strip().split('\n')[-1]
        clean_tabs(wt)
        r = sh('%s %s' % (PY, demo))
        res['demo_with'] = r.returncode
        res['demo_output'] = r.stdout[-600:]
    finally:
        sh('git -C %s checkout -- .' % wt)
        clean_tabs(wt)
    res['confirmed'] = (res['apply'] == 0 and res['tests_with'] == 0 and res['demo_with'] != 0 and res['demo_without'] == 0)
    return res


def run(mdir, ids, tier='quick', wt=None):
    """
    Runs the checks against the change.  Default: apply to /repo, run, undo (the prescribed way).  While other
    processes are reading /repo (builders), pass a scratch worktree `wt`: the patch is applied there and the checks
    read it through VERIF_REPO - /repo itself is not touched.
    """
    patch = os.path.join(mdir, 'patch.diff')
    out = {}
    root = wt or '/repo'
    st = sh('git -C %s status --porcelain --untracked-files=no' % root)
    if st.stdout.strip():
        raise SystemExit('%s is not clean: %s' % (root, st.stdout))
    a = sh('git -C %s apply %s' % (root, patch))
    if a.returncode:
        raise SystemExit('patch does not apply to %s: %s' % (root, a.stdout))
    env = dict(os.environ)
    if wt:
        env['VERIF_REPO'] = wt
    try:
        clean_tabs(root)
        for pid in ids:
            r = sh('cd %s && ./check %s --tier %s' % (VERIF, pid, tier), timeout=3000, env=env)
            lines = [l for l in r.stdout.split('\n') if l.startswith('VIOLATION') or l.startswith(pid + ' ')]
            out[pid] = dict(rc=r.returncode, lines=lines[-3:])
            rp = [l for l in lines if l.startswith('VIOLATION')]
            if rp:
                path = rp[0].split('replay=')[1].split()[0]
                try:
                    d = json.load(open(os.path.join(VERIF, path)))
                    out[pid]['replay'] = json.dumps(d.get('replay'))[:500]
                    out[pid]['description'] = d.get('description')
                except Exception as e:
                    out[pid]['replay'] = repr(e)
    finally:
        sh('git -C %s checkout -- .' % root)
        clean_tabs(root)
    return out


def keep(mdir, name, extra=None):
    dest = os.path.join(VERIF, 'seeded', name)
    os.makedirs(dest, exist_ok=True)
    for f in ('patch.diff', 'demo.py', 'meta.json'):
        if os.path.exists(os.path.join(mdir, f)):
            shutil.copy(os.path.join(mdir, f), os.path.join(dest, f))
    if extra:
        mp = os.path.join(dest, 'meta.json')
        try:
            m = json.load(open(mp))
        except Exception:
            m = {}
        m.update(extra)
        json.dump(m, open(mp, 'w'), indent=1)
    return dest


if __name__ == '__main__':
    cmd = sys.argv[1]
    if cmd == 'verify':
        print(json.dumps(verify(sys.argv[2], sys.argv[3]), indent=1))
    elif cmd == 'run':
        print(json.dumps(run(sys.argv[2], sys.argv[3:]), indent=1))
    elif cmd == 'runwt':
        print(json.dumps(run(sys.argv[3], sys.argv[4:], wt=sys.argv[2]), indent=1))
    elif cmd == 'keep':
        print(keep(sys.argv[2], sys.argv[3]))
