"""
Runs /repo's own test suite against /repo's WORKING TREE (the pinned pytest command imports the stale installed copy
from site-packages; see boot.py).  Used to validate fix: commits and seeded changes.
usage: /venv/bin/python harness/tools/run_repo_tests.py [pytest args]
"""
import os
import sys
sys.path.insert(0, os.path.join(os.path.dirname(os.path.abspath(__file__)), '..'))
import boot
src = boot.boot()
import pytest
sys.exit(pytest.main(['-q', '-p', 'no:cacheprovider', '--rootdir', src, os.path.join(src, 'calmjs', 'parse', 'tests')] + sys.argv[1:]))
