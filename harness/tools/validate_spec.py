#!/venv/bin/python
"""
Validation of the independent ES5.1 reference (drv_spec) against calmjs.parse.

Runs calmjs (through boot) and drv_spec over corpus.g1_valid(), corpus.g1_invalid(), a hand-written
sample list that covers every production / ASI rule / regex-vs-division context / Unicode class /
literal spelling (each with the verdict the ECMA-262 5.1 text dictates), and grammar-directed random
programs (genjs) with token mutations; prints a classified disagreement report.

    /venv/bin/python harness/tools/validate_spec.py [--lean DIR] [--random N] [--seed S] [--node] [-v]

A disagreement is classified by structural rules (`CLASSES` below) into known calmjs deviations from
ES5.1; everything else is UNCLASSIFIED and must be looked at.  The hand-written expectations are checked
against drv_spec separately (section "spec vs expectation"), so the reference is not validated against
calmjs alone.  `--node` additionally cross-checks accept/reject with /usr/bin/node (development aid).
"""
from __future__ import print_function

import argparse
import collections
import json
import os
import random
import re
import subprocess
import sys
import time

HERE = os.path.dirname(os.path.abspath(__file__))
sys.path.insert(0, os.path.dirname(HERE))

import boot          # noqa: E402
import corpus        # noqa: E402
import framework     # noqa: E402
import proto         # noqa: E402
import treedump      # noqa: E402
import specclient    # noqa: E402
import shrink        # noqa: E402

LS, PS, NBSP, BOM = u'\u2028', u'\u2029', u'\xa0', u'\ufeff'

# ---------------------------------------------------------------------------------------------
# hand-written samples: (text, verdict per ECMA-262 5.1 [+ the two granted deviations])
# ---------------------------------------------------------------------------------------------
OK, ERR = 'ok', 'err'

SAMPLES = [
    # ---- program / empty
    ('', OK), (';', OK), (';;', OK), ('{}', OK), ('{;}', OK), ('{}{}', OK), ('\n', OK), ('// c', OK), ('/* c */', OK),
    # ---- primary expressions and literals
    ('this;', OK), ('a;', OK), ('null;', OK), ('true;', OK), ('false;', OK), ('(a);', OK), ('((a));', OK),
    ('(((a)));', OK), ('((a),(b));', OK), ('((a)+1);', OK), ('();', ERR), ('(a;', ERR), ('a);', ERR),
    ('0;', OK), ('00;', OK), ('07;', OK), ('017;', OK), ('08;', ERR), ('09;', ERR), ('018;', ERR), ('1;', OK),
    ('1.;', OK), ('1.5;', OK), ('.5;', OK), ('1e3;', OK), ('1E3;', OK), ('1e+3;', OK), ('1e-3;', OK),
    ('1.e3;', OK), ('.5e1;', OK), ('0.5;', OK), ('0.e1;', OK), ('0e1;', OK), ('1e;', ERR), ('1e+;', ERR),
    ('0x;', ERR), ('0x1F;', OK), ('0XaB;', OK), ('0x1g;', ERR), ('1a;', ERR), ('1_;', ERR), ('1$;', ERR),
    ('3in x;', ERR), ('3 in x;', OK), ('1.5.5;', ERR), ('1..a;', OK), ('1.a;', ERR), ('1 .a;', OK),
    ('1.5.a;', OK), ('0.a;', ERR), ('0..a;', OK), ('0x1.a;', OK), ('017.a;', OK), ('01.5;', ERR), ('00.5;', ERR),
    ('.e1;', ERR), ('..1;', ERR), ('1.e;', ERR), ('0b1;', ERR), ('0o7;', ERR), ('1\\u0061;', ERR),
    ('"a";', OK), ("'a';", OK), ('"";', OK), ("'';", OK), ('"a\\nb";', OK), ("'\\'';", OK), ('"\\"";', OK),
    ('"\\x41";', OK), ('"\\x4";', ERR), ('"\\xg1";', ERR), ('"\\u0041";', OK), ('"\\u004";', ERR), ('"\\u{41}";', ERR),
    ('"\\0";', OK), ('"\\1";', OK), ('"\\7";', OK), ('"\\8";', ERR), ('"\\9";', ERR), ('"\\00";', OK),
    ('"\\08";', ERR), ('"\\18";', ERR), ('"\\128";', ERR), ('"\\377";', OK), ('"\\400";', OK), ('"\\477";', OK),
    ('"\\0a";', OK), ('"\\12a";', OK), ('"\\1234";', OK), ('"\\48";', ERR), ('"\\78";', ERR), ('"\\47";', OK), ('"\\771";', OK), ('"\\38";', ERR),
    ('"\\e\\q\\-";', OK), ('"\\\n";', OK), ('"\\\r\n";', OK), ('"\\\r";', OK), ('"\\' + LS + '";', OK),
    ('"\\' + PS + '";', OK), ('"a\nb";', ERR), ('"a\rb";', ERR), ('"a' + LS + 'b";', ERR), ('"a' + PS + 'b";', ERR),
    ('"abc', ERR), ("'abc", ERR), ('"abc\\', ERR), ('"abc\\"', ERR), ('"a\'b";', OK), ("'a\"b';", OK),
    ('"\t\x0b\x0c' + NBSP + BOM + '";', OK), (u'"\U0001F600";', OK), (u"'\u65e5\u672c';", OK), ('"\\\n\\\n";', OK),
    ('"\\\n\r";', ERR), ('"\\\r\n\n";', ERR), ('"a\\\\";', OK), ('"a\\\\\\"";', OK),
    ('/a/;', OK), ('/a/g;', OK), ('/a/gim;', OK), ('/a/xyz;', OK), ('/[/]/;', OK), ('/\\//;', OK), ('/[\\]]/;', OK),
    ('/[\\]/]/;', OK), ('/a[/;', ERR), ('/a\n/;', ERR), ('/a\\\n/;', ERR), ('/[a\n]/;', ERR), ('/a', ERR),
    ('/a/\\u0067;', OK), ('/a/g\\u0069;', OK), ('/a/\\u002b;', ERR), ('/=/;', OK), ('/=a/;', OK), ('x = /=/;', OK),
    ('/(?:)/;', OK), ('/[/;', ERR), ('/]/;', OK), ('/a/ /b/;', ERR), ('/a/\n/b/;', ERR), ('/a/;\n/b/;', OK),
    ('/*/;', ERR), ('/\\*/;', OK), ('/ /;', OK), (u'/\u00e9/\u00e9;', OK), ('/a/1;', OK), ('/a/$_;', OK),
    ('/)/;', OK), ('/(/;', OK), ('/{/;', OK), ('/a//b;', OK), ('/a/ /b;', OK), ('/a/g/b;', OK),
    ('/a/.source;', OK), ('/a/[0];', OK), ('/a/(1);', OK), ('/a/ in b;', OK), ('/a/in b;', ERR),
    ('/a/ instanceof b;', OK),
    # ---- array literals, elision
    ('[];', OK), ('[,];', OK), ('[,,];', OK), ('[1];', OK), ('[1,];', OK), ('[1,,];', OK), ('[,1];', OK),
    ('[1,,2];', OK), ('[,,1,,2,,,];', OK), ('[1 2];', ERR), ('[1,2', ERR), ('[[],[,],[[]]];', OK), ('[a=1,b=2];', OK),
    ('[a,b in c];', OK), ('[1,,,,];', OK), ('[;];', ERR),
    # ---- object literals
    ('({});', OK), ('({a:1});', OK), ('({a:1,});', OK), ('({,});', ERR), ('({a:1,,});', ERR), ('({a:1 b:2});', ERR),
    ('({"a":1,\'b\':2,3:4,0x5:6,1.5:7,.5:8,1e3:9});', OK), ('({if:1,in:2,class:3,null:4,true:5,this:6});', OK),
    ('({get:1,set:2});', OK), ('({get a(){}});', OK), ('({set a(b){}});', OK), ('({get a(){},set a(b){}});', OK),
    ('({get "a"(){}});', OK), ('({get 1(){}});', OK), ('({set "a"(b){}});', OK), ('({set 1(b){}});', OK),
    ('({get if(){}});', OK), ('({set if(a){}});', OK), ('({get get(){}});', OK), ('({get set(){}});', OK),
    ('({set get(a){}});', OK), ('({set set(a){}});', OK), ('({get\na(){}});', OK), ('({get  a(){}});', OK),
    ('({get\ta(){}});', OK), ('({get/**/a(){}});', OK), ('({get a(b){}});', ERR), ('({set a(){}});', ERR),
    ('({set a(b,c){}});', ERR), ('({set a(if){}});', ERR), ('({get a:1});', ERR), ('({get});', ERR),
    ('({a});', ERR), ('({a:});', ERR), ('({:1});', ERR), ('({get:function(){}});', OK), ('({get : 1});', OK),
    ('({get\n:1});', OK), ('({get a(){return 1}});', OK), ('({set a(b){this.c=b}});', OK), ('({a:b,c:d in e});', OK),
    ('({a:1,get b(){},c:2,});', OK), ('({getx:1});', OK), ('({gets(){}});', ERR), ('({-1:1});', ERR),
    ('({a:function(){}});', OK), ('({a:{b:{c:1}}});', OK), ('({\\u0061:1});', OK), ('({a\\u0062:1});', OK),
    ('x = {get: 1, set: 2}', OK), ('x = {get a(){}, b: 1}', OK), ('({g\\u0065t a(){}});', ERR),
    # ---- identifiers
    ('$;', OK), ('_;', OK), ('$_a1;', OK), ('a1;', OK), (u'\u00e9t\u00e9;', OK), (u'\u03c0;', OK), (u'\u65e5\u672c;', OK),
    (u'\ud55c\uae00;', OK), (u'\u2160;', OK), (u'\u01c5x;', OK), (u'\u02b0a;', OK), (u'a\u0300;', OK), (u'a\u0903;', OK),
    (u'a\u0660;', OK), (u'a\u203f;', OK), (u'a\u200c;', OK), (u'a\u200d;', OK), (u'\u0300a;', ERR), (u'\u0660;', ERR),
    (u'\u203f;', ERR), (u'\u200c;', ERR), ('\\u0061;', OK), ('\\u0061b;', OK), ('a\\u0062;', OK), ('a\\u0030;', OK),
    ('\\u0030a;', ERR), ('\\u0020;', ERR), ('a\\u0020;', ERR), ('\\u006;', ERR), ('\\x61;', ERR), ('\\a;', ERR),
    ('a\\;', ERR), ('\\u{61};', ERR), ('v\\u0061r;', ERR), ('v\\u0061r a;', ERR), ('a.v\\u0061r;', OK),
    ('({v\\u0061r:1});', OK), (u'\U0001d49c;', ERR), (u'a\U0001d49c;', ERR), ('a b;', ERR), ('#;', ERR), ('@a;', ERR),
    ('a#;', ERR), ('`a`;', ERR), (u'a\u00b7;', ERR), (u'\u2118;', ERR), (u'\u212e;', ERR),
    ('if;', ERR), ('var if;', ERR), ('var class;', ERR), ('var enum;', ERR), ('var super;', ERR), ('var const;', ERR),
    ('var export;', ERR), ('var extends;', ERR), ('var import;', ERR), ('var null;', ERR), ('var true;', ERR),
    ('var this;', ERR), ('var let;', OK), ('var yield;', OK), ('var static;', OK), ('var implements;', OK),
    ('var interface;', OK), ('var package;', OK), ('var private;', OK), ('var protected;', OK), ('var public;', OK),
    ('var of, async, await, get, set, undefined, NaN, Infinity, eval, arguments;', OK), ('class A {}', ERR),
    ('const a = 1;', ERR), ('let a = 1;', ERR), ('let\na = 1;', OK), ('import a;', ERR), ('export a;', ERR),
    ('super.a;', ERR), ('enum a;', ERR), ('var ifx, inx, dox, newx, thisx, varx, nullx, truex;', OK),
    # ---- member / call / new
    ('a.b;', OK), ('a.b.c;', OK), ('a[b];', OK), ('a[b][c];', OK), ('a.b[c].d;', OK), ('a();', OK), ('a(b);', OK),
    ('a(b,c);', OK), ('a(b,);', ERR), ('a(,b);', ERR), ('a(b c);', ERR), ('a()();', OK), ('a().b;', OK), ('a()[b];', OK),
    ('a.b();', OK), ('a[b]();', OK), ('a.if;', OK), ('a.in;', OK), ('a.class;', OK), ('a.null;', OK), ('a.true;', OK),
    ('a.this;', OK), ('a.function;', OK), ('a.if.else;', OK), ('a.if();', OK), ('a.new();', OK), ('a.1;', ERR),
    ('a."b";', ERR), ('a.;', ERR), ('a..b;', ERR), ('a[];', ERR), ('a[b;', ERR), ('a[b,c];', OK), ('a[b in c];', OK),
    ('new a;', OK), ('new a();', OK), ('new a(b);', OK), ('new a(b,c);', OK), ('new a.b;', OK), ('new a.b();', OK),
    ('new a[b];', OK), ('new a[b]();', OK), ('new new a;', OK), ('new new a();', OK), ('new new a()();', OK),
    ('new new a()()();', OK), ('new a()();', OK), ('new a().b;', OK), ('new a()[b];', OK), ('new a().b();', OK),
    ('new (a());', OK), ('new (a.b());', OK), ('new a.b().c;', OK), ('new this;', OK), ('new this();', OK),
    ('new function(){};', OK), ('new function(){}();', OK), ('new function a(){}(1);', OK), ('new 1;', OK),
    ('new "a";', OK), ('new /a/;', OK), ('new [];', OK), ('new {};', OK), ('new {}();', OK), ('new (a);', OK),
    ('new;', ERR), ('new new;', ERR), ('new a b;', ERR), ('new a.if;', OK), ('new a.new;', OK), ('new a++;', OK),
    ('new a = 1;', OK), ('new a() = 1;', OK), ('new ++a;', ERR), ('new -a;', ERR), ('new typeof a;', ERR),
    ('new a.b.c(d)(e).f;', OK), ('a(function(){});', OK), ('a({}, [], /x/);', OK), ('a(b = c, d ? e : f);', OK),
    ('a(b in c);', OK), ('a((b, c));', OK), ('a(b, c)(d)[e].f(g);', OK),
    # ---- postfix / unary
    ('a++;', OK), ('a--;', OK), ('++a;', OK), ('--a;', OK), ('+a;', OK), ('-a;', OK), ('~a;', OK), ('!a;', OK),
    ('delete a;', OK), ('void a;', OK), ('typeof a;', OK), ('delete a.b;', OK), ('void 0;', OK), ('typeof typeof a;', OK),
    ('!!a;', OK), ('- -a;', OK), ('+ +a;', OK), ('-+a;', OK), ('+-a;', OK), ('- --a;', OK), ('+ ++a;', OK),
    ('---a;', OK), ('+++a;', OK), ('a++ + b;', OK), ('a+++b;', OK), ('a+ ++b;', OK), ('a++ +b;', OK),
    ('a+++ +b;', OK), ('a+++++b;', ERR), ('a++ ++;', ERR), ('a++ --;', ERR), ('++a++;', OK), ('++a--;', OK),
    ('--a++;', OK), ('++ ++a;', OK), ('a++.b;', ERR), ('a++(b);', ERR), ('a++[b];', ERR), ('(a++).b;', OK),
    ('1++;', OK), ('a()++;', OK), ('++a();', OK), ('this++;', OK), ('++this;', OK), ('"a"++;', OK), ('(a+b)++;', OK),
    ('++(a+b);', OK), ('new a++;', OK), ('typeof a++;', OK), ('delete a++;', OK), ('!a++;', OK), ('-a++;', OK),
    ('delete;', ERR), ('void;', ERR), ('typeof;', ERR), ('!;', ERR), ('~;', ERR), ('++;', ERR), ('a ! b;', ERR),
    ('a ~ b;', ERR), ('a typeof b;', ERR), ('a delete b;', ERR), ('typeof a.b.c;', OK), ('void a(b);', OK),
    ('delete a[b];', OK), ('typeof new a;', OK), ('typeof function(){};', OK), ('typeof {};', OK), ('typeof /a/;', OK),
    ('void /a/;', OK), ('delete /a/.b;', OK), ('+ /a/;', OK), ('- /a/;', OK), ('! /a/;', OK), ('~ /a/;', OK),
    ('++ /a/;', OK), ('-- /a/;', OK), ('++/a/.b;', OK),
    # ---- binary operators, precedence and associativity
    ('a*b;', OK), ('a/b;', OK), ('a%b;', OK), ('a+b;', OK), ('a-b;', OK), ('a<<b;', OK), ('a>>b;', OK), ('a>>>b;', OK),
    ('a<b;', OK), ('a>b;', OK), ('a<=b;', OK), ('a>=b;', OK), ('a instanceof b;', OK), ('a in b;', OK), ('a==b;', OK),
    ('a!=b;', OK), ('a===b;', OK), ('a!==b;', OK), ('a&b;', OK), ('a^b;', OK), ('a|b;', OK), ('a&&b;', OK),
    ('a||b;', OK), ('a?b:c;', OK), ('a,b;', OK), ('a,b,c;', OK), ('a*b*c;', OK), ('a/b/c;', OK), ('a-b-c;', OK),
    ('a+b*c;', OK), ('a*b+c;', OK), ('a+b<<c;', OK), ('a<<b<c;', OK), ('a<b==c;', OK), ('a==b&c;', OK), ('a&b^c;', OK),
    ('a^b|c;', OK), ('a|b&&c;', OK), ('a&&b||c;', OK), ('a||b&&c;', OK), ('a||b?c:d;', OK), ('a?b:c?d:e;', OK),
    ('a?b?c:d:e;', OK), ('a?b:c,d;', OK), ('a?b,c:d;', ERR), ('a?(b,c):d;', OK), ('a = b ? c : d;', OK),
    ('a ? b = c : d = e;', OK), ('a ? b : c = d;', OK), ('a || b = c;', ERR), ('a + b = c;', ERR), ('a ? b : c = d = e;', OK),
    ('a in b in c;', OK), ('a instanceof b instanceof c;', OK), ('a < b > c <= d >= e;', OK), ('a == b != c === d !== e;', OK),
    ('a << b >> c >>> d;', OK), ('a * b / c % d;', OK), ('a + b - c;', OK), ('a & b & c;', OK), ('a | b | c;', OK),
    ('a ^ b ^ c;', OK), ('a && b && c;', OK), ('a || b || c;', OK), ('a * -b;', OK), ('a - -b;', OK), ('a - --b;', OK),
    ('a + typeof b;', OK), ('a * ++b;', OK), ('a ** b;', ERR), ('a ?? b;', ERR), ('a?.b;', ERR), ('a => b;', ERR),
    ('a *;', ERR), ('* a;', ERR), ('a + ;', ERR), ('a +* b;', ERR), ('a in;', ERR), ('in a;', ERR),
    ('a instanceof;', ERR), ('instanceof a;', ERR), ('a ? b;', ERR), ('a ? : c;', ERR), ('a ? b : ;', ERR),
    ('a < b < c;', OK), ('a<!--b;', OK), ('a-->b;', OK), ('a &&& b;', ERR), ('a ||| b;', ERR), ('a >>>> b;', ERR),
    ('a <<< b;', ERR), ('a ==== b;', ERR), ('a !=== b;', ERR), ('a =! b;', OK), ('a =+ b;', OK), ('a =- b;', OK),
    ('a = = b;', ERR), ('a + = b;', ERR), ('a > > b;', ERR), ('a > = b;', ERR), ('a & & b;', ERR),
    # ---- assignment
    ('a=b;', OK), ('a*=b;', OK), ('a/=b;', OK), ('a%=b;', OK), ('a+=b;', OK), ('a-=b;', OK), ('a<<=b;', OK),
    ('a>>=b;', OK), ('a>>>=b;', OK), ('a&=b;', OK), ('a^=b;', OK), ('a|=b;', OK), ('a=b=c;', OK), ('a=b+=c;', OK),
    ('a.b=c;', OK), ('a[b]=c;', OK), ('a()=b;', OK), ('1=a;', OK), ('this=a;', OK), ('(a)=b;', OK), ('(a,b)=c;', OK),
    ('(a+b)=c;', OK), ('[a]=b;', OK), ('({a:b})=c;', OK), ('"a"=b;', OK), ('/a/=b;', OK), ('null=a;', OK),
    ('function(){}=a;', ERR), ('(function(){})=a;', OK), ('new a=b;', OK), ('a++=b;', ERR), ('++a=b;', ERR),
    ('-a=b;', ERR), ('!a=b;', ERR), ('typeof a=b;', ERR), ('a=b?c:d=e;', OK), ('a?b:c=d;', OK), ('a&&b=c;', ERR),
    ('a=;', ERR), ('=a;', ERR), ('a=b c;', ERR), ('a &&= b;', ERR), ('a ||= b;', ERR), ('a **= b;', ERR),
    ('x = a /= b /= c;', OK), ('a /= /b/;', OK), ('a /=/b/;', OK), ('a = /=b/;', OK), ('a /= b / c;', OK),
    # ---- regex vs division contexts
    ('a / b / c;', OK), ('a /b/ c;', OK), ('a = b /c/ d;', OK), ('a = /b/.c;', OK), ('(a) / b / c;', OK), ('(/a/);', OK),
    ('[/a/];', OK), ('[a] / b / c;', OK), ('a[/b/];', OK), ('a[b] / c / d;', OK), ('{} /a/;', OK), ('{} / a / b;', ERR),
    ('({}) / a / b;', OK), ('x = {} / a / b;', OK), ('a = {} /b/ c;', OK), ('function f(){} /a/;', OK),
    ('function f(){} / a / b;', ERR), ('x = function(){} / a / b;', OK), ('a++ / b / c;', OK), ('a-- / b / c;', OK),
    ('a++ /b/ c;', OK), ('a\n++ /b/.c;', OK), ('a\n++\n/b/.c;', OK), ('++ /b/.c;', OK), ('a + /b/.c;', OK),
    ('a ++ /b/ .c;', ERR), ('1 / 2 / 3;', OK), ('"a" / 2 / 3;', OK), ('/a/ / 2 / 3;', OK), ('/a/g / /b/g;', OK),
    ('this / a / b;', OK), ('null / a / b;', OK), ('true / a / b;', OK), ('false / a / b;', OK), ('a.b / c / d;', OK),
    ('a() / b / c;', OK), ('a.if / b / c;', OK), ('a.if(b) / c / d;', OK), ('a.return / b / c;', OK), ('a.typeof / b / c;', OK),
    ('a.in / b / c;', OK), ('a.this / b / c;', OK), ('a.delete /b/ c;', OK), ('a.void /b/g;', OK),
    ('if (a) /b/.c;', OK), ('if (a) /b/g;', OK), ('if (a) /b/ /c/;', ERR), ('if (a) /*x*/ /b/.c;', OK), ('if (a)\n/b/.c;', OK),
    ('if\n(a) /b/.c;', OK), ('if /**/ (a) /b/.c;', OK), ('while (a) /b/.c;', OK), ('for (;;) /b/.c;', OK),
    ('for (a in b) /c/.d;', OK), ('with (a) /b/.c;', OK), ('with (a) /b/g;', OK), ('if (a) b; else /c/.d;', OK),
    ('do /a/.b; while (c);', OK), ('do a; while (b) /c/.d;', ERR), ('do a; while (b)\n/c/.d;', OK), ('if ((a)) /b/.c;', OK),
    ('if (a(b)) /c/.d;', OK), ('if (a) (b) / c / d;', OK), ('if (a) b / c / d;', OK), ('(a) /b/ c;', OK),
    ('a(b) / c / d;', OK), ('if (a) {} /b/.c;', OK), ('x = (a) / b / c;', OK), ('return /a/;', OK), ('return /a/.b;', OK),
    ('return a / b / c;', OK), ('throw /a/;', OK), ('typeof /a/;', OK), ('typeof a / b / c;', OK), ('void a / b / c;', OK),
    ('delete a / b / c;', OK), ('new /a/;', OK), ('new a / b / c;', OK), ('a in /b/;', OK), ('a instanceof /b/;', OK),
    ('case_: /a/;', OK), ('a: /b/.c;', OK), ('switch (a) { case /b/: /c/.d; default: /e/.f; }', OK),
    ('switch (a) { case b / c / d: e; }', OK), ('x = a ? /b/ : /c/;', OK), ('x = a ? b / c / d : e;', OK),
    ('x = [/a/, /b/];', OK), ('x = {a: /b/, c: /d/};', OK), ('x = {a: b / c / d};', OK), ('f(/a/, /b/);', OK),
    ('f(a / b / c);', OK), ('a, /b/;', OK), ('a; /b/;', OK), ('a\n/b/;', ERR), ('a\n/b/g;', OK), ('a\n/b/\nc;', OK),
    ('a = b\n/c/.d;', ERR), ('a = b\n/c/g.d;', OK), ('var a = /b/;', OK), ('var a = b / c / d;', OK), ('var a = /=/;', OK),
    ('a /= b;', OK), ('(a) /= b;', OK), ('a[b] /= c;', OK), ('a.b /= c;', OK), ('a() /= b;', OK), ('if (a) /=b/.c;', OK),
    ('x = a\n/=b/.c;', ERR), ('} /a/;', ERR), ('try {} catch (e) {} /a/;', OK), ('try {} finally {} /a/.b;', OK),
    ('if (a) {} else {} /b/;', OK), ('while (a) {} /b/;', OK), ('switch (a) {} /b/;', OK), ('l: {} /a/;', OK),
    ('x = function(){} /a/ 1;', OK), ('x = {}\n/a/;', ERR), ('x = {}\n/a/g;', OK), ('{}\n/a/;', OK), ('{}\n/a/g;', OK),
    ('a = function f(){}\n/b/g;', OK), ('function f(){}\n/b/g;', OK), ('(function(){}) /a/ 1;', OK),
    ('(function(){} / a / b);', OK), ('[function(){} /a/g];', OK), ('a ? {} /b/g : c;', OK), ('!function(){} /a/g;', OK),
    ('!{} /a/g;', OK), ('a = b ? c : {} /d/g;', OK), ('({} /a/g);', OK), ('x = a++ /b/g;', OK),
    ('x = a++\n/b/g;', OK), ('x = a\n++\n/b/g;', OK), ('x\n++\n/b/g;', OK), ('x = ) /a/;', ERR),
    ('a]/b/;', ERR), ('x = a[0]/b/c;', OK), ('x = "s"/b/c;', OK), ('x = 1/b/c;', OK), ('x = 1./b/c;', OK), ('x = .1/b/c;', OK),
    ('x = 0x1/b/c;', OK), ('x = /r/ /b/c;', OK), ('x = /r//b/c;', OK), ('x = a//b/c;\n1;', OK), ('x = a/*b*/c;', ERR),
    ('x = a/*b*//c/d;', OK), ('x = a /*b*/ /c/ d;', OK), ('x = /*a*/ /b/ /*c*/;', OK), ('x = // a\n/b/;', OK),
    ('x = a /', ERR), ('x = /', ERR), ('x = //', ERR), ('x = /*', ERR), ('x = /* *', ERR), ('/**/', OK), ('/***/', OK),
    ('/*/ */', OK), ('/*/', ERR), ('/* /* */ */', ERR), ('s = /****/;', ERR), ('// a\n// b', OK), ('//', OK),
    ('a // b\n+ c;', OK), ('a /* b\n */ + c;', OK), ('/*\n*/a', OK), ('a /* */ b', ERR), ('a /*\n*/ b', OK),
    ('a //\nb', OK), ('a /*' + LS + '*/ b', OK), ('a /*' + PS + '*/ b', OK), ('a /*\r*/ b', OK), ('<!-- a', ERR),
    ('--> a', ERR), ('a --> b', OK),
    # ---- statements
    ('var a;', OK), ('var a, b;', OK), ('var a = 1;', OK), ('var a = 1, b = 2;', OK), ('var a = b = c;', OK),
    ('var a = b, c;', OK), ('var a = (b, c);', OK), ('var a = b in c;', OK), ('var;', ERR), ('var a,;', ERR),
    ('var a b;', ERR), ('var a = ;', ERR), ('var 1;', ERR), ('var a.b;', ERR), ('var a += 1;', ERR), ('var (a);', ERR),
    ('var a, if;', ERR), ('var a = 1 var b = 2;', ERR), ('var a\nvar b', OK), ('var a\n, b', OK), ('var a\n= 1', OK),
    ('var\na', OK), ('var a = function(){}, b = {}, c = [], d = /x/;', OK),
    ('if (a) b;', OK), ('if (a) b; else c;', OK), ('if (a) {} else {}', OK), ('if (a) if (b) c; else d;', OK),
    ('if (a) if (b) c; else d; else e;', OK), ('if (a) b; else if (c) d; else e;', OK), ('if (a) ; else ;', OK),
    ('if (a);', OK), ('if (a)', ERR), ('if (a) else b;', ERR), ('if a b;', ERR), ('if () b;', ERR), ('if (a) b else c;', ERR),
    ('if (a) b\nelse c', OK), ('if (a) {} else', ERR), ('else a;', ERR), ('if (a) var b; else var c;', OK),
    ('if (a) function f(){}', OK), ('if (a) function f(){} else function g(){}', OK), ('if (a, b) c;', OK),
    ('if (a = b) c;', OK), ('if (a in b) c;', OK), ('if (a) b: c;', OK), ('if (a) return;', OK), ('if (a) break; else continue;', OK),
    ('do a; while (b);', OK), ('do a; while (b)', OK), ('do {} while (a);', OK), ('do {} while (a)', OK),
    ('do {} while (a) b;', ERR), ('do {} while (a)\nb;', OK), ('do a while (b);', ERR), ('do a\nwhile (b);', OK),
    ('do ; while (a);', OK), ('do while (a);', ERR), ('do do a; while (b); while (c);', OK), ('do a; while b;', ERR),
    ('do a; while ();', ERR), ('do {} while (a);;', OK), ('do {} while (a) ;', OK), ('do if (a) b; else c; while (d);', OK),
    ('do function f(){} while (a);', OK), ('do a; while (b) }', ERR), ('{ do a; while (b) }', OK),
    ('while (a) b;', OK), ('while (a) {}', OK), ('while (a);', OK), ('while (a)', ERR), ('while () a;', ERR),
    ('while a b;', ERR), ('while (a) while (b) c;', OK), ('while (a, b) c;', OK), ('while (a in b) c;', OK),
    ('for (;;);', OK), ('for (;;) a;', OK), ('for (a;;);', OK), ('for (;a;);', OK), ('for (;;a);', OK), ('for (a;b;c);', OK),
    ('for (a;b;c) d;', OK), ('for (a, b; c, d; e, f);', OK), ('for (var a;;);', OK), ('for (var a = 1;;);', OK),
    ('for (var a, b;;);', OK), ('for (var a = 1, b = 2; a < b; a++) {}', OK), ('for (a in b);', OK), ('for (a in b) c;', OK),
    ('for (var a in b);', OK), ('for (var a in b) c;', OK), ('for (var a = 1 in b);', OK), ('for (var a = 1, b in c);', ERR),
    ('for (var a, b in c);', ERR), ('for (a.b in c);', OK), ('for (a[b] in c);', OK), ('for (a() in b);', OK),
    ('for ((a) in b);', OK), ('for ((a in b) in c);', OK), ('for (a in b in c);', OK), ('for (a in b, c);', OK),
    ('for (1 in a);', OK), ('for (this in a);', OK), ('for (new a in b);', OK), ('for (new a() in b);', OK),
    ('for (a, b in c);', ERR), ('for (a = b in c);', ERR), ('for (a + b in c);', ERR), ('for (a ? b : c in d);', ERR),
    ('for (a++ in b);', ERR), ('for (++a in b);', ERR), ('for (!a in b);', ERR), ('for (a in b; c; d);', ERR),
    ('for ((a in b); c; d);', OK), ('for (a = (b in c); d; e);', OK), ('for (a = [b in c]; d; e);', OK),
    ('for (a = {b: c in d}; e; f);', OK), ('for (a = b(c in d); e; f);', OK), ('for (a = b[c in d]; e; f);', OK),
    ('for (a = function(){ b in c }; d; e);', OK), ('for (a ? b in c : d; e; f);', OK), ('for (a ? b : c in d; e; f);', ERR),
    ('for (a ? (b in c) : d; e; f);', OK), ('for (var a = b in c; d; e);', ERR), ('for (var a = (b in c); d; e);', OK),
    ('for (var a = b ? c in d : e; f; g);', OK), ('for (a == b in c;;);', ERR), ('for (a < b in c;;);', ERR),
    ('for (a && b in c;;);', ERR), ('for (a || b in c;;);', ERR), ('for (a | b in c;;);', ERR), ('for (a & b in c;;);', ERR),
    ('for (a ^ b in c;;);', ERR), ('for (a + b in c;;);', ERR), ('for (a, b in c;;);', ERR), ('for (a = b in c;;);', ERR),
    ('for (var a = b == c in d;;);', ERR), ('for (var a = b, c = d in e;;);', ERR), ('for (a instanceof b;;);', OK),
    ('for (;a in b;);', OK), ('for (;;a in b);', OK), ('for (a;b;c;d);', ERR), ('for (a;b);', ERR), ('for (a);', ERR),
    ('for ();', ERR), ('for (;;)', ERR), ('for (a\nb\nc);', ERR), ('for (a;b\nc);', ERR), ('for (\n;\n;\n);', OK),
    ('for (var a\n;;);', OK), ('for (;;) function f(){}', OK), ('for (var a in b, c);', OK), ('for (var if in a);', ERR),
    ('for (var a of b);', ERR), ('for (a of b);', ERR), ('for (var a = 1 of b);', ERR), ('for (var in a);', ERR),
    ('for (var a in);', ERR), ('for (in a);', ERR), ('for (a in);', ERR), ('for (function(){} in a);', OK),
    ('for (function(){};;);', OK), ('for ({} in a);', OK), ('for ({};;);', OK), ('for ([] in a);', OK), ('for (/a/ in b);', OK),
    ('for (/a/;;);', OK), ('for ("a" in b);', OK), ('for (a\nin\nb);', OK), ('for (var a\nin\nb);', OK),
    ('continue;', OK), ('continue a;', OK), ('continue\na;', OK), ('continue', OK), ('continue a b;', ERR), ('continue 1;', ERR),
    ('continue if;', ERR), ('continue a\nb', OK), ('{continue}', OK), ('{continue a}', OK), ('while (a) continue;', OK),
    ('break;', OK), ('break a;', OK), ('break\na;', OK), ('break', OK), ('break a b;', ERR), ('break 1;', ERR),
    ('{break}', OK), ('a: while (b) break a;', OK), ('break /*\n*/ a;', OK), ('continue /*\n*/ a;', OK),
    ('return;', OK), ('return a;', OK), ('return\na;', OK), ('return', OK), ('return a, b;', OK), ('return a = b;', OK),
    ('return a b;', ERR), ('return }', ERR), ('{return}', OK), ('function f(){return}', OK), ('function f(){return a}', OK),
    ('function f(){return\na}', OK), ('return /*\n*/ a;', OK), ('return /* */ a;', OK), ('return // c\na;', OK),
    ('return (\na\n);', OK), ('return a\n+ b;', OK), ('return a\n++\nb;', OK), ('return function(){};', OK), ('return {};', OK),
    ('return {a: 1};', OK), ('return [\n];', OK), ('return typeof a;', OK), ('return ++a;', OK), ('return\n++a;', OK),
    ('return -a;', OK), ('return /a/g;', OK), ('return\n/a/g;', OK), ('return a in b;', OK), ('return in;', ERR),
    ('return );', ERR), ('return ];', ERR), ('return =;', ERR), ('return ,;', ERR), ('return :;', ERR), ('return else;', ERR),
    ('with (a) b;', OK), ('with (a) {}', OK), ('with (a);', OK), ('with (a)', ERR), ('with () a;', ERR), ('with a b;', ERR),
    ('with (a, b) c;', OK), ('with (a) with (b) c;', OK), ('with (a) function f(){}', OK), ('with (a) var b;', OK),
    ('switch (a) {}', OK), ('switch (a) {case b:}', OK), ('switch (a) {case b: c;}', OK), ('switch (a) {default:}', OK),
    ('switch (a) {default: b;}', OK), ('switch (a) {case b: default: case c:}', OK),
    ('switch (a) {case b: c; d; case e: f; default: g; h; case i: j;}', OK), ('switch (a) {default: default:}', ERR),
    ('switch (a) {default: b; case c: default: d;}', ERR), ('switch (a) {b;}', ERR), ('switch (a) {case: b;}', ERR),
    ('switch (a) {case b c;}', ERR), ('switch (a) {default b;}', ERR), ('switch (a) {case b:', ERR), ('switch (a) case b: c;', ERR),
    ('switch a {}', ERR), ('switch () {}', ERR), ('switch (a) {case b, c: d;}', OK), ('switch (a) {case b in c: d;}', OK),
    ('switch (a) {case b ? c : d: e;}', OK), ('switch (a) {case {}: b;}', OK), ('switch (a) {case function(){}: b;}', OK),
    ('switch (a) {case b: function f(){}}', OK), ('switch (a) {case b: {c;} break; default: {d;}}', OK),
    ('switch (a) {case b: c\ncase d: e\ndefault: f\n}', OK), ('switch (a) {case b: c case d: e}', ERR),
    ('switch (a, b) {}', OK), ('switch (a) {case b: var c;}', OK), ('switch (a) {case b: l: c;}', OK),
    ('switch (a) {case b: switch (c) {case d: e;}}', OK), ('case a: b;', ERR), ('default: a;', ERR),
    ('a: b;', OK), ('a: b: c;', OK), ('a: a: b;', OK), ('a: {}', OK), ('a: ;', OK), ('a:', ERR), ('a: }', ERR),
    ('a: function f(){}', OK), ('a: var b;', OK), ('a: while (b) continue a;', OK), ('a\n: b;', OK), ('a /**/ : b;', OK),
    ('(a): b;', ERR), ('a.b: c;', ERR), ('1: a;', ERR), ('"a": b;', ERR), ('if: a;', ERR), ('this: a;', ERR),
    ('true: a;', ERR), ('null: a;', ERR), ('a, b: c;', ERR), ('a: b, c;', OK), ('a: b: c: d: e;', OK),
    ('yield: a;', OK), ('let: a;', OK), ('get: a;', OK), ('set: 1;', OK), ('a: if (b) c: d; else e: f;', OK),
    ('a:\nb', OK), ('a: b\nc: d', OK), ('\\u0061: b;', OK), ('a ? b : c: d;', ERR),
    ('throw a;', OK), ('throw a, b;', OK), ('throw new a(b);', OK), ('throw\na;', ERR), ('throw;', ERR), ('throw', ERR),
    ('throw a b;', ERR), ('throw a\nb', OK), ('{throw a}', OK), ('throw /*\n*/ a;', ERR), ('throw /* */ a;', OK),
    ('throw // c\na;', ERR), ('throw {};', OK), ('throw function(){};', OK), ('throw a\n++\nb', OK), ('throw }', ERR),
    ('try {} catch (a) {}', OK), ('try {} finally {}', OK), ('try {} catch (a) {} finally {}', OK), ('try {}', ERR),
    ('try a; catch (b) {}', ERR), ('try {} catch (a) b;', ERR), ('try {} catch {}', ERR), ('try {} catch () {}', ERR),
    ('try {} catch (a, b) {}', ERR), ('try {} catch (a.b) {}', ERR), ('try {} catch (1) {}', ERR), ('try {} catch (if) {}', ERR),
    ('try {} finally a;', ERR), ('try {} finally {} catch (a) {}', ERR), ('try {} catch (a) {} catch (b) {}', ERR),
    ('try {} finally {} finally {}', ERR), ('try { a; } catch (b) { c; } finally { d; }', OK),
    ('try { try {} catch (a) {} } finally {}', OK), ('try {} catch (a) { try {} finally {} }', OK), ('catch (a) {}', ERR),
    ('finally {}', ERR), ('try\n{}\ncatch\n(a)\n{}\nfinally\n{}', OK), ('try {} catch (a) {}\nfinally {}', OK),
    ('debugger;', OK), ('debugger', OK), ('debugger\na', OK), ('debugger a;', ERR), ('{debugger}', OK), ('debugger;;', OK),
    ('a.debugger;', OK), ('debugger: a;', ERR), ('x = debugger;', ERR),
    ('{a}', OK), ('{a;b}', OK), ('{a\nb}', OK), ('{a b}', ERR), ('{', ERR), ('}', ERR), ('{{}}', OK), ('{{}', ERR),
    ('{a:1}', OK), ('{a:1,b:2}', ERR), ('{a:{b:1}}', OK), ('{"a":1}', ERR), ('{a:b:c}', OK), ('{function f(){}}', OK),
    ('{var a}', OK), ('{;;;}', OK), ('{}\n{}', OK), ('{}[0]', OK), ('{}.a', ERR), ('{}(a)', OK), ('{}+a', OK),
    ('{}=a', ERR), ('{},a', ERR), ('{}/a/', OK), ('{}/a', ERR), ('{}\n/a/.b', OK),
    # ---- functions
    ('function f(){}', OK), ('function f(a){}', OK), ('function f(a,b){}', OK), ('function f(a,b,c){return a+b+c}', OK),
    ('function f(){};', OK), ('function f(){}()', ERR), ('function f(){}(a)', OK), ('function f(){}[a]', OK),
    ('function f(){}.a', ERR), ('function f(){}+a', OK), ('function f(){} a', OK), ('function f(){}\na', OK),
    ('function (){}', ERR), ('function(){}', ERR), ('function(){}()', ERR), ('function(){}.call()', ERR),
    ('function(){}, a', ERR), ('function(){} + a', ERR), ('(function(){})', OK), ('(function(){})()', OK),
    ('(function(){}())', OK), ('(function f(){})', OK), ('!function(){}()', OK), ('+function(){}()', OK),
    ('void function(){}()', OK), ('new function(){}', OK), ('a = function(){}', OK), ('a = function f(){}', OK),
    ('a = function f(b,c){d}', OK), ('function f(,){}', ERR), ('function f(a,){}', ERR), ('function f(,a){}', ERR),
    ('function f(a b){}', ERR), ('function f(1){}', ERR), ('function f(if){}', ERR), ('function f(a.b){}', ERR),
    ('function f(a=1){}', ERR), ('function f(...a){}', ERR), ('function f(a){', ERR), ('function f(a)', ERR),
    ('function f{}', ERR), ('function f()', ERR), ('function f() a', ERR), ('function if(){}', ERR), ('function 1(){}', ERR),
    ('function f(){function g(){function h(){}}}', OK), ('function f(){return function(){return function(){}}}', OK),
    ('function f(){var a; function g(){} a = 1; return g}', OK), ('function f(a,a){}', OK), ('function eval(){}', OK),
    ('function arguments(){}', OK), ('function f(eval){}', OK), ('function f(){"use strict"; with (a) b;}', OK),
    ('"use strict"; var public;', OK), ('"use strict"; 010;', OK), ('function f(){return}', OK), ('function f(){}function g(){}', OK),
    ('function f(){}\nfunction g(){}', OK), ('function\nf\n(\na\n,\nb\n)\n{\n}', OK), ('function f(){a\nb}', OK),
    ('function f(){a b}', ERR), ('function f(){}}', ERR), ('function get(){}', OK), ('function set(){}', OK),
    ('function f(get, set){}', OK), ('function* f(){}', ERR), ('async function f(){}', ERR), ('function f(){yield a}', ERR),
    ('a = function(){}()', OK), ('a = function(){}.b', OK), ('a = function(){}[b]', OK), ('a, function(){}', OK),
    ('a ? function(){} : function(){}', OK), ('a || function(){}', OK), ('a(function(){}, function b(){})', OK),
    ('[function(){}]', OK), ('({a: function(){}})', OK), ('x = function if(){}', ERR), ('x = function 1(){}', ERR),
    ('function f(){} function', ERR), ('function f(\\u0061){}', OK), ('function \\u0061(){}', OK),
    # ---- automatic semicolon insertion
    ('a\nb', OK), ('a b', ERR), ('a\n\nb', OK), ('a\rb', OK), ('a\r\nb', OK), ('a' + LS + 'b', OK), ('a' + PS + 'b', OK),
    ('a\x0bb', ERR), ('a\x0cb', ERR), ('a\tb', ERR), ('a' + NBSP + 'b', ERR), ('a' + BOM + 'b', ERR), ('a\x85b', ERR),
    ('a /*\n*/ b', OK), ('a /* */ b', ERR), ('a /*' + LS + '*/ b', OK), ('a // c\nb', OK), ('a\n/*c*/b', OK),
    ('a\n/*c*/ /*d*/b', OK), ('a /*c*/\n/*d*/ b', OK), ('a\n//c\nb', OK), ('a}', ERR), ('{a}', OK), ('{a\n}', OK),
    ('{a}b', OK), ('{a} b', OK), ('a\n++b', OK), ('a\n--b', OK), ('a\n++\nb', OK), ('a++\nb', OK), ('a\n++', ERR),
    ('a ++\nb', OK), ('a\n+b', OK), ('a\n-b', OK), ('a\n(b)', OK), ('a\n[b]', OK), ('a\n.b', OK), ('a\n,b', OK),
    ('a\n=b', OK), ('a\n?b:c', OK), ('a\n*b', OK), ('a\nin b', OK), ('a\ninstanceof b', OK), ('a\n!b', OK), ('a\n~b', OK),
    ('a\ntypeof b', OK), ('a\nvoid b', OK), ('a\ndelete b', OK), ('a\nnew b', OK), ('a\nthis', OK), ('a\n"b"', OK),
    ('a\n1', OK), ('a\n{b}', OK), ('a\nfunction f(){}', OK), ('a\nvar b', OK), ('a\nif (b) c', OK), ('a = b\n++c', OK),
    ('a = b\n--c', OK), ('a = b + c\n(d + e).f()', OK), ('a = b\n[c]', OK), ('var a = 1\nvar b = 2', OK),
    ('var a = 1 var b = 2', ERR), ('var a = function(){}\nvar b', OK), ('var a = function(){} var b', ERR),
    ('var a = {}\nvar b', OK), ('var a = {} var b', ERR), ('a = 1 b = 2', ERR), ('a = 1; b = 2', OK), ('a = 1\n;b = 2', OK),
    ('if (a) b\nelse c', OK), ('if (a) b else c', ERR), ('if (a)\nelse b', ERR), ('if (a)\n', ERR), ('if (a) b\n', OK),
    ('if (a) {b} else {c}', OK), ('if (a) {b\n} else {c\n}', OK), ('while (a)\nb', OK), ('while (a)\n', ERR),
    ('for (;;)\n', ERR), ('for (;;)\na', OK), ('for (a\n;b\n;c\n)\nd', OK), ('for (a;b;c\n)', ERR), ('for (a\n;\n;\n) ;', OK),
    ('do a\nwhile (b)', OK), ('do a; while (b) c', ERR), ('do\na\nwhile\n(b)\nc', OK), ('do {} while (a) var b', ERR),
    ('with (a)\n', ERR), ('a:\n', ERR), ('a:\n}', ERR), ('{a:\n}', ERR), ('else\n', ERR), ('var a\n', OK), ('var\n', ERR),
    ('var a =\n1', OK), ('var a,\nb', OK), ('a =\nb', OK), ('a +\nb', OK), ('a\n+\nb', OK), ('a +\n', ERR), ('(\na\n)', OK),
    ('a(\nb\n)', OK), ('a\n(\nb\n)', OK), ('[\na\n,\nb\n]', OK), ('({\na\n:\nb\n})', OK), ('a\n.\nb', OK), ('a\n[\nb\n]', OK),
    ('new\na', OK), ('new\na\n(\n)', OK), ('typeof\na', OK), ('delete\na', OK), ('void\na', OK), ('!\na', OK), ('-\na', OK),
    ('++\na', OK), ('--\na', OK), ('a\n?\nb\n:\nc', OK), ('function\nf\n(\n)\n{\n}', OK), ('a = function\n(\n)\n{\n}', OK),
    ('return\n', OK), ('return\n}', ERR), ('{return\n}', OK), ('break\n', OK), ('continue\n', OK), ('throw a\n', OK),
    ('debugger\n', OK), ('return\na\n+\nb', OK), ('return a\n+\nb', OK), ('return (\na)', OK), ('return a +\nb', OK),
    ('break\na\n:\nb', OK), ('a.return\nb', OK), ('a.throw\nb', OK), ('a.break\nb', OK), ('a.continue\nb', OK),
    ('a.return\n(b)', OK), ('x = {return: 1}', OK), ('x = {throw\n: 1}', OK), ('a\n;', OK), ('a;\n;', OK), ('a\n;\nb', OK),
    ('a;b;c', OK), ('a;b;c;', OK), ('a\nb\nc\n', OK), ('a\n\n\nb', OK), ('\na\n', OK), ('\n;\n', OK), ('a;;b', OK),
    ('var a = b\n(function(){})()', OK), ('var a = b;\n(function(){})()', OK), ('a\n++\n++\nb', OK), ('a\n++\n--b', OK),
    ('a++\n++b', OK), ('a\n++b++', OK), ('a\n++b\n++c', OK), ('a--\n--b', OK), ('a\n/ b', OK), ('a\n/ b /', ERR),
    ('1\n2', OK), ('1 2', ERR), ('"a"\n"b"', OK), ('"a" "b"', ERR), ('a\ntrue', OK), ('a true', ERR), ('this\nthis', OK),
    ('/a/\n/b/', ERR), ('/a/\n/b/g', OK), ('(a)\n(b)', OK), ('[a]\n[b]', OK), ('{}\n[a]', OK), ('a()\nb()', OK),
    ('a\nb\n(c)', OK), ('x\n=\ny', OK), ('x\n+=\ny', OK), ('x +\n= y', ERR), ('var a = 1, b = 2\nvar c', OK),
    ('function f(){ return\n{a: 1} }', OK), ('function f(){ return {\na: 1} }', OK), ('function f(){ if (a) return\nelse b }', OK),
    ('function f(){ if (a) return else b }', ERR), ('if (a) break\nelse b', OK), ('if (a) continue\nelse b', OK),
    ('if (a) throw b\nelse c', OK), ('if (a) debugger\nelse c', OK), ('if (a) var b\nelse c', OK),
    ('if (a) do b; while (c)\nelse d', OK), ('if (a) do b; while (c) else d', ERR),
    # ---- white space and line terminators
    ('\ta\x0b=\x0c1' + NBSP + ';' + BOM, OK), (BOM + 'a', OK), (u'a\u1680=\u20001\u2001;\u2002\u2003\u2004\u2005\u2006\u2007\u2008\u2009\u200a\u202f\u205f\u3000', OK),
    (u'a\u200b=1', ERR), (u'a\u180e=1', ERR), (u'a\u0085=1', ERR), (u'a\u2060=1', ERR), ('a\x00', ERR), ('a\x01b', ERR),
    ('a\x1f', ERR), ('a\x7f', ERR), ('a = 1' + LS, OK), ('a = 1' + PS + 'b = 2', OK), ('a' + LS + '++b', OK),
    ('return' + LS + 'a', OK), ('throw' + LS + 'a', ERR), ('throw' + PS + 'a', ERR), ('throw\ra', ERR), ('throw\r\na', ERR),
    ('// c' + LS + 'a', OK), ('// c' + PS + 'a b', ERR), ('// c\ra', OK), ('// c\r\na', OK), ('a // c' + LS + 'b', OK),
    ('x = "a' + LS + '"', ERR), ('x = /a' + LS + '/', ERR), ('x = /[' + PS + ']/', ERR), ('a' + NBSP + '/b/' + NBSP + 'c', OK),
    ('x =' + NBSP + '/b/', OK), ('x =' + BOM + '/b/g', OK), (u'x =\u2003/b/g', OK), ('x =\x0b/b/g', OK), ('x =\x0c/b/g', OK),
    ('x =\n/b/g', OK), ('x =' + LS + '/b/g', OK), ('if (a)' + NBSP + '/b/.c', OK), ('a' + NBSP + '/ b /' + NBSP + 'c', OK),
    # ---- misc / larger
    ('a = b ? c : d ? e : f', OK), ('a.b.c.d.e.f.g()()()[0][1].h', OK), ('((((((((((a))))))))))', OK),
    ('[[[[[[[[[[a]]]]]]]]]]', OK), ('{{{{{{{{{{a}}}}}}}}}}', OK), ('a = {b: {c: {d: {e: {f: 1}}}}}', OK),
    ('!function(a){return a}(1)', OK), ('(function(){return this})().a', OK), ('x = a ? b : c ? d : e ? f : g', OK),
    ('var a = 1, b = a + 1, c = [a, b], d = {a: a, b: b}, e = function(){return a}, f = /re/g, g', OK),
    ('for (var i = 0, n = a.length; i < n; i++) { if (a[i] in b) continue; else break }', OK),
    ('l1: for (;;) { l2: for (;;) { continue l1; break l2 } }', OK),
    ('try { throw new Error("x") } catch (e) { e.message } finally { done() }', OK),
    ('switch (typeof a) { case "string": return 1; case "number": case "boolean": return 2; default: return 3 }', OK),
    ('a = b\n/c/g.test(d) ? e : f', OK), ('x = a +\n/b/g', OK), ('"use strict"\nvar a', OK),
    ('(function(){ "use strict"; return this })()', OK), ('a = 1 /* c1 */ + /* c2 */ 2 // c3\n', OK),
    ('var a = { get b(){ return 1 }, set b(v){ this._b = v }, c: 1, "d": 2, 3: 4, if: 5 }', OK),
    ('a = [1, , 2, , , 3, , ]', OK), ('a = [, ]', OK), ('a = b ? c, d : e', ERR), ('a = (b ? (c, d) : e)', OK),
    ('{} /=a/.test(b);', OK), ('if (a) {} /=a/.test(b);', OK), ('x++\n/=a/.test(b)', OK), ('++/=a/.lastIndex;', OK),
    ('get in a;', OK), ('x = set in a;', OK), ('get instanceof a;', OK), ('get\n++', ERR), ('get x;', ERR), ('get\nx', OK),
    ('set = get ? set : get;', OK), ('var get, set;', OK), ('get.a(set);', OK),
    ('a||{};', OK), ('a&&{};', OK), ('a|{};', OK), ('a^{};', OK), ('a&{};', OK), ('a=={};', OK), ('a||{}.b;', OK),
    ('a && {b: 1}.b();', OK), ('a || function(){}();', OK), ('return\n;', OK), ('continue\n;', OK), ('break\n;a', OK),
    ('if (a) return\n; else b', OK), ('if (a) break\n;\nelse b', OK), ('throw a\n;', OK), ('a\n;', OK),
    ('x = y / z / 2 /= 3', ERR), ('x = y /= z / 2', OK), ('x = a\n/b', OK), ('x = a\n/b\n/c', OK), ('x = a/b\n/c/d', OK),
]


# ---------------------------------------------------------------------------------------------
# running both sides
# ---------------------------------------------------------------------------------------------

def calm_parse(text):
    from calmjs.parse.parsers import es5
    try:
        tree = es5.Parser().parse(text)
        return ('ok', treedump.dump(tree))
    except Exception as e:  # noqa
        return ('err', type(e).__name__, str(e))


def calm_tokens(text):
    """tokens delivered to the LR driver, final classification: [(type, value, lexpos, lineno, colno)] or None"""
    from calmjs.parse.parsers import es5
    p = es5.Parser()
    lexer = p.lexer
    got = {}
    orig_token = lexer.token

    def token():
        t = orig_token()
        if t is not None and t.type != 'AUTOSEMI':
            got[t.lexpos] = (t.type, t.value, t.lexpos, t.lineno, getattr(t, 'colno', None))
        return t
    lexer.token = token
    lr = p.parser
    orig_err = lr.errorfunc

    def errorfunc(tok):
        before = dict(got)
        r = orig_err(tok)
        got.clear()
        got.update(before)
        if r is not None and r.type != 'AUTOSEMI':
            got[r.lexpos] = (r.type, r.value, r.lexpos, r.lineno, getattr(r, 'colno', None))
        return r
    lr.errorfunc = errorfunc
    try:
        p.parse(text)
    except Exception:
        return None
    return [got[k] for k in sorted(got)]


def first_diff(a, b, path='$'):
    """first structural difference between two proto values"""
    if isinstance(a, proto.Node) and isinstance(b, proto.Node):
        if a.kind != b.kind:
            return '%s: kind %s vs %s' % (path, a.kind, b.kind)
        ka = [k for k, _ in a.attrs]
        kb = [k for k, _ in b.attrs]
        if ka != kb:
            return '%s(%s): attrs %s vs %s' % (path, a.kind, ka, kb)
        for (k, x), (_, y) in zip(a.attrs, b.attrs):
            d = first_diff(x, y, '%s.%s' % (path, k))
            if d:
                return d
        return None
    if isinstance(a, list) and isinstance(b, list):
        for i, (x, y) in enumerate(zip(a, b)):
            d = first_diff(x, y, '%s[%d]' % (path, i))
            if d:
                return d
        if len(a) != len(b):
            return '%s: list length %d vs %d' % (path, len(a), len(b))
        return None
    if type(a) is not type(b) or a != b:
        return '%s: %r vs %r' % (path, short(a), short(b))
    return None


def short(v):
    if isinstance(v, proto.Node):
        return '<%s>' % v.kind
    return v


# ---------------------------------------------------------------------------------------------
# classification of disagreements (structural rules; each names a deviation of calmjs from ES5.1
# or a documented choice of the reference)
# ---------------------------------------------------------------------------------------------

NON_SP_WS = u'\x0b\x0c\xa0\ufeff\u1680\u2000\u2001\u2002\u2003\u2004\u2005\u2006\u2007\u2008\u2009\u200a\u202f\u205f\u3000'
RESTRICTED = ('return', 'throw', 'break', 'continue')
KEYWORDS = set('''break case catch continue debugger default delete do else finally for function if in
instanceof new return switch this throw try typeof var void while with null true false class const enum export
extends import super'''.split())


LTS = u'\n\r' + LS + PS


def leftmost_kind(node):
    """kind of the left-most leaf expression of an expression tree (the node whose first token starts the expression)"""
    order = {'BinOp': 'left', 'Assign': 'left', 'Comma': 'left', 'Conditional': 'predicate', 'PostfixExpr': 'value',
             'DotAccessor': 'node', 'BracketAccessor': 'node', 'FunctionCall': 'identifier'}
    while isinstance(node, proto.Node) and node.kind in order:
        node = node.get(order[node.kind])
    return node.kind if isinstance(node, proto.Node) else None


def classify(text, calm, sp, spec):
    """returns a class id (string) or None.  Method: apply a normalisation that removes one suspected cause; if both
    sides then agree (and the reference still reads the same program) the disagreement is attributed to that cause."""
    c_ok, s_ok = calm[0] == 'ok', sp[0] == 'ok'
    st = spec.tokens(text) if s_ok else None
    toks = st[1] if st else None
    cms = st[2] if st else None
    asis = spec.asi(text)[1] if s_ok else None

    def agree(repl, same_tree=True):
        c2, s2 = calm_parse(repl), spec.parse(repl)
        if not same_outcome(c2, s2):
            return False
        if same_tree and s_ok:
            return s2[0] == 'ok' and s2[1] == sp[1]
        return True

    def pairs():
        return list(zip(toks, toks[1:])) if toks else []

    def end(t):
        return t.off + len(t.text)

    # --- internal errors of calmjs (verdict "rejected" is shared only if the reference rejects too)
    if not c_ok and calm[1] not in ('ECMASyntaxError', 'ECMARegexSyntaxError'):
        return 'KF-12 internal error (%s) raised instead of ECMASyntaxError' % calm[1]

    # --- U+2028 / U+2029
    if LS in text or PS in text:
        repl = text.replace(LS, '\n').replace(PS, '\n')
        if same_outcome(calm_parse(repl), spec.parse(repl)):
            return 'KF-04b/06a U+2028/2029 skipped as white space: no ASI / restricted productions, allowed inside regex'

    # --- line terminator inside a regular expression literal
    if c_ok and not s_ok and sp[2] == 'line-terminator-in-regex':
        return 'KF-05f LineTerminator accepted inside a regular expression literal (7.8.5 RegularExpressionNonTerminator)'

    # --- identifiers
    if not c_ok and s_ok:
        nonascii = [t for t in toks if t.cls == 'Ident' and any(ord(ch) > 0x7f for ch in t.text)]
        if nonascii:
            repl = text
            for t in sorted(nonascii, key=lambda t: -t.off):
                repl = repl[:t.off] + 'idX' + repl[end(t):]
            if same_outcome(calm_parse(repl), spec.parse(repl)):
                return 'KF-06b identifier with non-ASCII characters rejected (letter/mark/digit tables of calmjs incomplete: CJK, Hangul, Nl, ZWNJ/ZWJ, newer Unicode)'
        esc = [t for t in toks if t.cls in ('Ident', 'Regex') and '\\u' in t.text]
        if esc:
            repl = text
            for t in sorted(esc, key=lambda t: -t.off):
                if t.cls == 'Ident':
                    repl = repl[:t.off] + 'idX' + repl[end(t):]
                else:
                    body_end = t.text.rindex('/')
                    repl = repl[:t.off + body_end + 1] + 'g' + repl[end(t):]
            if same_outcome(calm_parse(repl), spec.parse(repl)):
                return 'KF-06d \\uXXXX escape in an IdentifierName / regex flags rejected (7.6)'
        flags = [t for t in toks if t.cls == 'Regex' and not re.match(r'^[a-zA-Z]*$', t.text[t.text.rindex('/') + 1:])]
        if flags:
            repl = text
            for t in sorted(flags, key=lambda t: -t.off):
                repl = repl[:t.off + t.text.rindex('/') + 1] + 'g' + repl[end(t):]
            if same_outcome(calm_parse(repl), spec.parse(repl)):
                return 'KF-06h regex flags other than ASCII letters rejected (7.8.5: RegularExpressionFlags = IdentifierPart*)'
    if c_ok and not s_ok:
        if sp[2] in ('illegal-character',) and any(ord(ch) > 0x7f for ch in text):
            return 'KF-06c non-ASCII character that is no UnicodeLetter/Mark/Digit/Pc (or astral) accepted in an identifier'
        if sp[2] == 'bad-string-escape':
            return 'KF-06e string escape outside 7.8.4/B.1.2 accepted (octal escape followed by 8/9, \\8, \\9)'
        if sp[2] in ('bad-escape-in-identifier', 'escape-not-identifier-part', 'escape-not-identifier-start',
                     'reserved-word-as-identifier'):
            return 'KF-06f invalid identifier escape accepted'
        if sp[2] == 'identifier-or-digit-directly-after-number':
            return 'KF-06g NumericLiteral directly followed by IdentifierStart/DecimalDigit accepted (7.8.3)'

    if c_ok and not s_ok and sp[2] == 'line-terminator-after-throw' and re.search(r'throw[ \t]*(//|/\*)', text):
        return 'KF-04d comment between a restricted keyword (return/throw/break/continue) and the line terminator: no ASI'

    # --- comments
    if s_ok and cms:
        repl = text
        for cm in sorted(cms, key=lambda c: -c.off):
            has_nl = any(ch in LTS for ch in cm.text)
            repl = repl[:cm.off] + ('\n' if has_nl else ' ') + repl[cm.off + len(cm.text):]
        if agree(repl):
            for a, b in pairs():
                between = [cm for cm in cms if a.off < cm.off < b.off]
                if between and b.cls == 'Regex':
                    return 'KF-05b comment between the previous token and a regex literal: `/` read as division'
                if between and a.cls == 'Keyword' and a.text in ('if', 'for', 'while', 'with') and b.text == '(':
                    return "KF-05b' comment/line terminator between if/for/while/with and `(`: header not recognised, `/` after `)` read as division"
            for a, b in pairs():
                between = [cm for cm in cms if a.off < cm.off < b.off]
                if between and a.cls == 'Keyword' and a.text in RESTRICTED and b.nl_before:
                    return 'KF-04d comment between a restricted keyword (return/throw/break/continue) and the line terminator: no ASI'
            return 'KF-04a comment between the line terminator and the offending token, or line terminator inside a comment: no ASI'

    # --- anything but SP/TAB between the previous token and a regex literal
    if s_ok:
        if toks and toks[0].cls == 'Regex' and text[:toks[0].off].strip(' \t') != '':
            repl = ' ' + text[toks[0].off:]
            if same_outcome(calm_parse(repl), spec.parse(repl)):
                return 'KF-05d white space other than SP/TAB (or a line terminator) before a regex literal: `/` read as division'
        for a, b in pairs():
            gap = text[end(a):b.off]
            if b.cls == 'Regex' and gap.strip(' \t') != '':
                repl = text[:end(a)] + ' ' + text[b.off:]
                if agree(repl, same_tree=not any(ch in LTS for ch in gap)) or same_outcome(calm_parse(repl), spec.parse(repl)):
                    return 'KF-05d white space other than SP/TAB (or a line terminator) before a regex literal: `/` read as division'
            if a.cls == 'Keyword' and a.text in ('if', 'for', 'while', 'with') and b.text == '(' and gap.strip(' \t') != '':
                repl = text[:end(a)] + ' ' + text[b.off:]
                if agree(repl):
                    return "KF-05b' comment/line terminator between if/for/while/with and `(`: header not recognised, `/` after `)` read as division"

    # --- restricted keyword, line terminator, then an explicit `;`
    if s_ok:
        for i, (x, y) in enumerate(pairs()):
            if x.cls == 'Keyword' and x.text in RESTRICTED and y.text == ';' and y.nl_before \
                    and not (i > 0 and toks[i - 1].text == '.'):
                repl = text[:end(x)] + text[y.off:]
                if agree(repl):
                    return 'KF-04f `return <LT> ;`: a semicolon is inserted although `;` follows (extra EmptyStatement; `if (a) return <LT> ; else b` rejected)'

    # --- ASI: make the inserted semicolons explicit
    if s_ok and asis:
        repl = text
        for off in sorted(set(asis), reverse=True):
            repl = repl[:off] + ';' + repl[off:]
        if agree(repl):
            by_off = dict((t.off, (i, t)) for i, t in enumerate(toks))
            for off in asis:
                if off in by_off:
                    i, t = by_off[off]
                    if t.text in ('++', '--'):
                        return 'KF-04c `a <LT> ++b`: restricted production of postfix ++/-- not implemented (7.9.1 rule 3)'
            return 'ASI-other' if len(text) <= 30 else None
    if c_ok and not s_ok and toks is None:
        # the reference rejects: `a <LT> ++ <EOF>` style
        m = re.search(u'[\n\r  ]\\s*(\\+\\+|--)', text)
        if m:
            repl = text[:m.start()] + ' ' + text[m.start(1):]
            if same_outcome(calm_parse(repl), spec.parse(repl)):
                return 'KF-04c `a <LT> ++b`: restricted production of postfix ++/-- not implemented (7.9.1 rule 3)'

    # --- reserved words as property names
    if s_ok:
        for i, t in enumerate(toks):
            if t.cls != 'Keyword' or i == 0 or i + 1 >= len(toks):
                continue
            prop = toks[i - 1].text == '.' or (toks[i + 1].text == ':' and toks[i - 1].text in ('{', ',')) \
                or (toks[i - 1].text in ('get', 'set') and toks[i + 1].text == '(')
            if not prop:
                continue
            repl = text[:t.off] + 'prp' + text[end(t):]
            if agree(repl, same_tree=False):
                if t.text in RESTRICTED and toks[i + 1].nl_before:
                    return 'KF-04e restricted keyword used as property name followed by a line terminator (`a.return <LT> b`): semicolon inserted'
                return 'KF-05c reserved word used as property name: a following `/` is read as regex start / the token is not seen as an operand'

    # --- regex literal starting with `/=` where calmjs needs its DIV back-track
    if s_ok and not c_ok:
        for x, y in pairs():
            if y.cls == 'Regex' and y.text.startswith('/=') and x.text in ('}', '++', '--', ')'):
                repl = text[:y.off] + '/x' + text[y.off + 2:]
                if same_outcome(calm_parse(repl), spec.parse(repl)):
                    return 'KF-05g regex literal starting with `/=` after `}` `++` `--`: read as `/=`, the back-track in p_error only handles DIV'

    # --- with (x) /re/
    if s_ok:
        for t in toks:
            if t.cls == 'Keyword' and t.text == 'with':
                repl = text[:t.off] + 'while' + text[end(t):]
                if same_outcome(calm_parse(repl), spec.parse(repl)):
                    return 'KF-05a `with (x) /re/`: `/` after the header read as division'

    # --- getters / setters
    if s_ok and not c_ok:
        for i, t in enumerate(toks):
            if t.text in ('get', 'set') and t.cls == 'Ident' and 0 < i and i + 2 < len(toks) and toks[i + 2].text == '(' \
                    and toks[i - 1].text in ('{', ','):
                nxt = toks[i + 1]
                gap = text[end(t):nxt.off]
                if nxt.cls in ('String', 'Number'):
                    return 'KF-03c getter/setter with a string or numeric property name rejected (11.1.5 PropertyName)'
                if gap not in (' ', '\t'):
                    return 'KF-03d `get`/`set` separated from the property name by other than exactly one SP/TAB rejected'
    m = re.search(r'\b(get|set)[ \t]+[A-Za-z_$]', text)
    if m:
        repl = re.sub(r'\b(get|set)([ \t]+[A-Za-z_$])', r'g_t\2', text)
        if same_outcome(calm_parse(repl), spec.parse(repl)):
            return 'KF-03b `get`/`set` + white space + identifier lexed as GETPROP/SETPROP outside an accessor property'

    # --- function expression at statement start
    if c_ok and not s_ok and sp[2] == 'function-declaration-requires-a-name':
        return 'KF-03a function expression accepted at the start of an ExpressionStatement (12.4 lookahead restriction)'
    if c_ok:
        def stmts(n, out):
            if isinstance(n, proto.Node):
                if n.kind == 'ExprStatement':
                    out.append(n)
                for _, v in n.attrs:
                    stmts(v, out)
            elif isinstance(n, list):
                for v in n:
                    stmts(v, out)
            return out
        if any(leftmost_kind(e.get('expr')) == 'FuncExpr' for e in stmts(calm[1], [])):
            return 'KF-03a function expression accepted at the start of an ExpressionStatement (12.4 lookahead restriction)'
    if s_ok and not c_ok:
        for a, b in pairs():
            if a.text == '}' and (b.cls == 'Regex'):
                repl = text[:end(a)] + ';' + text[end(a):]
                if same_outcome(calm_parse(repl), spec.parse(repl)):
                    return 'KF-03a function expression accepted at the start of an ExpressionStatement (12.4 lookahead restriction)'

    # --- object literal as right operand of & ^ | && || in an expression statement
    if s_ok and not c_ok:
        for i, (x, y) in enumerate(pairs()):
            if x.text in ('||', '&&', '|', '^', '&') and y.text == '{':
                depth = 0
                for z in toks[i + 1:]:
                    if z.text == '{':
                        depth += 1
                    elif z.text == '}':
                        depth -= 1
                        if depth == 0:
                            repl = text[:y.off] + '(' + text[y.off:end(z)] + ')' + text[end(z):]
                            if same_outcome(calm_parse(repl), spec.parse(repl)):
                                return 'KF-03g object literal as right operand of `& ^ | && ||` rejected in an ExpressionStatement (`a||{}`): *_nobf used for the right operand'
                            break

    # --- NoIn
    if c_ok and not s_ok and re.search(r'\bfor\b', text) and re.search(r'\bin\b', text):
        repl = re.sub(r'\bin\b', '<', text)
        if spec.parse(repl)[0] == 'ok':
            return 'KF-03e `in` accepted in the right operand of a binary operator inside a NoIn expression (for-header init)'
    if s_ok and not c_ok and re.search(r'\bfor\b', text) and re.search(r'\?[^:]*\bin\b[^:]*:', text):
        return 'KF-03f `in` rejected in the middle operand of `?:` inside a for-header init (11.12: AssignmentExpression, not NoIn)'
    return None


def same_outcome(c, s):
    if c[0] == 'ok' and s[0] == 'ok':
        return c[1] == s[1]
    return c[0] != 'ok' and s[0] != 'ok'


# ---------------------------------------------------------------------------------------------

def node_accepts(text):
    """sloppy-mode acceptance by /usr/bin/node (development aid only)"""
    src = 'try { new Function(%s); process.stdout.write("ok") } catch (e) { process.stdout.write("err " + e.message) }' % json.dumps(text)
    try:
        out = subprocess.run(['/usr/bin/node', '-e', src], stdout=subprocess.PIPE, stderr=subprocess.PIPE, timeout=20,
                             universal_newlines=True).stdout
    except Exception as e:  # noqa
        return None
    return out


def gen_random(seed, n):
    import genjs
    rng = random.Random(seed)
    out = []
    opts_list = [
        genjs.Opts(),
        genjs.Opts(cjk_idents=True, getset_anykey=True, kw_before_div=True, getset_anyspace=True,
                   restricted_propname_nl=True, header_paren_nl=True, any_lhs=True, with_bare_body=True),
    ]
    layouts_plain = None
    layouts_hard = [genjs.Layout('wild', drop_semi=0.6, comments=0.2, comments_at_asi=True, comments_before_regex=True,
                                 unicode_terms=True, unicode_space_before_regex=True),
                    genjs.Layout('wild', drop_semi=0.8), genjs.Layout('min', drop_semi=1.0), genjs.Layout('spaced')]
    for k in range(n):
        opts = opts_list[k % 2]
        layouts = layouts_plain if k % 4 < 2 else layouts_hard
        for text, toks, lo in genjs.programs(rng, 1, opts, layouts):
            out.append(('gen', text))
            if k % 3 == 0:
                for m in genjs.token_mutations(rng, toks, 2):
                    out.append(('mut', m))
    return out


ALPHABETS = {
    # statement / expression skeleton tokens
    'core': ['a', '1', "'s'", '/r/', '(', ')', '{', '}', '[', ']', ';', ',', '.', ':', '?', '=', '+', '++', '-', '!', '/', '/=',
             'in', 'var', 'function', 'if', 'else', 'for', 'while', 'do', 'return', 'break', 'new', 'this', 'typeof',
             'get', 'case', 'default', 'switch', 'try', 'catch', 'finally', 'throw', 'with', 'continue', '\n'],
    'small': ['a', '1', '(', ')', '{', '}', '[', ']', ';', ',', '.', ':', '=', '+', '++', '/', 'in', 'var', 'function', 'if',
              'else', 'for', 'return', 'new', 'get', '\n'],
    'expr': ['a', '1', '/r/', '(', ')', '{', '}', '[', ']', ',', '.', ':', '?', '=', '+', '++', '--', '-', '!', '/', '/=', '*',
             '<', 'in', 'instanceof', 'new', 'function', 'typeof', 'delete', 'void', 'this', '&&', '||', '|', ';', '\n'],
}


def gen_exhaustive(k, alphabet):
    """all token strings of length <= k over the alphabet, joined by one space (`\\n` = a line terminator)"""
    import itertools
    toks = ALPHABETS[alphabet]
    for n in range(1, k + 1):
        for combo in itertools.product(toks, repeat=n):
            yield ' '.join(combo).replace('\\n', '\n')


def unicode_sweep(spec):
    """per code point: identifier start / part / white space / line terminator verdicts of both sides"""
    import unicodedata
    print('=' * 100)
    print('unicode sweep (BMP + samples of astral planes); Python unicodedata %s' % unicodedata.unidata_version)
    cps = [c for c in range(0x80, 0x10000) if not 0xD800 <= c <= 0xDFFF] + list(range(0x10000, 0x10400)) + \
        list(range(0x1D400, 0x1D800)) + list(range(0x20000, 0x20100)) + list(range(0x1F600, 0x1F650))
    ID_START = ('Lu', 'Ll', 'Lt', 'Lm', 'Lo', 'Nl')
    ID_PART = ID_START + ('Mn', 'Mc', 'Nd', 'Pc')
    old = unicodedata.ucd_3_2_0
    kinds = collections.OrderedDict([
        # name -> (text builder, was the code point already in the class in Unicode 3.2?)
        ('identifier-start  `<c>;`', (lambda ch: ch + ';', lambda ch: old.category(ch) in ID_START)),
        ('identifier-part   `a<c>;`', (lambda ch: 'a' + ch + ';', lambda ch: old.category(ch) in ID_PART or ch in u'\u200c\u200d')),
        ('white-space       `1<c>+1;` (valid iff <c> is WhiteSpace or LineTerminator)',
         (lambda ch: '1' + ch + '+1;', lambda ch: old.category(ch) == 'Zs')),
        ('line-terminator   `1<c>2` (valid iff <c> is a LineTerminator)', (lambda ch: '1' + ch + '2', lambda ch: False)),
    ])
    for kind, (mk, in32) in kinds.items():
        texts = [mk(chr(c)) for c in cps]
        sres = spec.parse_many(texts)
        diff = collections.OrderedDict()
        for c, t, sr in zip(cps, texts, sres):
            cr = calm_parse(t)
            if (cr[0] == 'ok') != (sr[0] == 'ok'):
                key = ('calmjs accepts, ES5 rejects' if cr[0] == 'ok' else 'calmjs rejects, ES5 accepts',
                       unicodedata.category(chr(c)), 'in class since Unicode<=3.2' if in32(chr(c)) else 'later/other')
                diff.setdefault(key, []).append(c)
        print('-- %s: %d differing code points' % (kind, sum(len(v) for v in diff.values())))
        for (what, cat, age), lst in sorted(diff.items()):
            rs = []
            for c in lst:
                if rs and rs[-1][1] == c - 1:
                    rs[-1][1] = c
                else:
                    rs.append([c, c])
            shown = ', '.join(('U+%04X' % a if a == b else 'U+%04X-%04X' % (a, b)) for a, b in rs[:10])
            print('   %-28s %s %-28s: %5d code points in %3d ranges: %s%s' % (
                what, cat, age, len(lst), len(rs), shown, ' ...' if len(rs) > 10 else ''))


def main():
    ap = argparse.ArgumentParser()
    ap.add_argument('--lean', default=framework.LEAN)
    ap.add_argument('--random', type=int, default=300)
    ap.add_argument('--seed', type=int, default=20260923)
    ap.add_argument('--node', action='store_true')
    ap.add_argument('--exhaustive', type=int, default=0, help='all token strings up to this length')
    ap.add_argument('--alphabet', default='core', choices=sorted(ALPHABETS))
    ap.add_argument('--unicode', action='store_true', help='per-code-point sweep of identifier / white space classes')
    ap.add_argument('-v', action='store_true')
    ap.add_argument('--max-show', type=int, default=6)
    args = ap.parse_args()
    framework.LEAN = args.lean
    boot.boot()
    spec = specclient.Spec(None)
    t0 = time.time()

    cases = []
    for t in corpus.g1_valid():
        cases.append(('g1-valid', t, OK))
    for t in corpus.g1_invalid():
        cases.append(('g1-invalid', t, ERR))
    for t, v in SAMPLES:
        cases.append(('hand', t, v))
    for src, t in gen_random(args.seed, args.random):
        cases.append((src, t, None))

    if args.exhaustive:
        for t in gen_exhaustive(args.exhaustive, args.alphabet):
            cases.append(('exh', t, None))
    if args.unicode:
        unicode_sweep(spec)

    stats = collections.Counter()
    classes = collections.OrderedDict()
    expectation_failures = []
    tok_diffs = []
    node_diffs = []
    spec_time = 0.0
    seen = set()
    for src, text, expect in cases:
        if (src, text) in seen:
            continue
        seen.add((src, text))
        if not specclient.sendable(text):
            stats['skipped-surrogates'] += 1
            continue
        calm = calm_parse(text)
        t1 = time.time()
        sp = spec.parse(text)
        spec_time += time.time() - t1
        stats['cases'] += 1
        stats['cases:' + src] += 1
        if expect is not None and src == 'hand' and sp[0] != expect:
            expectation_failures.append((text, expect, sp))
        if args.node and src == 'hand':
            nd = node_accepts(text)
            if nd is not None and (nd.startswith('ok')) != (sp[0] == 'ok'):
                node_diffs.append((text, sp[0] if sp[0] == 'ok' else sp, nd))
        if same_outcome(calm, sp):
            stats['agree:' + ('accept' if sp[0] == 'ok' else 'reject')] += 1
            if sp[0] == 'ok':
                # token level: offsets, spelling, line/col
                ct = calm_tokens(text)
                st = spec.tokens(text)
                if ct is not None and st[0] == 'ok':
                    a = [(v, p, l, c) for (_, v, p, l, c) in ct]
                    b = [(t.text, t.off, t.line, t.col) for t in st[1]]
                    if a != b:
                        if LS in text or PS in text:
                            stats['tokens-differ:U+2028/9 line counting (KF-06a)'] += 1
                        else:
                            d = next(((x, y) for x, y in zip(a, b) if x != y), (len(a), len(b)))
                            tok_diffs.append((text, d))
                    else:
                        stats['tokens-agree'] += 1
            continue
        kind = ('calmjs-accepts/spec-rejects' if calm[0] == 'ok' else
                'calmjs-rejects/spec-accepts' if sp[0] == 'ok' else 'tree-differs')
        if calm[0] == 'ok' and sp[0] == 'ok':
            kind = 'tree-differs'
        cls = classify(text, calm, sp, spec)
        if cls is None and len(text) > 30:
            # shrink (keeping the kind of disagreement) and classify the minimal case
            def bad(t, kind=kind):
                if not specclient.sendable(t):
                    return False
                c2, s2 = calm_parse(t), spec.parse(t)
                if same_outcome(c2, s2):
                    return False
                k2 = 'tree-differs' if (c2[0] == 'ok' and s2[0] == 'ok') else (
                    'calmjs-accepts/spec-rejects' if c2[0] == 'ok' else 'calmjs-rejects/spec-accepts')
                return k2 == kind
            small = shrink.shrink_text(text, bad, 1200)
            calm2, sp2 = calm_parse(small), spec.parse(small)
            cls = classify(small, calm2, sp2, spec)
            stats['shrunk'] += 1
            text = '%s   <== shrunk from %d chars' % (small, len(text))
            calm, sp = calm2, sp2
        if cls is None:
            # several causes at once: remove one known cause and classify what is left
            t0_ = text.split('   <== shrunk')[0]
            for label, norm in (('KF-04b/06a', lambda t: t.replace(LS, '\n').replace(PS, '\n')),
                                ('KF-06b', lambda t: re.sub(u'[^\x00-\x7f]*[\u3400-\u9fff\uac00-\ud7a3\u2160-\u2188\u200c\u200d][^\x00-\x7f]*', 'idX', t))):
                t1_ = norm(t0_)
                if t1_ != t0_:
                    c3, s3 = calm_parse(t1_), spec.parse(t1_)
                    if same_outcome(c3, s3):
                        cls = 'MULTI (%s + other known)' % label
                        break
                    c_ = classify(t1_, c3, s3, spec)
                    if c_:
                        cls = 'MULTI (%s + %s)' % (label, c_.split()[0])
                        break
        cls = cls or 'UNCLASSIFIED'
        key = (cls, kind)
        detail = first_diff(calm[1], sp[1]) if kind == 'tree-differs' else (calm[1:] if calm[0] != 'ok' else sp[1:])
        classes.setdefault(key, []).append((src, text, detail))
        stats['disagree'] += 1

    print('=' * 100)
    print('validate_spec: %d cases (%s) in %.1fs; drv_spec parse time %.2fs' % (
        stats['cases'], ', '.join('%s=%d' % (k[6:], v) for k, v in sorted(stats.items()) if k.startswith('cases:')),
        time.time() - t0, spec_time))
    for k in sorted(stats):
        if not k.startswith('cases'):
            print('  %-60s %d' % (k, stats[k]))
    print('-' * 100)
    print('spec vs hand-written expectation (ECMA-262 5.1 reading): %d failures' % len(expectation_failures))
    for text, expect, sp in expectation_failures:
        print('   EXPECT %-3s got %-40s %r' % (expect, sp if sp[0] != 'ok' else 'ok', text))
    if args.node:
        print('-' * 100)
        print('spec vs node (sloppy, ES2015+ engine; informational): %d differences' % len(node_diffs))
        for text, s, nd in node_diffs:
            print('   spec=%-50s node=%-60s %r' % (s, nd[:60], text))
    print('-' * 100)
    print('token-level differences on programs both accept with equal trees: %d' % len(tok_diffs))
    for text, d in tok_diffs[:20]:
        print('   %r: %r' % (text[:80], d))
    print('-' * 100)
    print('disagreements by class:')
    for (cls, kind), items in sorted(classes.items(), key=lambda kv: (kv[0][0] == 'UNCLASSIFIED', kv[0])):
        items.sort(key=lambda it: len(it[1]))
        print('\n## %s  [%s]  x%d' % (cls, kind, len(items)))
        show = items if (cls == 'UNCLASSIFIED' or args.v) else items[:args.max_show]
        for src, text, detail in show:
            print('   (%s) %r\n        -> %s' % (src, text if len(text) < 300 else text[:300] + '...', str(detail)[:200]))
    n_uncl = sum(len(v) for (c, _), v in classes.items() if c == 'UNCLASSIFIED')
    print('-' * 100)
    print('SUMMARY: %d disagreements, %d unclassified, %d expectation failures, %d token diffs' % (
        stats['disagree'], n_uncl, len(expectation_failures), len(tok_diffs)))
    spec.close()
    return 0 if not expectation_failures else 1


if __name__ == '__main__':
    sys.exit(main())
