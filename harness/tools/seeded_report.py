"""Writes /verif/seeded/RESULTS.md from /verif/seeded/results.jsonl and the kept meta.json files."""
import json
import os

VERIF = os.path.dirname(os.path.dirname(os.path.dirname(os.path.abspath(__file__))))
SEED = os.path.join(VERIF, 'seeded')


def main():
    recs = {}
    for l in open(os.path.join(SEED, 'results.jsonl')):
        r = json.loads(l)
        recs[(r['property'], r['mutant'])] = r        # the last run of a mutant wins
    out = ['# Seeded changes and the checks that catch them', '',
           'Each change was produced by a fresh sub-agent that saw only the property text and a scratch worktree, passes the 797 '
           'existing tests, and was confirmed (`eval_seeded.py verify`: demo fails with / passes without the change).  '
           '`caught` = the named check exits 1 with a VIOLATION line; `input` = a concrete failing input was found '
           '(otherwise the line ends in `no-failing-input-found`).', '',
           '| seeded change | what it does | needs | check | verdict |', '|---|---|---|---|---|']
    ncaught = nconf = 0
    for (prop, mut), r in sorted(recs.items()):
        name = '%s-%s' % (prop, mut)
        meta = {}
        mp = os.path.join(SEED, name, 'meta.json')
        if os.path.exists(mp):
            meta = json.load(open(mp))
        if not r.get('verify', {}).get('confirmed'):
            out.append('| %s | (not confirmed: %s) | | | dropped |' % (name, json.dumps(r.get('verify') or r.get('error'))[:120]))
            continue
        nconf += 1
        summary = str(meta.get('summary', ''))[:220].replace('|', '/').replace('\n', ' ')
        needs = str(meta.get('needs', ''))[:200].replace('|', '/').replace('\n', ' ')
        first = True
        any_caught = False
        for pid, c in sorted(r['checks'].items()):
            caught = c['rc'] == 1 and c['verdict']
            any_caught = any_caught or bool(caught)
            if caught:
                v = 'caught, ' + ('no-failing-input-found' if 'no-failing-input-found' in c['verdict'][0] else 'input: ' + str(c.get('description'))[:140].replace('|', '/'))
            else:
                v = 'NOT caught (rc=%s)' % c['rc']
            out.append('| %s | %s | %s | %s | %s |' % (name if first else '', summary if first else '', needs if first else '', pid, v))
            first = False
        ncaught += 1 if any_caught else 0
    out.append('')
    out.append('%d confirmed changes, %d caught by at least one check.' % (nconf, ncaught))
    # behaviour-preserving changes (false-alarm experiment)
    for tag, title in (('refactor', 'Behaviour-preserving changes'), ('refactor2', 'Behaviour-preserving changes, structural round')):
      rp = os.path.join(SEED, tag + '-results.txt')
      if os.path.exists(rp):
          out += ['', '## ' + title, '',
                  'Ten harmless refactorings of /repo produced by a further sub-agent (797 tests and an independent behavioural digest '
                  'unchanged); every relevant check was run against each (`eval_seeded.py runwt`, quick tier).  A non-zero exit here '
                  'would be an alarm on code where the property holds.', '', '| change | what it does | checks run | alarms |',
                  '|---|---|---|---|']
          cur, runs = None, {}
          for l in open(rp):
              l = l.strip()
              if l.startswith('== '):
                  cur = l[3:]
                  runs[cur] = []
              elif l.startswith('"C') and cur:
                  runs[cur].append([l.split('"')[1], None])
              elif l.startswith('"rc"') and cur and runs[cur]:
                  runs[cur][-1][1] = int(l.split(':')[1].strip(' ,'))
          for name, rs in runs.items():
              mp = os.path.join(SEED, tag + '-' + name, 'meta.json')
              meta = json.load(open(mp)) if os.path.exists(mp) else {}
              summary = str(meta.get('summary', ''))[:260].replace('|', '/').replace('\n', ' ')
              alarms = [c for c, rc in rs if rc != 0]
              out.append('| ' + tag + '-%s | %s | %s | %s |' % (name, summary, ' '.join(c for c, _ in rs), ', '.join(alarms) or 'none'))
    open(os.path.join(SEED, 'RESULTS.md'), 'w').write('\n'.join(out) + '\n')
    print('\n'.join(out[-3:]))


if __name__ == '__main__':
    main()
