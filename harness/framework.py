"""
Check framework: one entry (`run_check`) used by /verif/check for every property.

Steps of a check (DESIGN.md 3.6):
  1. scratch copy of /repo/src + rebinding (boot.py); translator -> lean/CalmVerif/Gen
  2. lake build of the property's theorem module(s) and drivers
  3. audit: forbidden words, `#print axioms` of every property theorem
  4. correspondence (model vs implementation) on the stages the property uses
  5. known-finding witnesses
  6. direct judge of the property on the implementation
  7. verdict, evidence, replay files
"""
from __future__ import print_function

import fcntl
import hashlib
import json
import os
import random
import re
import subprocess
import sys
import time
import traceback

HERE = os.path.dirname(os.path.abspath(__file__))
VERIF = os.path.dirname(HERE)
LEAN = os.path.join(VERIF, 'lean')
EVID = os.path.join(VERIF, 'evidence')
REPLAY = os.path.join(EVID, 'replay')
KNOWN = os.path.join(VERIF, 'known_findings.json')

ALLOWED_AXIOMS = {'propext', 'Classical.choice', 'Quot.sound'}
FORBIDDEN = re.compile(
    r'\bsorry\b|\badmit\b|^\s*axiom\s|native_decide|bv_decide|implemented_by|'
    r'\bunsafe\s|maxHeartbeats\s+0\b', re.M)


class Infra(Exception):
    """infrastructure trouble: exit 2, no VIOLATION line"""


def log(*a):
    print(*a, file=sys.stderr)
    sys.stderr.flush()


# --------------------------------------------------------------------------
# Lean side
# --------------------------------------------------------------------------

class Lock(object):
    def __init__(self, path):
        self.path = path

    def __enter__(self):
        self.f = open(self.path, 'w')
        fcntl.flock(self.f, fcntl.LOCK_EX)
        return self

    def __exit__(self, *a):
        fcntl.flock(self.f, fcntl.LOCK_UN)
        self.f.close()


def lean_lock():
    return Lock(os.path.join(LEAN, '.verif-build.lock'))


def lake_build(targets, timeout=3000):
    """Returns (ok, output, failed_modules)."""
    cmd = ['lake', 'build'] + list(targets)
    t0 = time.time()
    try:
        p = subprocess.run(cmd, cwd=LEAN, stdout=subprocess.PIPE, stderr=subprocess.STDOUT,
                           timeout=timeout, universal_newlines=True)
    except subprocess.TimeoutExpired:
        raise Infra('lake build timed out: %s' % ' '.join(targets))
    except OSError as e:
        raise Infra('lake not runnable: %s' % e)
    out = p.stdout
    failed = re.findall(r'^- (\S+)$', out, re.M)
    log('[lake] build %s -> rc=%d in %.1fs' % (' '.join(targets), p.returncode, time.time() - t0))
    return p.returncode == 0, out, failed


def strip_comments(src):
    """remove Lean block comments (nested) and line comments"""
    out = []
    i, n, depth = 0, len(src), 0
    while i < n:
        if src.startswith('/-', i):
            depth += 1
            i += 2
        elif depth and src.startswith('-/', i):
            depth -= 1
            i += 2
        elif depth:
            if src[i] == '\n':
                out.append('\n')
            i += 1
        elif src.startswith('--', i):
            while i < n and src[i] != '\n':
                i += 1
        elif src[i] == '"':
            j = i + 1
            while j < n and src[j] != '"':
                j += 2 if src[j] == '\\' else 1
            out.append('""')
            i = j + 1
        else:
            out.append(src[i])
            i += 1
    return ''.join(out)


def grep_forbidden(root=None):
    hits = []
    root = root or os.path.join(LEAN, 'CalmVerif')
    for d, _, fs in os.walk(root):
        for f in fs:
            if f.endswith('.lean'):
                p = os.path.join(d, f)
                src = strip_comments(open(p, encoding='utf8').read())
                for m in FORBIDDEN.finditer(src):
                    line = src.count('\n', 0, m.start()) + 1
                    hits.append('%s:%d: %s' % (os.path.relpath(p, LEAN), line, m.group().strip()))
    return hits


def print_axioms(audit_file, timeout=1200):
    """Runs `lake env lean Audit/<f>`; returns ({theorem: [axioms]}, {theorem: statement}, raw)."""
    try:
        p = subprocess.run(['lake', 'env', 'lean', audit_file], cwd=LEAN, stdout=subprocess.PIPE,
                           stderr=subprocess.STDOUT, timeout=timeout, universal_newlines=True)
    except subprocess.TimeoutExpired:
        raise Infra('audit timed out')
    out = p.stdout
    axioms = {}
    # theorem names may end in primes: anchor at the start of the message line instead of excluding quotes
    for m in re.finditer(r"^'([^\n]+?)' depends on axioms: \[([^\]]*)\]", out, re.S | re.M):
        axioms[m.group(1)] = [a.strip() for a in m.group(2).replace('\n', ' ').split(',') if a.strip()]
    for m in re.finditer(r"^'([^\n]+?)' does not depend on any axioms", out, re.M):
        axioms[m.group(1)] = []
    stmts = {}
    # `#check @thm` lines print as  `@thm : statement` possibly over several lines
    for m in re.finditer(r"^(?:@)?([A-Za-z_][\w.']*) :(.*?)(?=^\S|\Z)", out, re.S | re.M):
        stmts.setdefault(m.group(1), ' '.join(m.group(2).split()))
    return axioms, stmts, out, p.returncode


class Driver(object):
    """line-protocol client of a compiled Lean driver"""

    def __init__(self, name):
        self.name = name
        exe = os.path.join(LEAN, '.lake', 'build', 'bin', name)
        if not os.path.exists(exe):
            raise Infra('driver %s not built' % name)
        self.p = subprocess.Popen([exe], stdin=subprocess.PIPE, stdout=subprocess.PIPE,
                                  universal_newlines=True, bufsize=1 << 20, encoding='utf8')
        self.n = 0

    def ask(self, line):
        assert '\n' not in line
        self.p.stdin.write(line + '\n')
        self.p.stdin.flush()
        self.n += 1
        r = self.p.stdout.readline()
        if not r:
            raise Infra('driver %s died on: %s' % (self.name, line[:200]))
        return r.rstrip('\n')

    def ask_many(self, lines):
        """pipelined: a reader thread drains the replies while the requests are written (no pipe deadlock)"""
        import threading
        n = len(lines)
        res = []
        err = []

        def reader():
            try:
                for _ in range(n):
                    r = self.p.stdout.readline()
                    if not r:
                        err.append('driver %s died' % self.name)
                        return
                    res.append(r.rstrip('\n'))
            except Exception as e:      # pragma: no cover
                err.append(repr(e))
        th = threading.Thread(target=reader)
        th.start()
        try:
            for l in lines:
                assert '\n' not in l
                self.p.stdin.write(l + '\n')
            self.p.stdin.flush()
        except BrokenPipeError:
            err.append('driver %s closed its input' % self.name)
        th.join()
        if err or len(res) != n:
            raise Infra('; '.join(err) or 'driver %s: short reply' % self.name)
        self.n += n
        return res

    def close(self):
        try:
            self.p.stdin.close()
            self.p.wait(timeout=10)
        except Exception:
            self.p.kill()


# --------------------------------------------------------------------------
# context handed to the per-property modules
# --------------------------------------------------------------------------

class Ctx(object):
    def __init__(self, pid, tier, seed):
        self.pid = pid
        self.tier = tier
        self.seed = seed
        self.rng = random.Random(seed)
        self.t0 = time.time()
        self.obligations = []      # dicts: name, kind, ok, detail
        self.violations = []       # dicts: desc, replay, found_input
        self.known_hits = []       # strings
        self.notes = []
        self.evaluations = 0
        self._hashes = set()
        self.samples = []
        self.rules = []
        self.dist = {}
        self.assumptions = []
        self.trusted = []
        self.theorems = {}
        self._drivers = {}
        self.broken = []           # names of proof/tie obligations that no longer check
        self.known_findings = load_known().get(pid, [])

    # ---- tiers
    def n(self, quick, thorough):
        return thorough if self.tier == 'thorough' else quick

    def sub_rng(self, label):
        return random.Random('%s/%s/%s' % (self.seed, self.pid, label))

    # ---- bookkeeping
    def obligation(self, name, ok, kind='theorem', detail=''):
        self.obligations.append(dict(name=name, kind=kind, ok=bool(ok), detail=str(detail)[:2000]))
        if not ok:
            self.broken.append(name)
            log('[%s] obligation FAILED: %s (%s) %s' % (self.pid, name, kind, str(detail)[:500]))

    def case(self, key, nontrivial=True):
        """count one explored case; `key` identifies it for the distinct count"""
        self.evaluations += 1
        if nontrivial:
            h = hashlib.blake2b(repr(key).encode('utf8', 'surrogatepass'), digest_size=8).digest()
            self._hashes.add(h)

    def sample(self, x, limit=12):
        if len(self.samples) < limit:
            self.samples.append(x)

    def bump(self, key, n=1):
        self.dist[key] = self.dist.get(key, 0) + n

    def rule(self, text):
        if text not in self.rules:
            self.rules.append(text)

    def violation(self, desc, replay, found_input=True):
        self.violations.append(dict(desc=desc, replay=replay, found_input=found_input))
        log('[%s] violation: %s' % (self.pid, desc))

    def known(self, kfid, what):
        s = '%s %s' % (kfid, what)
        if s not in self.known_hits:
            self.known_hits.append(s)

    def note(self, text):
        self.notes.append(text)
        log('[%s] note: %s' % (self.pid, text))

    def driver(self, name):
        if name not in self._drivers:
            self._drivers[name] = Driver(name)
        return self._drivers[name]

    def close(self):
        for d in self._drivers.values():
            d.close()

    def elapsed(self):
        return time.time() - self.t0


def load_known():
    """known_findings.json: {"open": [{property, id, class, witness, what}], "fixed": [...]}"""
    if not os.path.exists(KNOWN):
        return {}
    data = json.load(open(KNOWN))
    out = {}
    for e in data.get('open', []):
        out.setdefault(e['property'], []).append(e)
    return out


# --------------------------------------------------------------------------
# the run
# --------------------------------------------------------------------------

def build_and_audit(ctx, spec):
    """spec: dict(props=[lean modules], drivers=[exe names], audit='Audit/Cnn.lean',
                  gen=[callables writing Gen files])"""
    from gen import extract
    with lean_lock():
        # 1. translator
        try:
            changed = extract.run(spec.get('gen', []), ctx)
            ctx.obligation('translator(%s)' % ','.join(spec.get('gen', [])), True, 'translator',
                           'regenerated from /repo; changed files: %s' % (changed or 'none'))
        except Infra:
            raise
        except Exception as e:
            ctx.obligation('translator', False, 'translator', traceback.format_exc())
        # 2. build drivers first (they are needed for the search even if proofs break)
        drv_ok = True
        if spec.get('drivers'):
            ok, out, failed = lake_build(spec['drivers'])
            if not ok:
                drv_ok = False
                ctx.obligation('build-drivers', False, 'build', tail(out))
        # property theorems
        ok, out, failed = lake_build(spec['props'])
        if ok:
            ctx.obligation('lake build ' + ' '.join(spec['props']), True, 'build')
        else:
            ctx.obligation('lake build ' + ' '.join(spec['props']), False, 'build',
                           'failed modules: %s\n%s' % (failed, tail(out)))
        # 3. audit
        hits = grep_forbidden()
        ctx.obligation('no sorry/admit/axiom/native_decide/bv_decide/implemented_by/unsafe', not hits,
                       'audit', '; '.join(hits))
        if ok and spec.get('audit'):
            axioms, stmts, raw, rc = print_axioms(spec['audit'])
            if rc != 0 or not axioms:
                ctx.obligation('axiom audit ' + spec['audit'], False, 'audit', tail(raw))
            for thm, axs in sorted(axioms.items()):
                bad = [a for a in axs if a not in ALLOWED_AXIOMS]
                ctx.obligation('theorem ' + thm, not bad, 'theorem',
                               'axioms: [%s]%s' % (', '.join(axs), ('; statement: ' + stmts[thm]) if thm in stmts else ''))
                ctx.theorems[thm] = dict(axioms=axs, statement=stmts.get(thm, ''))
        # thorough tier: independent re-check of the compiled proof modules
        if ok and ctx.tier == 'thorough':
            try:
                p = subprocess.run(['lake', 'env', 'leanchecker'] + list(spec['props']), cwd=LEAN, stdout=subprocess.PIPE,
                                   stderr=subprocess.STDOUT, timeout=3000, universal_newlines=True)
                ctx.obligation('leanchecker ' + ' '.join(spec['props']), p.returncode == 0, 'audit', tail(p.stdout))
            except subprocess.TimeoutExpired:
                raise Infra('leanchecker timed out')
    return drv_ok


def tail(s, n=3000):
    return s[-n:]


def write_replay(ctx, idx, v):
    os.makedirs(REPLAY, exist_ok=True)
    path = os.path.join(REPLAY, '%s-%d.json' % (ctx.pid, idx))
    data = dict(property=ctx.pid, seed=ctx.seed, tier=ctx.tier, description=v['desc'],
                found_failing_input=v['found_input'], replay=v['replay'],
                broken_obligations=ctx.broken)
    with open(path, 'w') as f:
        json.dump(data, f, indent=1, sort_keys=True, default=repr)
    return os.path.relpath(path, VERIF)


def finish(ctx, level='proof', checker_cmd=None):
    """verdict + evidence; returns exit code"""
    rc = 0
    lines = []
    for k in ctx.known_hits:
        lines.append('KNOWN-FINDING: property=%s %s' % (ctx.pid, k))
    real = [v for v in ctx.violations]
    idx = 0
    for v in real[:5]:
        idx += 1
        path = write_replay(ctx, idx, v)
        lines.append('VIOLATION property=%s replay=%s%s' % (
            ctx.pid, path, '' if v['found_input'] else ' no-failing-input-found'))
        rc = 1
    if ctx.broken and not real:
        # a proof / tie obligation no longer checks and the search found no failing input
        v = dict(desc='obligations no longer check: %s' % ', '.join(ctx.broken),
                 replay=dict(broken=[o for o in ctx.obligations if not o['ok']]), found_input=False)
        path = write_replay(ctx, 1, v)
        lines.append('VIOLATION property=%s replay=%s no-failing-input-found' % (ctx.pid, path))
        rc = 1
    n_obl = len(ctx.obligations)
    n_ok = len([o for o in ctx.obligations if o['ok']])
    ev = dict(
        property_id=ctx.pid, tier=ctx.tier, seed=ctx.seed, level=level,
        coverage=dict(
            obligations=n_obl, discharged=n_ok,
            checker_cmd=checker_cmd or 'cd /verif/lean && lake build <Props modules> && lake env lean Audit/%s.lean' % ctx.pid,
            trusted_base=ctx.trusted or ['Lean 4.33 kernel', 'axioms propext, Quot.sound, Classical.choice only'],
            evaluations=ctx.evaluations, distinct_nontrivial=len(ctx._hashes),
            rule=' | '.join(ctx.rules), samples=ctx.samples,
            obligation_list=ctx.obligations, theorems=ctx.theorems,
            input_distribution=ctx.dist, known_findings_reproduced=ctx.known_hits,
            notes=ctx.notes,
        ),
        assumptions=ctx.assumptions, wall_s=round(ctx.elapsed(), 2), violations=len(real) + (1 if (ctx.broken and not real) else 0),
    )
    os.makedirs(EVID, exist_ok=True)
    with open(os.path.join(EVID, ctx.pid + '.json'), 'w') as f:
        json.dump(ev, f, indent=1, sort_keys=True, default=repr)
    for l in lines:
        print(l)
    print('%s %s tier=%s seed=%d obligations=%d/%d evaluations=%d distinct=%d known=%d wall=%.1fs' % (
        ctx.pid, 'OK' if rc == 0 else 'FAIL', ctx.tier, ctx.seed, n_ok, n_obl, ctx.evaluations,
        len(ctx._hashes), len(ctx.known_hits), ctx.elapsed()))
    sys.stdout.flush()
    return rc
