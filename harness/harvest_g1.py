"""One-off: harvest program texts from the repo's own test manifests into corpus/g1.json."""
import json, sys, os, textwrap
sys.path.insert(0, os.path.dirname(os.path.abspath(__file__)))
import boot
boot.boot()
from calmjs.parse.testing import util
rec = []
def wrap(orig, exc):
    def f(name, fn, manifest, *a, **kw):
        manifest = list(manifest)
        for item in manifest:
            arg = item[1]
            args = arg if isinstance(arg, (tuple, list)) else [arg]
            for x in args:
                if isinstance(x, str):
                    rec.append((name, item[0], x))
        return orig(name, fn, manifest, *a, **kw)
    return f
util.build_equality_testcase = wrap(util.build_equality_testcase, False)
util.build_exception_testcase = wrap(util.build_exception_testcase, True)
import importlib
for m in ['test_es5_parser', 'test_es5_unparser', 'test_es5_lexer', 'test_unparsers_extractor', 'test_handlers_obfuscation', 'test_sourcemap', 'test_walkers']:
    try:
        importlib.import_module('calmjs.parse.tests.' + m)
    except Exception as e:
        print('skip', m, e)
from calmjs.parse.parsers.es5 import parse
from calmjs.parse.exceptions import ECMASyntaxError
seen = set(); valid = []; invalid = []
for name, label, text in rec:
    for t in {text, textwrap.dedent(text).strip()}:
        if t in seen or len(t) > 6000: continue
        seen.add(t)
        try:
            parse(t); valid.append(dict(src=name + '.' + label, text=t))
        except ECMASyntaxError:
            invalid.append(dict(src=name + '.' + label, text=t))
        except Exception as e:
            invalid.append(dict(src=name + '.' + label, text=t, crash=type(e).__name__))
json.dump(dict(valid=valid, invalid=invalid), open(os.path.join(boot.VERIF, 'corpus', 'g1.json'), 'w'), indent=0, sort_keys=True)
print(len(valid), len(invalid), [i for i in invalid if 'crash' in i][:5])
