"""Writes /verif/MANIFEST.json from the table below (kept valid at all times)."""
import json
import os

HERE = os.path.dirname(os.path.abspath(__file__))
VERIF = os.path.dirname(HERE)
PROPS = [json.loads(l) for l in open(os.path.join(VERIF, 'properties.jsonl'))]

# pid -> (technique, level text, level note, design ref)
CLAIMED = {
    'C10': ('Lean 4 proof (induction over Int/List/String) of the four round-trip laws and of equality with the Source Map V3 '
            'specification encoding; decide over regenerated constants; model/implementation correspondence',
            'Machine-checked theorems over the Lean model of vlq.py for ALL integers, lists, mapping structures and canonical '
            'strings (no bound), constants regenerated from /repo on every run and re-checked by kernel decide; the model is tied '
            'to the code by a differential run on every integer of a symmetric range, all power-of-32 boundaries up to 400 bits '
            'and random structures; the four laws are also judged directly on the implementation with the Lean Spec codec as the '
            'independent decoder.',
            'Trusted: Lean kernel, axioms propext/Quot.sound/Classical.choice, translator g_vlq.py, correspondence harness; CPython '
            'int/str primitives are modelled (Nat bit operations, join/split) and covered by the tie only.', 'DESIGN.md §6 C10'),
    'C09': ('Lean 4 proof (invariant over the write loop: running sums of emitted relative fields equal the bookkeeper state; '
            'normalisation preserves interpolation) against an independent Source Map V3 decoder written in Lean; '
            'model/implementation correspondence; decode of the real mappings string by the Lean Spec decoder',
            'Machine-checked theorems over the Lean model of sourcemap.write / normalize for ALL fragment streams (only guard: no '
            'CR/LF pair split across two fragments, shown necessary by witness and checked on every real stream): every explicitly '
            'positioned fragment decodes, under the independent V3 decoder, to its own source, line, column and name at the generated '
            'position computed independently from the text, with normalisation on or off and any number of sources; indices in range, '
            'strictly increasing generated columns, line count, and WFMappings (which composes with C10 mappings_roundtrip). The model '
            'is tied to the code on real unparser streams of 9 printer configurations and on synthetic streams.',
            'Trusted: Lean kernel, standard axioms, correspondence harness, the Spec decoder as a reading of Source Map V3; CPython '
            'str.splitlines/rstrip are parameters constrained by ClassesOK and compared per code point; columns are code points '
            '(V3 says UTF-16 units; astral characters are an assumption); the composition with the VLQ string level goes through '
            'C10.', 'DESIGN.md §6 C09'),
    'C16': ('Lean 4 proof: kernel decision of children_cover over the regenerated children() table, lifted by induction over '
            'trees to walk = independent pre-order reflection; model/implementation correspondence; reflective judge',
            'children() coverage of every node class is regenerated from /repo on every run and decided in the kernel; the generic '
            'theorems (walk is the pre-order of all stored nodes, exactly once, parents first; filter = walk then select; extract = '
            'n-th match or TypeError; fuel suffices) hold for every table passing the check and every well-formed tree. The full '
            'statement is false of the code for the `comments` attribute (negation proved on a witness; known finding KF-16a) and the '
            'theorems are _partial by exactly that attribute. Document order: children_in_print_order (kernel decision over the regenerated '
            'children() table x the regenerated unparser definitions: every class lists its node-holding attributes in the order its '
            'definition prints them; definitions_read_every_child_once; the pre-f7ec55b DoWhile order is refuted by the same checker) and a source-order judge on parsed trees.',
            'Trusted: Lean kernel, standard axioms, translators g_children.py / g_defs.py (sentinel instantiation of every class), harness. '
            'Generators are modelled as lists; Python recursion limit and shared nodes are outside the model.', 'DESIGN.md §6 C16'),
    'C03': ('Lean 4 proof of LR soundness (stack invariant by induction over driver steps) from a kernel-decided validity check of '
            'the regenerated LALR tables against a regenerated certificate; correspondence of the driver and semantic-action '
            'models on recorded traces; exhaustive bounded differential against an independent ES5.1 reference parser written in Lean',
            'tables_valid is decided in the kernel over every action/goto entry of the tables regenerated from /repo; lr_sound then '
            'gives, for EVERY token source, fuel and input, that an accepted parse is a derivation tree of the regenerated grammar '
            'whose yield is exactly the shifted tokens (the tree the derivation dictates); lexer_token_types_are_grammar_terminals / '
            'every_terminal_is_used tie the lexer vocabulary to the grammar terminals (kernel decisions). Language equality with ES5 is not provable '
            'here: it is covered by the differential judge (all token strings up to length 2-3 over a 56-token alphabet, sampled '
            'length 3-4, G1/G2/G4, a statement head x separator x statement start family) against Spec.Es5Parse, with the recorded deviations excluded by narrow syntactic class predicates.',
            'Trusted: Lean kernel, standard axioms, translators g_tables.py/g_actions.py, Spec.Es5Parse as a reading of ECMA-262 5.1; '
            'ply LALR construction itself is not verified (the tables are the object of study); missing-goto freedom is tie-only.',
            'DESIGN.md §6 C03'),
    'C06': ('Lean 4 proof over the executable lexer model (ply lex loop + token matchers + calmjs Lexer state machine): termination, '
            'partition of the input, ordering, maximal munch and keyword exactness decided over regenerated rule order; '
            'token-stream correspondence incl. error messages; independent ES5 judge',
            'Theorems for ALL texts about the model of the lexer whose rule order, ignore sets, keyword table and character classes '
            'are regenerated from /repo (character classes by exhaustive enumeration of every code point against the compiled regexes); '
            'tied to the implementation by comparing full token streams (type, value, offset, line, column) and exact error messages.',
            'Trusted: Lean kernel, standard axioms, translators g_tables.py/g_lexdata.py, hand-transcribed regex matchers (tie S1), '
            'CPython re engine; U+2028/2029 handling is known finding KF-06a.', 'DESIGN.md §6 C06'),
    'C11': ('Lean 4 kernel decision over the semantic-action table obtained by action probing x the regenerated grammar '
            '(anchor slot and token-map rules for every production and value shape); driver+actions correspondence on recorded '
            'traces; independent judge of every node of real trees',
            'actions_anchor_ok: for every production and probed value shape each node is anchored at its first token (or its operator '
            'for the listed forms, for(;;) placeholders excepted) and each token-map entry records its text at its own position; the '
            'table is tied to the real p_* functions by probing them and by S2b (identical trees with positions, token maps and comments '
            'on recorded token traces). The composition to all inputs (induction over derivations with ply tracking) is argued in '
            'DESIGN.md and not yet a single Lean theorem.',
            'Trusted: Lean kernel, translator g_actions.py (mock-production probing), Model/Actions.lean interpreter (tie S2b), '
            'token positions are C06.', 'DESIGN.md §6 C11'),
    'C14': ('Lean 4 frame/refinement proof over an object-heap model whose per-call/persistent partition is regenerated from /repo '
            'by identity observation and decided in the kernel; history correspondence incl. abandoned, interleaved and raising calls',
            'per_call_objects_fresh and persistent_state_readonly are decided over the table observed on the running implementation '
            '(which objects two calls share, which are mutated); print_history_independent holds for every engine, heap and history. '
            'The strength rests on the checked partition plus the history tie (fresh-object reference for every observation).',
            'Trusted: Lean kernel, translator g_api.py (gc/identity reflection), harness; the engine is a parameter (the unparser '
            'model plugs in); generators and loggers are opaque to the deep hash.', 'DESIGN.md §6 C14'),
    'C15': ('Lean 4 frame proof over the parse-call model with the freshness table regenerated from /repo; exhaustive short call '
            'sequences and concurrent parses compared with fresh-process references',
            'parser_state_fresh / module_state_readonly decided over the observed object table; parse_history_independent for every '
            'parse machine and call sequence. Thread schedules cannot be exhibited by the model: that clause is correspondence only '
            '(16 threads, switch intervals 1e-6..5e-3) and the evidence says so.',
            'Trusted: Lean kernel, translator g_api.py, harness; CPython scheduling is sampled, not modelled.', 'DESIGN.md §6 C15'),
    'C18': ('Lean 4 proof over a fault-injectable state-machine model of io.read/io.write/write_sourcemap (all arrangements, all '
            'fragment lists, all fault plans); exhaustive fault-point enumeration against the real helpers',
            'write_closes_exactly_once / read_closes_exactly_once / relabelling / sourcepath / written text theorems hold for every '
            'oracle, plan, arrangement and fragment list; the model is tied by enumerating every fault point of every primitive for '
            'all arrangements on the real helpers with instrumented streams; URL/base64/relpath claims are judged in Python.',
            'Trusted: Lean kernel, standard axioms, harness; json/base64/os.path are uninterpreted; close() itself is assumed not '
            'to fail (shown by example what happens otherwise). Relative stream names: known finding KF-18a.', 'DESIGN.md §6 C18'),
    'C19': ('Lean 4 proof by structural induction over JSON syntax trees using the regenerated extractor definitions, with literal '
            'semantics of Python vs JSON modelled exactly (strings as code points, numbers as exact rationals + kind)',
            'extract_json_partial / number_value_agree / string_value_agree_partial hold for every JSON tree, binding form and fold '
            'setting outside the two proved-false classes (\\/ escape, surrogate-pair escapes: known findings KF-19a/b, negations '
            'proved on witnesses); tied to ast_to_dict on random JSON and judged against json.loads type-strictly.',
            'Trusted: Lean kernel, standard axioms, translator g_extractor.py, pyLiteralEval as a transcription of CPython literal '
            'semantics and correctly rounded toDouble (tie only).', 'DESIGN.md §6 C19'),
    'C12': ('Lean 4 proof over the lexer model (termination within |text|+2 steps; no non-library exception from any '
            'well-formed lexer state) and totality of the LR driver model; full text->tree correspondence incl. exact error '
            'messages; exhaustive truncation/corruption judge under a time limit',
            'lexer_terminates, token_terminates, lexer_no_internal, token_no_internal, backtracked_token_no_internal are proved for '
            'ALL texts and lexer states (after three crashes of the pinned code were repaired by fix: commits); the composed model '
            'Model.Parser.parse (lexer + LR + actions + p_error) is tied to parse() by comparing trees and exact exception class + '
            'message. Not proved: that no `internal` outcome arises in the LR driver / actions (missing goto, shape mismatch) and '
            'that the LR fuel suffices; both are covered by the tie and by the judge (every truncation and single-character '
            'corruption of G1 programs, all strings <= 2 and sampled 3-8 over a lexical alphabet, time limit per case).',
            'Trusted: Lean kernel, standard axioms, translators, hand-transcribed regex matchers (tie S1), ply driver model (tie S2). '
            'Python recursion limit is outside the model (deeply nested inputs are not generated).', 'DESIGN.md §6 C12'),
    'C20': ('Lean 4 proof by induction over the shape of every chunk stream the unparser walk can yield (Out), with kernel-decided '
            'balance facts over the regenerated definitions and rule tables; fragment-stream correspondence for every rule set; '
            'independent depth judge on the output text',
            'defs_indent_net_zero / defs_indent_balanced / indent_table_normalisations_balanced are decided over Gen.Defs and '
            'Gen.Rules regenerated from /repo; level_returns_to_zero holds for ALL trees, indent strings and hooks; '
            'ends_with_one_newline_partial under two decidable stream hypotheses evaluated on every program of the tie; '
            'level_is_depth is judged on the implementation output (depth recomputed from the text) while its proof is in progress.',
            'Trusted: Lean kernel, standard axioms, translators g_defs.py/g_rules.py (rule objects and handler identities, '
            'required_space as a truth table over all code points), Model/Unparse.lean tied by S3/S4 on all rule sets.',
            'DESIGN.md §6 C20'),
    'C04': ('Lean 4 kernel decisions over the regenerated grammar and action table (AUTOSEMI only as last symbol, SEMI/AUTOSEMI twin '
            'productions with identical semantic actions, no empty-statement twin) plus decision lemmas proved over the lexer model '
            'for all states; semicolon-subset differential against the Lean ES5.1 reference parser',
            'asi_grammar_facts and asi_twins_same_tree are re-decided on every run; auto_semi_decision / auto_semi_effect / '
            'pushed_back_token_is_next characterise exactly when calmjs inserts a semicolon, for every lexer state. The end-to-end '
            'statement (same tree for every subset of omitted removable semicolons) is not proved; it is judged on generated programs '
            'with random subsets omitted under LF/CR/CRLF/U+2028/U+2029 layouts against Spec.Es5Parse (7.9), with the recorded '
            'deviations of calmjs\'s look-behind rule excluded by syntactic class predicates.',
            'Trusted: Lean kernel, standard axioms, translators, Spec.Es5Parse 7.9 as oracle, composed parser model tied by S2.',
            'DESIGN.md §6 C04'),
    'C05': ('Lean 4 kernel decisions over the regenerated LALR tables x heuristic token sets (no regex after simple tokens, no division '
            'after operator punctuators, exclusive states after `)`) plus the division decision lemma proved over the lexer model; '
            'per-offset differential of every `/` against the reference parser',
            'simple_tokens_never_regex / punctuators_never_div / rparen_states_exclusive are re-decided on every run over the tables and '
            'TOKENS_THAT_IMPLY_DIVISON regenerated from /repo; div_allowed_iff / div_decision / div_decision_independent_of_position hold '
            'for every lexer state. Not proved: agreement of the lexer\'s parenthesis stack with the LR stack; judged by classifying every '
            '`/` by source offset in 45 expression x 23 statement contexts x 10 followers x layouts and generated programs.',
            'Trusted: Lean kernel, standard axioms, translators, Spec.Es5Parse as oracle (goal symbol chosen by the reference parser).',
            'DESIGN.md §6 C05'),
    'C08': ('Lean 4 kernel decision that every token-map entry records its text at its own position (regenerated action table x '
            'grammar), composed with the unparser model whose fragment positions are token-map look-ups; fragment-stream '
            'correspondence for every rule set; direct judge of every explicitly positioned fragment',
            'Parser side proved (Props/C11 actions_anchor_ok, re-decided on every run); unparser side: the model of the token and '
            'layout handlers takes every explicit position from node.getpos(text or original name) and is tied to the implementation '
            'fragment by fragment (text, line, column, name, source) on every run for all rule sets; the unparser-side theorem '
            '(fragment_position_from_tokmap over all trees) is added to the audited list as soon as Props/C08.lean exists. Judge: 14 '
            'printer configurations x comment capture x G1/G2 programs and chained multi-file streams.',
            'Trusted: Lean kernel, translators, unparser model (tie S3), ES5 line counting of the judge. Multi-file layout fragments: '
            'known finding KF-08c.', 'DESIGN.md §6 C08'),
    'C07': ('Lean 4 proof of the name-generator and remap-table invariants (fresh, non-reserved names; per-scope tables one-to-one '
            'and outside the reserved set, by mutual induction over the scope tree); scope-tree / remap-table / fragment-stream '
            'correspondence; binding-structure judge with an independent ES5 scope resolver written in Lean',
            'generated_not_reserved, generator_fresh, remap_tables_capture_free, top_level_unchanged hold for every charset, skip '
            'set, prewalk state and flag combination. NOT proved (tie + judge only): the resolve-level injectivity '
            '(remap_injective_visible), only_identifiers_change and the link to ES5 binding (binding_preserved); the judge compares '
            'Spec.Scope bindings of original and output occurrence by occurrence on generated scope-heavy programs (60-3000 names) '
            'for all flag combinations and rule compositions.',
            'Trusted: Lean kernel, standard axioms, translator g_obfdata.py, Spec.Scope as a reading of ES5 chapter 10, obfuscation '
            'model tied by S7/S4. Known findings KF-07a..d.', 'DESIGN.md §6 C07'),
    'C01': ('Lean 4 proof that printing depends only on kinds, attributes and string values (erasing positions, token maps and '
            'source paths does not change the text) and of the fixpoint reduction; kernel-decided facts about the space table '
            'and the definitions; round-trip judge against the real parser and the Lean ES5.1 reference parser',
            'print_ignores_positions(_any), print_fuel_irrelevant and pretty_fixpoint hold for ALL trees and indent strings over '
            'the unparser model (tied by S3/S4 on every run); space_table_word_pairs / pretty_binop_spaces_unconditional / '
            'dotaccessor_has_no_separator are decided over the regenerated tables; kf01_witness proves the negation on `1 .x`. '
            'NOT proved: the lexical layer for all trees (adjacent token pairs re-lex) and the grammar layer (reference parse of '
            'the printed tokens gives the tree back); both are judged: parse -> print -> parse (real and reference) -> print for '
            'G1/G2 programs x 6 indent strings, with and without comments.',
            'Trusted: Lean kernel, standard axioms, translators g_defs/g_rules, unparser model (tie S3/S4), composed parser model '
            '(tie S2), Spec.Es5Parse as the conforming parser. Known findings KF-01, KF-13a/b and inherited parser deviations.',
            'DESIGN.md §6 C01'),
    'C13': ('Lean 4 simulation proofs that comment capture is transparent for every lexer method the parser calls and for the LR '
            'run given transparent actions; lexer-level faithfulness; kernel decisions over the action table and the unparser '
            'definitions; systematic comment-placement judge',
            'token/auto_semi/backtracked_token/raise_syntax_error/p_error_comments_transparent hold for ALL lexer states; '
            'lr_run_comments_transparent is the generic simulation; comments_transparent_partial gives '
            'erase(parse text true) = parse text false for all texts UNDER the unproved action-level hypothesis ActionsTransparent '
            '(its consequence is evaluated on the model for hundreds of texts per run as a tie obligation); comments_faithful_lexer, '
            'set_comments_verbatim, no_comment_attached_twice [decide], actions_never_read_comments [decide], '
            'line_comment_followed_by_newline [decide]. Judge: one comment of three kinds at every token gap of hand-written, G1 and '
            'G2 programs: transparency, verbatim/ordered/unique attachment, printed comments re-read in traversal order by real '
            'and reference parser.',
            'Trusted: Lean kernel, standard axioms, translators, composed parser and unparser models (ties S2, S3). Known findings '
            'KF-13a..e, KF-04a/d, KF-05b.', 'DESIGN.md §6 C13'),
    'C02': ('Lean 4 proof that minified printing depends only on kinds, attributes and string values; kernel-decided facts about '
            'the required-space truth table, the minify handler tables and the statement slots; model-evaluated witnesses; '
            'round-trip and token-sequence judge against the real parser and the Lean ES5.1 reference parser',
            'minify_ignores_positions, minify_same_structure hold for ALL trees and both drop_semi settings over the unparser model '
            '(tied by S3/S4 on every run); space_table_hits/gaps, minify_space_handlers, no_statement_slot_after_optional_space, '
            'dropped_semis_are_asi_restorable_partial are decided over the regenerated tables (table level, not lifted to all '
            'trees); fixed_kf02a/d are regression facts of two repaired defects; kf01/kf02b/c/e/f witnesses prove the negation on '
            'the open findings. NOT proved: the lexical layer for all trees and the grammar layer; judged: re-parse by real and '
            'reference parser modulo line continuations / removed empty statements, equality of the reference token sequences '
            '(no fusion), dropped semicolons are exactly ASI-restorable ones, on G1/G2 and a targeted generator of token class x '
            'slot pairs.',
            'Trusted: Lean kernel, standard axioms, translators, unparser model (tie S3/S4), Spec.Es5Parse. Known findings KF-01, '
            'KF-02b/c/e/f, KF-03a and inherited parser deviations on the output.', 'DESIGN.md §6 C02'),
    'C17': ('Lean 4 kernel decision (decide +kernel) of equality of the three regenerated LALR table sets and lexer rule lists, '
            'lifted to all inputs by a generic theorem about the LR driver model; cross-configuration differential tie',
            'The tables of the three configurations (generated modules / in-memory unoptimised / regenerated by optimize.reoptimize) '
            'are extracted on every run and proved equal entry by entry in the Lean kernel; configs_agree then holds for every token '
            'source, semantic action, fuel and configuration of the LR driver model. That tables + lexer rule order are the only '
            'configuration-dependent inputs is validated by parsing G1/G2/G4/G5 texts with all three real configurations and by '
            'replaying ply traces through the model.',
            'Trusted: Lean kernel, translator g_tables.py, ply 3.11 driver as modelled in Model/LR.lean (tied by trace replay), '
            'regex engine (the master regular expressions are compared as text by the tie, not modelled).', 'DESIGN.md §6 C17'),
}

# ---- texts revised as the proofs grew (later definitions win) ----
def _upd(pid, technique=None, level=None, trusted=None):
    t, l, n, d = CLAIMED[pid]
    CLAIMED[pid] = (technique or t, level or l, trusted or n, d)


_upd('C12',
     'Lean 4 proof that the composed parser model ends, for every text, in a tree or in one of the library\'s syntax errors: '
     'path + item invariants of the LR driver checked against regenerated LR(0) item-set and rank certificates, shape typing of '
     'the semantic actions, invariants of the parser-driven lexer; full text->tree correspondence incl. exact error messages; '
     'exhaustive truncation/corruption judge under a time limit',
     'parse_total (Props/C12all): for EVERY text and comment flag Model.Parser.parse (lexer x ply driver over the regenerated tables '
     'x probed actions x p_error) is accepted, ECMASyntaxError, ECMARegexSyntaxError or ProductionError - never an internal '
     'exception (parse_no_driver_internal: no missing goto / stack underflow, kernel-checked item certificate; '
     'parse_lexer_errors_are_syntax_errors through token, auto_semi, the guarded back-track and _raise_syntax_error; '
     'parse_action_errors_are_production_errors by a shape typing closed under every action row), never ply\'s recovery mode, '
     'never out of fuel (lr_steps_bounded: iterations <= 55 * (successful lexer/p_error calls + 1) for every semantics and source, '
     'from rank certificates; parser_source_bound <= 8|text|+4 calls; parse_never_out_of_fuel). Error positions (Props/C12pos): '
     'parse_offending_token_located - in every syntax error made by the parser the previous and the offending token are located in '
     'the text (text at offset, line:column by ES5 counting); the claim for the quoted look-ahead is false (inserted semicolon; '
     'syntax_error_tokens_located_partial + kernel refutation); positions in the lexer\'s own messages are judged. The model is tied to parse() by '
     'comparing trees and exact exception class + message; the judge runs every truncation and single-character corruption of G1 '
     'programs, all strings <= 2 and sampled 3-8 over a lexical alphabet, in a forked child with a time limit.',
     'Trusted: Lean kernel, standard axioms, translators (tables, item/rank certificates are untrusted and checked), hand-transcribed '
     'regex matchers (tie S1), ply driver / action interpreter models (ties S2, S2b). Python recursion limit, memory and the running '
     'time of the re engine are outside the model (judge: per-case time limit).')
_upd('C13',
     'Lean 4 simulation proof that comment capture is transparent through the lexer, p_error, the LR run and the semantic actions; '
     'end-to-end faithfulness, single attachment and source order of captured comments on accepted trees; kernel decisions over the '
     'action table and the unparser definitions; systematic comment-placement judge',
     'comments_transparent: for EVERY text erase(parse text true) = parse text false (same acceptance, error, tree with positions). '
     'comments_faithful_ordered: on every accepted tree the @comments attributes are a sub-permutation of set_comments of the shifted '
     'tokens, every captured comment is a comment lexeme verbatim at its recorded offset, per-node source order, cross-token '
     'disjointness, strictly increasing offsets (no source comment attached to two nodes) - unconditional (shifted_ordered). Printing '
     'clauses: comment_carriers_print_comments (every comment-carrying node kind prints its comments first; full since the repair of KF-13c) with the recorded deviations KF-13a/b/d/e proved as witnesses. Judge: one comment of '
     'three kinds at every token gap of hand-written, G1 and G2 programs.',
     None)
_upd('C20',
     'Lean 4 proof over every chunk stream the unparser walk can yield, lifted through the layout normalisation to the FINAL fragment '
     'stream, with kernel-decided balance facts over the regenerated definitions and rule tables; fragment-stream correspondence for '
     'every rule set; independent depth judge on the output text',
     'pretty_lines_indented: for every tree and node kind (case/default bodies included) and every indent string of non-terminator '
     'white space, every line of the final output that starts with a token begins with exactly indent x structural depth, the level '
     'ends at 0; pretty_text_ends_with_one_newline; level_returns_to_zero for all trees, indents and hooks. Three decidable '
     'hypotheses on the chunk stream (token texts do not start/end with a line terminator, lineStartsStable, tailSafe) are each shown '
     'necessary by kernel-evaluated witnesses and evaluated by the model on every program of the tie. The judge recomputes depth from '
     'the printed text with its own scanner (nesting to 65 levels, 6 + random indent strings).',
     None)
_upd('C07',
     'Lean 4 proof of the name-generator and remap-table invariants, of resolve-level injectivity, of "only identifiers change" on the '
     'final fragment stream, and that ES5 scope resolution commutes with a renaming satisfying a decidable alignment condition; '
     'scope-tree / remap-table / fragment-stream correspondence; binding-structure judge with an independent ES5 scope resolver',
     'generated_not_reserved, obfuscator_reserved_list_is_lexer_keywords + lexer_keywords_are_es5_reserved_words (the skip list = the words the lexer '
     'does not type ID = ES5 7.6.1), generator_fresh, remap_tables_capture_free, top_level_unchanged, remap_injective_visible, '
     'only_identifiers_change (final stream equals the un-obfuscated one up to identifier pairs, under keysPlain), '
     'resolution_commutes_with_renaming, binding_preserved_of_walk_facts_partial (for every program - catch clauses, named function '
     'expressions, labels included - whose decidable walk facts hold, every occurrence resolves to the same declaring scope, the '
     'binder map is one-to-one, free/top-level names are kept). One lemma is open: not excluded -> walk facts (from the '
     'definition-driven walk; the exclusion predicate covers exactly the recorded deviation classes KF-07a/b/c, each with a kernel '
     'witness that binding is NOT preserved); it is evaluated by the model on every (program, flags) pair of the run as an obligation. Judge: Spec.Scope bindings of original vs output '
     'occurrence by occurrence on generated scope-heavy programs for all flag combinations and rule compositions.',
     None)
_upd('C11',
     'Lean 4 kernel decision over the probed semantic-action table x the regenerated grammar, composed by an invariant over ply\'s '
     'tracking run (value stack <-> derivation trees) and invariants of the parser-driven lexer (line table, token columns, '
     'spellings); driver+actions correspondence; independent judge of every node of real trees',
     'node_positions_ok: for EVERY text, every node built by any action in any configuration Model.Parser.parse passes through carries '
     '[lexpos, lineno, col] with (lineno, col) = the ES5 line/column of lexpos, of a shifted token of its own yield (its first token, '
     'or its operator for the listed forms; exempt shapes spelled out), and every fresh token-map entry likewise with the recorded '
     'text - no hypothesis on tokens is left. The table is tied to the real p_* functions by probing and by S2b/S2.',
     None)
_upd('C01', None,
     'print_ignores_positions(_any), print_fuel_irrelevant, pretty_fixpoint hold for ALL trees and indent strings over the unparser '
     'model (tied by S3/S4); lexical layer: token_classes_consistent, first_last_closed_pretty, pretty_stream_typed (for every tree '
     'respecting the slot typing - evaluated on every parsed tree of the run - the printed symbol stream starts/ends in the root '
     'kind\'s certificate and every two consecutive symbols are in the follow relation), direct_adjacent_safe_pretty_partial (every '
     'direct token-token pair of the follow relation is safe under longest-match lexing; exclusions KF-01 + two abstraction '
     'artefacts). NOT proved: pairs separated by layout markers and the grammar layer (reference parse of the printed tokens returns '
     'the tree) - judged: parse -> print -> parse (real parser, adjacent calls, and reference parser) -> print on G1/G2, edge-operand '
     'forms and a statement-boundary matrix x 6 indent strings, with and without comments.',
     None)
_upd('C02', None,
     'minify_ignores_positions, minify_same_structure for ALL trees and both drop_semi settings (tied by S3/S4); lexical layer: '
     'first_last_closed_minify, minify0/1_stream_typed, direct_adjacent_safe_minify_partial; table facts space_table_hits/gaps, '
     'minify_space_handlers, no_statement_slot_after_optional_space, dropped_semis_are_asi_restorable_partial; regression facts of '
     'the repaired defects; kernel witnesses of the open findings. NOT proved: token pairs separated by layout markers (where '
     'KF-02b/c/f live) and the grammar layer; judged: re-parse by real and reference parser modulo line continuations / removed empty '
     'statements, equality of the reference token sequences (no fusion), dropped semicolons exactly ASI-restorable, on G1/G2, a '
     'statement-boundary matrix and a targeted generator of token class x slot pairs.',
     None)
_upd('C03', None, None,
     'Trusted: Lean kernel, standard axioms, translators g_tables.py/g_actions.py, Spec.Es5Parse as a reading of ECMA-262 5.1; ply '
     'LALR construction itself is not verified (the tables are the object of study).')


_upd('C04', None,
     'asi_grammar_facts and asi_twins_same_tree are decided over the regenerated grammar and action table; auto_semi_decision / '
     'auto_semi_effect / pushed_back_token_is_next hold for all lexer states; autosemi_justified (composed model, every text): every '
     'inserted semicolon a reachable configuration holds was made for exactly one of three reasons stated against the text - an '
     'offending token that some state rejects and that is `}` or directly preceded by a LineTerminatorSequence, end of input, or the '
     'restricted production after return/break/continue/throw - so insertion happens ONLY where 7.9 allows. That it happens EVERYWHERE '
     '7.9 says is false of the code (recorded findings KF-04a/c/d/f, KF-05f) and is judged: semicolon-subset invariance against the '
     'reference parser under all terminator kinds, blank lines and whole-line comments.',
     None)
_upd('C05', None,
     'slash_classes_exclusive / slash_reading_is_dictated (kernel decision over the regenerated tables): no parser state accepts both '
     'a division token and a regular-expression literal except the two states after the `}` of a named function (finding KF-03a), so '
     'wherever the parser acts on the `/` token the lexer delivered, the other lexical class would have been a syntax error there; '
     'simple_tokens_never_regex, punctuators_never_div, rparen_states_exclusive; header_keywords_are_grammar_headers (the lexer\'s header-keyword '
     'table = the terminals k with a production k ( ... ) statement in the regenerated grammar; the pre-4c0dced table is refuted); lexer side div_allowed_iff, div_decision. Not proved: '
     'that the lexer\'s parenthesis stack and the LR stack agree on which `)` closes a statement header - judged by the class of every '
     '`/` by source offset against the reference parser in preceding-construct x following-text x layout contexts, also nested inside '
     'open parentheses and after property names spelled like reserved words.',
     None)
_upd('C08', None,
     'actions_anchor_ok + node_positions_ok (parser side), fragment_position_from_tokmap / fragment_source_is_stack_top / '
     'fragments_of_all_rule_sets (unparser side), and the capstone printed_positions_point_at_source_tokens: for every accepted text, '
     'every rule set (obfuscating ones included), every indent and every fragment with an explicit position, that position is the ES5 '
     'line/column of a shifted token whose spelling is the fragment\'s text or original name and the source text at the token\'s offset '
     'IS that spelling (or an inserted `;`, or a recorded comment); sourcemap_segments_point_at_source_tokens pushes it through the '
     'V3 decoder. Tie S3; judge on 14 printer configurations incl. chained multi-file streams.',
     None)


def main():
    checks = []
    for p in PROPS:
        pid = p['id']
        if pid not in CLAIMED:
            continue
        tech, text, note, ref = CLAIMED[pid]
        checks.append(dict(
            property_id=pid,
            quick_cmd='./check %s --tier quick' % pid,
            thorough_cmd='./check %s --tier thorough' % pid,
            evidence_file='evidence/%s.json' % pid,
            replay_cmd_template='./check %s --replay {path}' % pid,
            engine='lean4-calmverif',
            level_claimed=dict(category='proof', text=text, design_ref=ref),
            level_note=note,
            technique=tech,
        ))
    m = dict(
        version=1,
        setup_cmd='./setup.sh',
        hooks=dict(
            guard='CALMJS_PARSE_VERIF',
            enable='no source hooks exist: checks observe /repo through public entry points and reflection of module values on a '
                   'scratch copy of /repo/src; they export CALMJS_PARSE_VERIF=1 for uniformity',
            baseline_off_cmd='cd /repo && /venv/bin/python -m pytest -ra -q -p no:cacheprovider --timeout=900 --continue-on-collection-errors',
            source_commits=[], add_only=True),
        engines=[dict(name='lean4-calmverif', path='lean', serves_properties=sorted(CLAIMED),
                      kind_free_text='Lean 4.33 library CalmVerif: Gen/ (tables regenerated from /repo by harness/gen), Model/ '
                                     '(hand-written executable models), Spec/ (independent reference definitions), Proofs/, Props/ '
                                     '(property theorems), Driver/ (line-protocol executables for the correspondence check)')],
        checks=checks,
        notes='Every check: translator -> lake build of Props -> axiom/forbidden-word audit -> model/implementation correspondence '
              '-> direct judge on the implementation; see DESIGN.md §3.6 for the verdict logic.',
        not_applicable=[dict(property_id=p['id'],
                             reason='check not yet registered: under construction in this round (DESIGN.md §9 construction order); '
                                    'the technique applies')
                        for p in PROPS if p['id'] not in CLAIMED],
    )
    with open(os.path.join(VERIF, 'MANIFEST.json'), 'w') as f:
        json.dump(m, f, indent=1)


if __name__ == '__main__':
    main()
