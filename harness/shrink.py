"""ddmin-style shrinking of a list (tokens or characters) under a predicate `bad(list) -> bool`."""


def ddmin(items, bad, max_tests=4000):
    items = list(items)
    n = 2
    tests = 0
    while len(items) >= 2 and tests < max_tests:
        chunk = max(1, len(items) // n)
        reduced = False
        i = 0
        while i < len(items) and tests < max_tests:
            cand = items[:i] + items[i + chunk:]
            tests += 1
            if cand and bad(cand):
                items = cand
                n = max(n - 1, 2)
                reduced = True
            else:
                i += chunk
        if not reduced:
            if chunk == 1:
                break
            n = min(n * 2, len(items))
    return items


def shrink_text(text, bad, max_tests=4000):
    """first by whitespace-separated words, then by characters"""
    import re
    words = re.findall(r'\s+|\S+', text)
    if len(words) > 1:
        words = ddmin(words, lambda ws: bad(''.join(ws)), max_tests)
        text = ''.join(words)
    chars = ddmin(list(text), lambda cs: bad(''.join(cs)), max_tests)
    return ''.join(chars)
