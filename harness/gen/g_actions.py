"""
Translator: semantic actions of every production, by *action probing*.

Every p_* callable of the real Parser is executed on a mock production whose slot i carries
  lexpos = 100 + 10*i, lineno = 1000 + i, and (through a mock lexer.lookup_colno) colno = 100000*(lineno-1000) + lexpos,
terminals carry their spelling as a tagged str, nonterminals carry a sentinel of every value shape that the
grammar lets them take (None, tagged str, tagged list, a sentinel Node of every class the nonterminal can yield —
varied one slot at a time).  The resulting object is reflected into a descriptor:

  D ::= slot j | none | str s | int n | raise msg
      | list [item D | spread j | spreadMod j lastInc firstTokmap]   (spreadMod: slot j's list with its LAST Elision
        incremented and the token map of its FIRST element replaced by {',' * first.value: [pos]})
      | node K attrs pos tokmap          attrs: name -> D;   tokmap: [(text-source, pos)] in insertion order
  pos ::= slots lexSlot lineSlot colLineSlot colPosSlot delta | ofNode j | unset
  text-source ::= slotText j | const s | commas j      (commas j: ',' * value of the Elision in slot-list j)

The value shapes of every nonterminal are computed by a fixpoint over the grammar, so the table is closed:
a production never sees a shape at run time that was not probed (checked again by the S2b tie).
"""
import itertools

from gen.extract import lean_str, lean_list

_cache = {}


class TokStr(str):
    pass


class SList(list):
    pass


def mk_tok(text, slot):
    s = TokStr(text)
    s._slot = slot
    return s


REP = {'ID': 'x', 'NUMBER': '1', 'STRING': "'s'", 'REGEX': '/r/', 'GETPROP': 'get', 'SETPROP': 'set',
       'AUTOSEMI': ';'}


def spelling(term, lexer_cls):
    if term in REP:
        return REP[term]
    kw = {v: k for k, v in lexer_cls.keywords_dict.items()}
    if term in kw:
        return kw[term]
    import re
    pat = getattr(lexer_cls, 't_' + term)
    text = re.sub(r'\\(.)', r'\1', pat)
    assert re.fullmatch(pat, text), (term, pat, text)
    return text


def probe_all():
    if _cache:
        return _cache
    import ply.yacc as yacc
    import ply.lex as lex
    from calmjs.parse.parsers import es5
    from calmjs.parse import asttypes as base_asttypes
    from calmjs.parse.exceptions import ProductionError
    from calmjs.parse.lexers.es5 import Lexer

    P = es5.Parser()
    A = P.asttypes
    lr = P.parser
    prods = []
    for p in lr.productions:
        rhs = list(p.prod) if hasattr(p, 'prod') else ([] if p.str.split('->', 1)[1].split() == ['<empty>'] else p.str.split('->', 1)[1].split())
        prods.append((p.name, rhs, p.callable))
    nonterms = set(n for n, _, _ in prods)

    class MockLexer(object):
        with_comments = False
        lineno = 999
        lexpos = 99

        def lookup_colno(self, lineno, lexpos):
            return 100000 * (lineno - 1000) + lexpos

    def sentinel_node(cls_name, slot, elem=None):
        cls = getattr(A, cls_name)
        n = cls.__new__(cls)
        n._sentinel = (slot, elem)
        if cls_name == 'Elision':
            n.value = 1
        else:
            n.value = TokStr('v')
            n.value._attr = (slot, 'value')
        n._token_map = {'(': [(7001 + slot, 7002 + slot, 7003 + slot)]}
        n.lexpos, n.lineno, n.colno = 7100 + slot, 7200 + slot, 7300 + slot
        return n

    def slot_value(kind, slot, elemkinds):
        if kind == 'none':
            return None
        if kind == 'str':
            return mk_tok('=', slot)
        if kind == 'list':
            l = SList()
            l._slot = slot
            ek = sorted(elemkinds) or ['Node']
            first = 'Elision' if 'Elision' in ek else ek[0]
            l.append(sentinel_node(first, slot, 0))
            l.append(sentinel_node(first, slot, 1))
            l._orig = list(l)
            return l
        return sentinel_node(kind[1], slot)

    def run(idx, kinds_per_slot, elemk):
        name, rhs, f = prods[idx]
        n = len(rhs)
        syms = []
        s0 = yacc.YaccSymbol()
        s0.type = name
        s0.value = None
        s0.lexpos, s0.lineno = 100, 1000          # slot 0: ply tracking copies slot 1's position (or the lexer's)
        syms.append(s0)
        vals = [None]
        for i, (sym, kind) in enumerate(zip(rhs, kinds_per_slot), 1):
            if sym in nonterms:
                t = yacc.YaccSymbol()
                t.type = sym
                t.value = slot_value(kind, i, elemk.get(sym, ()))
            else:
                t = lex.LexToken()
                t.type = sym
                t.value = mk_tok(spelling(sym, Lexer), i)
            t.lexpos, t.lineno = 100 + 10 * i, 1000 + i
            syms.append(t)
            vals.append(t.value)
        pp = yacc.YaccProduction(syms, [])
        pp.lexer = MockLexer()
        pp.parser = lr
        try:
            f(pp)
        except ProductionError as e:
            msg = str(e.args[0])
            import re
            m = re.fullmatch(r'(.*? at )(\d+):(\d+)', msg)
            assert m and int(m.group(2)) - 7002 == int(m.group(3)) - 7003, msg
            return ('raise', m.group(1), int(m.group(2)) - 7002), vals
        return ('ok', syms[0].value), vals

    def decode_pos(lexpos, lineno, colno):
        if lexpos is None and lineno is None and colno is None:
            return ('unset',)
        if 7100 <= lexpos < 7200:
            j = lexpos - 7100
            assert (lineno, colno) == (7200 + j, 7300 + j)
            return ('ofNode', j)
        if 7001 <= lexpos < 7100:
            return ('ofNodeTok', lexpos - 7001)
        delta = lexpos % 10
        ls = (lexpos - delta - 100) // 10
        lns = lineno - 1000
        cl, cp = divmod(colno, 100000)
        cdelta = cp % 10
        cps = (cp - cdelta - 100) // 10
        assert delta == cdelta, (lexpos, colno)
        # slot 0 has the same codes as slot 1 by construction of the mock (ply tracking)
        return ('slots', ls, lns, cl, cps, delta)

    def describe(v, vals, depth=0):
        if v is None:
            return ('none',)
        for j, sv in enumerate(vals):
            if j and v is sv and not isinstance(v, SList):
                return ('slot', j)
        if isinstance(v, bool):
            raise ValueError('bool value')
        if isinstance(v, int):
            return ('int', v)
        if isinstance(v, str):
            if getattr(v, '_attr', None) is not None:
                return ('attrOf',) + v._attr
            return ('str', str(v))
        if isinstance(v, list):
            items = []
            k = 0
            while k < len(v):
                x = v[k]
                tag = getattr(x, '_sentinel', None)
                if tag is not None and tag[1] == 0 and k + 1 < len(v) and getattr(v[k + 1], '_sentinel', None) == (tag[0], 1):
                    # the two elements of slot tag[0]'s list, in order
                    a, b = x, v[k + 1]
                    last_inc = type(b).__name__ == 'Elision' and b.value == 2
                    if type(a).__name__ == 'Elision':
                        assert a.value == 1, 'first element changed'
                    tm = a._token_map
                    first_tm = None
                    if list(tm.keys()) != ['(']:
                        assert len(tm) == 1
                        (text, plist), = tm.items()
                        assert text == ',' * a.value and len(plist) == 1, tm
                        first_tm = decode_pos(*plist[0])
                    assert list(b._token_map.keys()) == ['('], 'last element token map changed'
                    if last_inc or first_tm is not None:
                        items.append(('spreadMod', tag[0], last_inc, first_tm))
                    else:
                        items.append(('spread', tag[0]))
                    k += 2
                    continue
                items.append(('item', describe(x, vals, depth + 1)))
                k += 1
            return ('list', items)
        if isinstance(v, base_asttypes.Node):
            tag = getattr(v, '_sentinel', None)
            if tag is not None:
                raise ValueError('sentinel node escaped as non-slot value: %r' % (tag,))
            attrs = []
            d = vars(v)
            for k2, x in d.items():
                if k2 in ('lexpos', 'lineno', 'colno', '_token_map', 'comments', 'sourcepath'):
                    continue
                if k2 == '_children_list':
                    attrs.append(('children', describe(x, vals, depth + 1)))
                elif k2.startswith('_'):
                    raise ValueError('unexpected private attribute %s' % k2)
                else:
                    attrs.append((k2, describe(x, vals, depth + 1)))
            attrs.sort()
            pos = decode_pos(d.get('lexpos'), d.get('lineno'), d.get('colno'))
            tm = d.get('_token_map')
            tokmap = []
            tmof = None
            if tm is not None:
                for j, sv in enumerate(vals):
                    if j and isinstance(sv, base_asttypes.Node) and getattr(sv, '_token_map', None) is tm:
                        tmof = j
                if tmof is None:
                    for text, plist in tm.items():
                        for pcode in plist:
                            pd = decode_pos(*pcode)
                            # which slot supplied the text?
                            src = None
                            if pd[0] == 'slots':
                                sv = vals[pd[1]] if 0 < pd[1] < len(vals) else None
                                if isinstance(sv, str) and str(sv) == text:
                                    src = ('slotText', pd[1])
                            if src is None:
                                if set(text) == {','} and type(v).__name__ == 'Elision':
                                    src = ('commas',)
                                else:
                                    src = ('const', text)
                            tokmap.append((src, pd))
            return ('node', type(v).__name__, attrs, pos, tokmap, tmof)
        raise ValueError('cannot describe %r' % (v,))

    def kind_of(desc, vals, kinds_per_slot, rhs, nkinds, elemk):
        """value shape of a result + element classes for lists"""
        t = desc[0]
        if t == 'none':
            return 'none', ()
        if t == 'slot':
            j = desc[1]
            k = kinds_per_slot[j - 1]
            sym = rhs[j - 1]
            return k, tuple(elemk.get(sym, ())) if k == 'list' else ()
        if t in ('str', 'attrOf'):
            return 'str', ()
        if t == 'list':
            ek = set()
            for it in desc[1]:
                if it[0] in ('spread', 'spreadMod'):
                    ek |= set(elemk.get(rhs[it[1] - 1], ()))
                else:
                    k, _ = kind_of(it[1], vals, kinds_per_slot, rhs, nkinds, elemk)
                    if k not in ('none', 'str', 'list'):
                        ek.add(k[1])
            return 'list', tuple(sorted(ek))
        if t == 'node':
            return ('node', desc[1]), ()
        raise ValueError(desc)

    # fixpoint over value shapes
    nkinds = {n: [] for n in nonterms}      # ordered lists of kinds
    elemk = {n: set() for n in nonterms}
    table = {}
    for _round in range(40):
        changed = False
        for idx, (name, rhs, f) in enumerate(prods):
            if f is None:
                continue
            options = []
            feasible = True
            for sym in rhs:
                if sym in nonterms:
                    if not nkinds[sym]:
                        feasible = False
                        break
                    options.append(list(nkinds[sym]))
                else:
                    options.append(['str'])
            if not feasible:
                continue
            default = [o[0] for o in options]
            combos = [tuple(default)]
            for i, o in enumerate(options):
                for k in o[1:]:
                    c = list(default)
                    c[i] = k
                    combos.append(tuple(c))
            for combo in combos:
                key = (idx, combo)
                if key in table:
                    desc = table[key]
                else:
                    res, vals = run(idx, combo, elemk)
                    if res[0] == 'raise':
                        desc = ('raise', res[1], res[2])
                    else:
                        desc = describe(res[1], vals)
                    table[key] = desc
                    changed = True
                if desc[0] == 'raise':
                    continue
                k, ek = kind_of(desc, None, combo, rhs, nkinds, elemk)
                if k not in nkinds[name]:
                    nkinds[name].append(k)
                    changed = True
                if k == 'list' and not set(ek) <= elemk[name]:
                    elemk[name] |= set(ek)
                    changed = True
                    # element kinds changed: list sentinels change, re-probe everything touching lists
                    for kk in [kk for kk in table if 'list' in kk[1]]:
                        del table[kk]
        if not changed:
            break
    else:
        raise ValueError('action probing did not reach a fixpoint')
    def probe(idx, combo):
        res, vals = run(idx, combo, elemk)
        if res[0] == 'raise':
            return ('raise', res[1], res[2])
        return describe(res[1], vals)
    _cache.update(prods=prods, table=table, nkinds=nkinds, elemk=elemk, nonterms=nonterms, probe=probe)
    return _cache


# ---- Lean emission ---------------------------------------------------------

def lean_pos(p):
    if p[0] == 'slots' and p[1] == p[2] == p[3] == p[4]:
        return '(.at %d %d)' % (p[1], p[5])
    if p[0] == 'unset':
        return '.unset'
    if p[0] == 'ofNode':
        return '(.ofNode %d)' % p[1]
    if p[0] == 'ofNodeTok':
        return '(.ofNodeTok %d)' % p[1]
    return '(.slots %d %d %d %d %d)' % p[1:]


def lean_desc(d):
    t = d[0]
    if t == 'none':
        return '.none'
    if t == 'slot':
        return '(.slot %d)' % d[1]
    if t == 'int':
        return '(.int %d)' % d[1]
    if t == 'str':
        return '(.str %s)' % lean_str(d[1])
    if t == 'raise':
        return '(.raiseAt %s %d)' % (lean_str(d[1]), d[2])
    if t == 'attrOf':
        return '(.attrOf %d %s)' % (d[1], lean_str(d[2]))
    if t == 'list':
        items = []
        for it in d[1]:
            if it[0] == 'spread':
                items.append('.spread %d' % it[1])
            elif it[0] == 'spreadMod':
                items.append('.spreadMod %d %s %s' % (it[1], 'true' if it[2] else 'false',
                                                     ('(some %s)' % lean_pos(it[3])) if it[3] is not None else 'none'))
            else:
                items.append('.item %s' % lean_desc(it[1]))
        return '(.list %s)' % lean_list(items)
    if t == 'node':
        _, kind, attrs, pos, tokmap, tmof = d
        la = lean_list(['(%s, %s)' % (lean_str(k), lean_desc(v)) for k, v in attrs])
        lt = []
        std = []
        for src, pd in tokmap:
            if src[0] == 'slotText' and pd == ('slots', src[1], src[1], src[1], src[1], 0) and not lt:
                std.append(src[1])
                continue
            if src[0] == 'slotText':
                s = '(.slotText %d)' % src[1]
            elif src[0] == 'commas':
                s = '.commas'
            else:
                s = '(.const %s)' % lean_str(src[1])
            lt.append('(%s, %s)' % (s, lean_pos(pd)))
        return '(.node %s %s %s %s %s %s)' % (lean_str(kind), la, lean_pos(pos), lean_list([str(x) for x in std]), lean_list(lt),
                                          ('(some %d)' % tmof) if tmof is not None else 'none')
    raise ValueError(d)


def lean_kind(k):
    if k == 'none':
        return '.none'
    if k == 'str':
        return '.str'
    if k == 'list':
        return '.list'
    return '(.node %s)' % lean_str(k[1])


def generate():
    c = probe_all()
    prods, table = c['prods'], c['table']
    out = ['import CalmVerif.Model.ActionDesc', 'namespace CalmVerif.Gen.Actions', 'open CalmVerif.Model.ActionDesc\n']
    for idx, (name, rhs, f) in enumerate(prods):
        rows = [(combo, d) for (i, combo), d in table.items() if i == idx]
        if not rows:
            out.append('def a%d : Entry := { default := [], result := .none, exceptions := [], probed := false }' % idx)
            continue
        # the default row is the one whose combo takes the first shape of every slot
        nk = c['nkinds']
        default = tuple((nk[sym][0] if sym in c['nonterms'] else 'str') for sym in rhs)
        d0 = dict(rows)[default]
        singles = {}
        for combo, d in rows:
            if combo == default or d == d0:
                continue
            diff = [i for i, (x, y) in enumerate(zip(combo, default)) if x != y]
            assert len(diff) == 1
            singles.setdefault(diff[0], {}).setdefault(repr(d), (d, []))[1].append(combo[diff[0]])
        # behaviour classes per slot: kinds with the same result descriptor
        classes = {i: [(sorted(ks, key=repr), d) for d, ks in singles[i].values()] for i in singles}
        exc = []
        if len(classes) >= 2:
            # several slots influence the result: probe the product of their behaviour classes
            slots = sorted(classes)
            choices = [[None] + classes[i] for i in slots]
            for pick in itertools.product(*choices):
                combo = list(default)
                conds = []
                for i, cl in zip(slots, pick):
                    if cl is not None:
                        combo[i] = cl[0][0]
                        conds.append((i + 1, cl[0]))
                if len(conds) < 2:
                    continue
                d = c['probe'](idx, tuple(combo))
                exc.append((conds, d))
        for i in sorted(classes):
            for ks, d in classes[i]:
                exc.append(([(i + 1, ks)], d))
        exc.sort(key=lambda e: -len(e[0]))
        lexc = ['(%s, %s)' % (lean_list(['(%d, %s)' % (i, lean_list([lean_kind(k) for k in ks])) for i, ks in conds]),
                             lean_desc(d)) for conds, d in exc]
        out.append('def a%d : Entry := { default := %s, result := %s, exceptions := %s, probed := true }' % (
            idx, lean_list([lean_kind(k) for k in default]), lean_desc(d0), lean_list(lexc)))
    CH = 40
    chunks = []
    for cidx in range(0, len(prods), CH):
        nm = 'chunk%d' % (cidx // CH)
        chunks.append(nm)
        out.append('def %s : List Entry := %s' % (nm, lean_list(['a%d' % i for i in range(cidx, min(cidx + CH, len(prods)))])))
    out.append('/-- per production: result descriptor for the default slot shapes, and the (slot, shape) pairs whose result differs -/')
    out.append('def actions : List Entry := %s' % ' ++ '.join(chunks))
    # value shapes per nonterminal (closedness certificate)
    nts = sorted(c['nonterms'])
    out.append('def shapes : List (String × List Kind) := %s' % lean_list(
        ['(%s, %s)' % (lean_str(n), lean_list([lean_kind(k) for k in c['nkinds'][n]])) for n in nts]))
    out.append('def listElems : List (String × List String) := %s' % lean_list(
        ['(%s, %s)' % (lean_str(n), lean_list([lean_str(k) for k in sorted(c['elemk'][n])])) for n in nts]))
    # canonical text of every production's descriptor (default + exception rows), for equality checks in Lean
    digs = []
    for idx in range(len(prods)):
        rows = sorted((repr(combo), repr(d)) for (i, combo), d in table.items() if i == idx)
        # positions of a trailing SEMI/AUTOSEMI slot are part of the descriptor and equal in twins (same slot index)
        digs.append(repr(rows))
    import hashlib
    out.append('def digests : List String := %s' % lean_list([lean_str(hashlib.sha256(x.encode()).hexdigest()[:16]) for x in digs]))
    out.append('\nend CalmVerif.Gen.Actions\n')
    return {'CalmVerif/Gen/Actions.lean': '\n'.join(out)}
