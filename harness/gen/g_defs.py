"""
Translator for Gen.Defs: the unparser `definitions` of calmjs.parse.unparsers.es5 as Lean
`Rule` terms, obtained by reflecting the rule OBJECTS (class + attr/value/pos), never source text.

Also emitted (all from values of the imported implementation):
  identifierKinds   class names of every asttypes class that is a subclass of Identifier
                    (isinstance checks of Declare/Resolve/token_handler_unobfuscate)
  elisionKinds      the same for Elision (ElisionJoinAttr)
  elisionSep        the surrogate separator node `ElisionJoinAttr.sep`
  iterKinds         kinds whose children()/__iter__ are the base implementation over `_children_list`
                    (the only ones the model's Iter()/iter(node) supports)

A rule object / shape the generator does not know raises (translator failure).
Mirrors Dispatcher.optimize_definition's classification order:
  type & subclass of Structure -> structure marker; type & subclass of Layout -> layout marker;
  instance of Token -> token; anything else -> TypeError there, raise here.
"""
from gen.extract import lean_str, lean_list

MARKERS = ['OpenBlock', 'CloseBlock', 'EndStatement', 'Space', 'OptionalSpace', 'RequiredSpace',
           'Newline', 'OptionalNewline', 'Indent', 'Dedent',
           'PushScope', 'PopScope', 'PushCatch', 'PopCatch', 'ResolveFuncName']


def marker_of(cls):
    """a Layout subclass -> ('layout'|'struct', name); must be one of ruletypes' own classes"""
    from calmjs.parse import ruletypes as rt
    if not (isinstance(cls, type) and issubclass(cls, rt.Layout)):
        raise ValueError('not a Layout class: %r' % (cls,))
    name = cls.__name__
    if name not in MARKERS or getattr(rt, name, None) is not cls:
        raise ValueError('unknown Layout marker class %r' % (cls,))
    return ('struct' if issubclass(cls, rt.Structure) else 'layout'), name


def lean_opt_int(p):
    if p is None:
        return 'none'
    if isinstance(p, bool) or not isinstance(p, int):
        raise ValueError('token pos of unknown shape: %r' % (p,))
    return '(some %s)' % (('(%d)' % p) if p < 0 else str(p))


def lean_opt_str(s):
    if s is None:
        return 'none'
    if not isinstance(s, str):
        raise ValueError('expected str or None: %r' % (s,))
    return '(some %s)' % lean_str(s)


def attr_src(a):
    from calmjs.parse import ruletypes as rt
    if isinstance(a, str):
        return '(.name %s)' % lean_str(a)
    if isinstance(a, rt.Deferrable):
        t = type(a)
        if t is rt.Iter:
            return '.iter'
        if t is rt.Declare:
            if not isinstance(a.attr, str):
                raise ValueError('Declare.attr is not a str: %r' % (a.attr,))
            return '(.declare %s)' % lean_str(a.attr)
        if t is rt.Resolve:
            return '.resolve'
        if t is rt.Literal:
            return '.literal'
        if t is rt.LineComment:
            return '.lineComment'
        if t is rt.BlockComment:
            return '.blockComment'
        raise ValueError('unknown Deferrable %r' % (a,))
    raise ValueError('attr of unknown shape: %r' % (a,))


def rules_of(definition):
    if not isinstance(definition, tuple):
        raise ValueError('definition is not a tuple: %r' % (definition,))
    return lean_list([rule_of(r) for r in definition])


def rule_of(r):
    from calmjs.parse import ruletypes as rt
    if isinstance(r, type):
        kind, name = marker_of(r)
        return '.%s .%s' % (kind, name)
    if not isinstance(r, rt.Token):
        raise ValueError('unsupported rule %r' % (r,))
    t = type(r)
    pos = lean_opt_int(r.pos)
    # exact classes only: a subclass may override __call__
    if t is rt.Text:
        if not isinstance(r.value, str):
            raise ValueError('Text.value is not a str: %r' % (r.value,))
        return '.text %s %s' % (lean_str(r.value), pos)
    if t is rt.Attr or t is rt.CommentsAttr:
        if r.value is not None:
            raise ValueError('%s with a value: %r' % (t.__name__, r.value))
        return '.%s %s %s' % ('attr' if t is rt.Attr else 'commentsAttr', attr_src(r.attr), pos)
    if t is rt.JoinAttr:
        # `definition = self.value if self.value else ()`: None and () both mean "no separator"
        if r.value is None:
            sep = '[]'
        else:
            sep = rules_of(r.value)
        return '.joinAttr %s %s %s' % (attr_src(r.attr), sep, pos)
    if t is rt.ElisionToken:
        if not isinstance(r.value, str):
            raise ValueError('ElisionToken.value is not a str: %r' % (r.value,))
        return '.elisionToken %s %s %s' % (attr_src(r.attr), lean_str(r.value), pos)
    if t is rt.ElisionJoinAttr:
        # value None would make walk() look the node's own definition up again (infinite recursion)
        return '.elisionJoinAttr %s %s %s' % (attr_src(r.attr), rules_of(r.value), pos)
    if t is rt.Optional:
        if not isinstance(r.attr, str):
            raise ValueError('Optional.attr is not a str: %r' % (r.attr,))
        return '.optional %s %s' % (lean_str(r.attr), rules_of(r.value))
    if t is rt.Operator:
        if r.attr:
            if not isinstance(r.attr, str):
                raise ValueError('Operator.attr of unknown shape: %r' % (r.attr,))
            return '.operator (some %s) %s %s' % (lean_str(r.attr), lean_opt_str(r.value), pos)
        return '.operator none %s %s' % (lean_opt_str(r.value), pos)
    raise ValueError('unknown Token class %r' % (t,))


def uses_iter(definition):
    from calmjs.parse import ruletypes as rt
    for r in definition:
        if isinstance(r, rt.Token):
            if isinstance(r.attr, rt.Iter):
                return True
            if isinstance(r.value, tuple) and uses_iter(r.value):
                return True
    return False


def subclass_names(base):
    from calmjs.parse import asttypes
    from calmjs.parse.parsers import es5
    out = set()
    for mod in (asttypes, es5.asttypes):
        for k in dir(mod):
            c = getattr(mod, k)
            if isinstance(c, type) and issubclass(c, base):
                out.add(c.__name__)
    return sorted(out)


def lean_val(v):
    """proto value -> Lean `Val` term"""
    import proto
    if v is None:
        return '.none'
    if v is True or v is False:
        return '(.bool %s)' % str(v).lower()
    if isinstance(v, int):
        return '(.int %s)' % (('(%d)' % v) if v < 0 else str(v))
    if isinstance(v, str):
        return '(.str %s)' % lean_str(v)
    if isinstance(v, list):
        return '(.list %s)' % lean_list([lean_val(x) for x in v])
    if isinstance(v, proto.Node):
        return '(.node %s %s)' % (lean_str(v.kind), lean_list(
            ['(%s, %s)' % (lean_str(k), lean_val(x)) for k, x in v.attrs]))
    raise ValueError('cannot render %r' % (v,))


def generate():
    from calmjs.parse import asttypes
    from calmjs.parse import ruletypes as rt
    from calmjs.parse.unparsers import es5
    import treedump
    defs = es5.definitions
    if not isinstance(defs, dict):
        raise ValueError('definitions is not a dict')
    L = []
    L.append('import CalmVerif.Model.UnparseTypes')
    L.append('namespace CalmVerif.Gen.Defs')
    L.append('open CalmVerif CalmVerif.Unparse\n')
    names = []
    iter_kinds = []
    for kind in sorted(defs):
        if not isinstance(kind, str):
            raise ValueError('definition key %r' % (kind,))
        nm = 'def_' + kind
        names.append((kind, nm))
        L.append('def %s : List Rule := %s' % (nm, rules_of(defs[kind])))
        cls = getattr(asttypes, kind, None)
        if uses_iter(defs[kind]):
            # the model's Iter() reads the `children` attribute of the dump (= _children_list)
            if cls is None or cls.children is not asttypes.Node.children or cls.__iter__ is not asttypes.Node.__iter__:
                raise ValueError('Iter() used for %s, whose children()/__iter__ are not the base ones' % kind)
    for k in sorted(vars(asttypes)):
        c = getattr(asttypes, k)
        if isinstance(c, type) and issubclass(c, asttypes.Node):
            if c.children is asttypes.Node.children and c.__iter__ is asttypes.Node.__iter__:
                iter_kinds.append(c.__name__)
    L.append('')
    L.append('def definitions : Defs := %s\n' % lean_list(['(%s, %s)' % (lean_str(k), nm) for k, nm in names]))
    L.append('/-- class names that are subclasses of asttypes.Identifier (isinstance tests) -/')
    L.append('def identifierKinds : List String := %s\n' % lean_list([lean_str(k) for k in subclass_names(asttypes.Identifier)]))
    L.append('/-- class names that are subclasses of asttypes.Elision -/')
    L.append('def elisionKinds : List String := %s\n' % lean_list([lean_str(k) for k in subclass_names(asttypes.Elision)]))
    L.append('/-- classes whose children()/__iter__ are Node\'s own (iterate `_children_list`, dumped as `children`) -/')
    L.append('def iterKinds : List String := %s\n' % lean_list([lean_str(k) for k in sorted(set(iter_kinds))]))
    sep = rt.ElisionJoinAttr.sep
    if sep.sourcepath or sep.comments is not None:
        raise ValueError('ElisionJoinAttr.sep carries a sourcepath / comments')
    d = treedump.dump(sep, pos=False, tokmap=True, comments=True)
    if not hasattr(sep, '_token_map'):
        d.attrs = [(k, v) for k, v in d.attrs if k != '@tokmap']
    L.append('/-- ElisionJoinAttr.sep, the surrogate separator node -/')
    L.append('def elisionSep : Val := %s\n' % lean_val(d))
    L.append('end CalmVerif.Gen.Defs\n')
    return {'CalmVerif/Gen/Defs.lean': '\n'.join(L)}
