"""
Translator: values of the ES5 lexer (calmjs.parse.lexers.es5) that the Lean model of the lexer consumes.

Everything is obtained from the *imported* implementation (attributes, compiled regular expressions, behaviour of
functions on synthetic tokens), never from source text:

  keywords            Lexer.keywords_dict (spelling -> token type), sorted
  punctSpelling       for every rule of ply's master regex lists (both states) whose compiled pattern consists of
                      LITERAL opcodes only (re._parser.parse of the rule's pattern under the lexer's reflags): the
                      unique text it matches, verified by `fullmatch`.  A rule that is neither fixed-text nor one of
                      the rules the hand-written matchers cover is a translator failure.
  impliesDivision, impliedBlockIdentifier, divisionSyntaxMarkers, comments
                      the module level frozensets, sorted
  restrictedKeywords  the token types T for which `_get_update_token` turns a following LINE_TERMINATOR into an
                      AUTOSEMI — found by PROBING: a fresh Lexer gets input "\\n", `cur_token` is set to a synthetic
                      token of type T and `_get_update_token()` is called (all token types are tried)
  backtrackCur / backtrackPrev
                      the (cur_token.type, valid_prev_token.type) pairs for which Parser.p_error calls
                      `lexer.backtracked_token` — found by PROBING p_error with a stub lexer over all pairs of token
                      types; the result must be a product set (else translator failure)
  character classes   sorted code point ranges, obtained by testing EVERY code point U+0000..U+10FFFF (surrogates
                      skipped) against the compiled regex pieces of the running interpreter (see CLASSES below for the
                      exact probe of each class)

Representation: `def <name>_<k> : List (Nat × Nat)` chunks of at most 200 ranges, `def <name> := <name>_0 ++ …`.
"""
import re
import sys

from gen.extract import lean_str, lean_list

COMPLEX_RULES = ('STRING', 'GETPROP', 'SETPROP', 'ID', 'NUMBER', 'LINE_TERMINATOR', 'BLOCK_COMMENT',
                 'LINE_COMMENT', 'REGEX')
CHUNK = 200


def _ranges(cps):
    """sorted code points -> list of inclusive (lo, hi)"""
    out = []
    lo = prev = None
    for c in cps:
        if lo is None:
            lo = prev = c
        elif c == prev + 1:
            prev = c
        else:
            out.append((lo, prev))
            lo = prev = c
    if lo is not None:
        out.append((lo, prev))
    return out


def _emit_ranges(name, doc, rs):
    out = ['/-- %s (%d ranges, %d code points) -/' % (doc, len(rs), sum(h - l + 1 for l, h in rs))]
    chunks = [rs[i:i + CHUNK] for i in range(0, len(rs), CHUNK)] or [[]]
    for k, ch in enumerate(chunks):
        out.append('def %s_%d : List (Nat × Nat) := %s' % (
            name, k, lean_list(['(%d, %d)' % p for p in ch])))
    out.append('def %s : List (Nat × Nat) := %s' % (name, ' ++ '.join('%s_%d' % (name, k) for k in range(len(chunks)))))
    return '\n'.join(out)


def _rule_pattern(L, state, name):
    attr = 't_%s' % name if state == 'INITIAL' else 't_%s_%s' % (state, name)
    v = getattr(type(L), attr)
    if isinstance(v, str):
        return v
    rx = getattr(v, 'regex', None)
    if rx is None:
        rx = v.__doc__
    if not isinstance(rx, str):
        raise ValueError('rule %s has no pattern' % attr)
    return rx


def _lex_rules(L):
    """{state: [(type, has_func)]} in master regex order"""
    res = {}
    for state, relist in L.lexer.lexstatere.items():
        rules = []
        for cre, findex in relist:
            for f in findex:
                if f is None or f is False:
                    continue
                if not f[1]:
                    raise ValueError('ignored-token rule in state %s: not modelled' % state)
                rules.append((f[1], f[0] is not None))
        res[state] = rules
    return res


def _fixed_spelling(pattern, flags):
    parser = getattr(re, '_parser', None)
    if parser is None:          # python < 3.11
        import sre_parse as parser
    try:
        parsed = parser.parse(pattern, flags)
    except Exception:
        return None
    chars = []
    for op, arg in parsed:
        if str(op) != 'LITERAL':
            return None
        chars.append(chr(arg))
    s = ''.join(chars)
    if not s or not re.compile(pattern, flags).fullmatch(s):
        return None
    return s


def _probe_restricted(Lexer, LexToken):
    res = []
    for T in sorted(set(Lexer.tokens)):
        L = Lexer()
        L.input('\n')
        t = LexToken()
        t.type, t.value, t.lineno, t.lexpos, t.colno = T, 'x', 1, 0, 1
        L.cur_token = t
        r = L._get_update_token()
        if r is None or r.type not in ('AUTOSEMI', 'LINE_TERMINATOR'):
            raise ValueError('restricted-production probe: unexpected result %r' % (r,))
        if r.type == 'AUTOSEMI':
            res.append(T)
    return res


def _probe_backtrack(Lexer, LexToken):
    from calmjs.parse.parsers.es5 import Parser
    P = Parser()

    def mk(T):
        t = LexToken()
        t.type, t.value, t.lineno, t.lexpos, t.colno = T, 'x', 1, 0, 1
        return t

    class Stub(object):
        def __init__(self, cur, prev):
            self.cur_token = cur
            self.valid_prev_token = prev
            self.prev_token = prev
            self.called = []
            self.lineno = 1
            self.lexpos = 0

        def auto_semi(self, token):
            return None

        def backtracked_token(self, pos=1):
            self.called.append(pos)
            return mk('REGEX')

        def lookup_colno(self, lineno, lexpos):
            return 1

        def token(self):
            return None

    types = sorted(set(Lexer.tokens))
    pairs = set()
    poss = set()
    real = P.lexer
    try:
        for C in types:
            for V in types:
                stub = Stub(mk(C), mk(V))
                P.lexer = stub
                try:
                    P.p_error(mk(C))
                except SyntaxError:
                    pass
                if stub.called:
                    pairs.add((C, V))
                    poss.update(stub.called)
    finally:
        P.lexer = real
    cur = sorted(set(c for c, _ in pairs))
    prev = sorted(set(v for _, v in pairs))
    if pairs != set((c, v) for c in cur for v in prev):
        raise ValueError('p_error back-track trigger is not a product set: %r' % sorted(pairs))
    if poss - {1}:
        raise ValueError('p_error back-tracks by %r characters: not modelled' % sorted(poss))
    return cur, prev


def generate():
    from calmjs.parse.lexers import es5
    from ply.lex import LexToken
    Lexer = es5.Lexer
    L = Lexer()
    flags = L.lexer.lexreflags
    if int(flags) != int(re.VERBOSE):
        raise ValueError('lexer reflags %r: only re.VERBOSE is modelled' % flags)
    rules = _lex_rules(L)
    if sorted(rules) != ['INITIAL', 'regex']:
        raise ValueError('lexer states %r not modelled' % sorted(rules))

    # ---- fixed-text rules
    spelling = {}
    for state, lst in sorted(rules.items()):
        for name, has_func in lst:
            pat = _rule_pattern(L, state, name)
            s = _fixed_spelling(pat, flags)
            if s is None:
                if name not in COMPLEX_RULES:
                    raise ValueError('rule %s/%s (%r) is neither fixed text nor a modelled rule' % (state, name, pat))
                continue
            if has_func:
                raise ValueError('fixed-text rule %s with a function: not modelled' % name)
            if name in COMPLEX_RULES:
                raise ValueError('rule %s became fixed text' % name)
            if spelling.get(name, s) != s:
                raise ValueError('rule %s has two spellings' % name)
            spelling[name] = s
    for name in ('STRING', 'GETPROP', 'SETPROP', 'ID'):
        if (name, True) not in rules['INITIAL']:
            raise ValueError('function rule %s missing' % name)

    def cre(p):
        return re.compile(p, flags)

    # compiled pieces
    R_STRING = cre(_rule_pattern(L, 'INITIAL', 'STRING'))
    R_ID = cre(_rule_pattern(L, 'INITIAL', 'ID'))
    R_GET = cre(_rule_pattern(L, 'INITIAL', 'GETPROP'))
    R_SET = cre(_rule_pattern(L, 'INITIAL', 'SETPROP'))
    R_NUM = cre(_rule_pattern(L, 'INITIAL', 'NUMBER'))
    R_LT = cre(_rule_pattern(L, 'INITIAL', 'LINE_TERMINATOR'))
    R_LC = cre(_rule_pattern(L, 'INITIAL', 'LINE_COMMENT'))
    R_RE = cre(_rule_pattern(L, 'regex', 'REGEX'))
    R_START = cre(Lexer.identifier_start)
    R_PART = cre(Lexer.identifier_part)
    R_S = cre(r'\s')
    R_BROKEN = es5.PATT_BROKEN_STRING
    R_LTSEQ = es5.PATT_LINE_TERMINATOR_SEQUENCE

    chars = [chr(c) for c in range(0x110000) if not (0xD800 <= c <= 0xDFFF)]

    def cls(pred):
        return [ord(c) for c in chars if pred(c)]

    id_start = cls(lambda c: R_START.fullmatch(c))
    id_part = cls(lambda c: R_PART.fullmatch(c))
    # cross-check against the rule as compiled into t_ID
    if id_start != cls(lambda c: R_ID.fullmatch(c)):
        raise ValueError('identifier_start differs from what t_ID accepts as a one-character identifier')
    if sorted(set(id_start) | set(id_part)) != cls(lambda c: R_ID.fullmatch('a' + c)):
        raise ValueError('identifier_part differs from what t_ID accepts as a second character')
    re_space = cls(lambda c: R_S.fullmatch(c))
    for R, kw in ((R_GET, 'get'), (R_SET, 'set')):
        if re_space != cls(lambda c: R.match(kw + c + 'a')):
            raise ValueError(r'%sprop look-ahead class differs from \s' % kw)
        m = R.match(kw + ' a')
        if not m or m.group() != kw or R.match(kw + 'a') or R.match(kw + ' 1'):
            raise ValueError('%sprop rule shape not modelled' % kw)
    line_term = cls(lambda c: R_LT.fullmatch(c))
    if line_term != cls(lambda c: R_LTSEQ.fullmatch(c)):
        raise ValueError('PATT_LINE_TERMINATOR_SEQUENCE and t_LINE_TERMINATOR differ on single characters')
    num_dec = cls(lambda c: R_NUM.fullmatch('1.' + c))
    lt_or_digit = set(line_term) | set(num_dec)

    def minus(a, b):
        return [x for x in a if x not in b]

    CLASSES = [
        ('idStart', 'one character of identifier_start (Lexer.identifier_start fullmatch c; equals t_ID on c)', id_start),
        ('idPart', 'one character of identifier_part (Lexer.identifier_part fullmatch c)', id_part),
        ('reSpace', r'Python re \s under the lexer flags (the getprop/setprop look-ahead)', re_space),
        ('pyIsSpace', 'str.isspace', cls(lambda c: c.isspace())),
        ('pyPrintable', 'str.isprintable (what repr leaves unescaped)', cls(lambda c: c.isprintable())),
        ('lineTerm', 't_LINE_TERMINATOR fullmatch c', line_term),
        ('strDqPlain', 'c with t_STRING fullmatch "c"', cls(lambda c: R_STRING.fullmatch('"' + c + '"'))),
        ('strSqPlain', "c with t_STRING fullmatch 'c'", cls(lambda c: R_STRING.fullmatch("'" + c + "'"))),
        ('strDqEsc', 'c, not a line terminator or decimal digit, with t_STRING fullmatch "\\c"',
         minus(cls(lambda c: R_STRING.fullmatch('"\\' + c + '"')), lt_or_digit)),
        ('strSqEsc', "c, not a line terminator or decimal digit, with t_STRING fullmatch '\\c'",
         minus(cls(lambda c: R_STRING.fullmatch("'\\" + c + "'")), lt_or_digit)),
        ('brkDqPlain', 'c with PATT_BROKEN_STRING fullmatch "c', cls(lambda c: R_BROKEN.fullmatch('"' + c))),
        ('brkSqPlain', "c with PATT_BROKEN_STRING fullmatch 'c", cls(lambda c: R_BROKEN.fullmatch("'" + c))),
        ('brkDqEsc', 'c, not a line terminator or decimal digit, with PATT_BROKEN_STRING fullmatch "\\c',
         minus(cls(lambda c: R_BROKEN.fullmatch('"\\' + c)), lt_or_digit)),
        ('brkSqEsc', "c, not a line terminator or decimal digit, with PATT_BROKEN_STRING fullmatch '\\c",
         minus(cls(lambda c: R_BROKEN.fullmatch("'\\" + c)), lt_or_digit)),
        ('strHex', 'c with t_STRING fullmatch "\\x0c"', cls(lambda c: R_STRING.fullmatch('"\\x0' + c + '"'))),
        ('reFirst', 'c with t_regex_REGEX fullmatch /c/', cls(lambda c: R_RE.fullmatch('/' + c + '/'))),
        ('reBody', 'c with t_regex_REGEX fullmatch /ac/', cls(lambda c: R_RE.fullmatch('/a' + c + '/'))),
        ('reClassChar', 'c with t_regex_REGEX fullmatch both /[c]/ and /[c/]/',
         cls(lambda c: R_RE.fullmatch('/[' + c + ']/') and R_RE.fullmatch('/[' + c + '/]/'))),
        ('reDot', 'c with t_regex_REGEX fullmatch /\\c/ (the dot of an escape)', cls(lambda c: R_RE.fullmatch('/\\' + c + '/'))),
        ('reFlag', 'c with t_regex_REGEX fullmatch /a/c', cls(lambda c: R_RE.fullmatch('/a/' + c))),
        ('lineCommentChar', 'c with t_LINE_COMMENT fullmatch //c', cls(lambda c: R_LC.fullmatch('//' + c))),
        ('numDec', 'c with t_NUMBER fullmatch 1.c', num_dec),
        ('numHex', 'c with t_NUMBER fullmatch 0xc', cls(lambda c: R_NUM.fullmatch('0x' + c))),
        ('numOct', 'c with t_NUMBER fullmatch 00c', cls(lambda c: R_NUM.fullmatch('00' + c))),
        ('numNonzero', 'c with t_NUMBER fullmatch c8.', cls(lambda c: R_NUM.fullmatch(c + '8.'))),
    ]

    kw = sorted(Lexer.keywords_dict.items())
    for k, v in kw:
        if not isinstance(k, str) or not isinstance(v, str):
            raise ValueError('keywords_dict entry %r' % ((k, v),))

    def strset(x):
        if not isinstance(x, (frozenset, set, tuple, list)) or not all(isinstance(e, str) for e in x):
            raise ValueError('expected a collection of token type names: %r' % (x,))
        return lean_list([lean_str(e) for e in sorted(x)])

    restricted = _probe_restricted(Lexer, LexToken)
    bt_cur, bt_prev = _probe_backtrack(Lexer, LexToken)

    out = ['namespace CalmVerif.Gen.LexData', '']
    out.append('/-- Lexer.keywords_dict: spelling ↦ token type, sorted by spelling -/')
    out.append('def keywords : List (String × String) := %s' % lean_list(
        ['(%s, %s)' % (lean_str(k), lean_str(v)) for k, v in kw]))
    out.append('/-- fixed-text rules: token type ↦ the unique text the rule matches, sorted by type -/')
    out.append('def punctSpelling : List (String × String) := %s' % lean_list(
        ['(%s, %s)' % (lean_str(k), lean_str(v)) for k, v in sorted(spelling.items())]))
    out.append('/-- rules that are handled by hand-written matchers (Model.TokenRegex) -/')
    out.append('def complexRules : List String := %s' % lean_list([lean_str(x) for x in COMPLEX_RULES]))
    out.append('def impliesDivision : List String := %s' % strset(es5.TOKENS_THAT_IMPLY_DIVISON))
    out.append('def impliedBlockIdentifier : List String := %s' % strset(es5.IMPLIED_BLOCK_IDENTIFIER))
    out.append('def divisionSyntaxMarkers : List String := %s' % strset(es5.DIVISION_SYNTAX_MARKERS))
    out.append('def comments : List String := %s' % strset(es5.COMMENTS))
    out.append('/-- probed: prev token types after which `_get_update_token` turns a LINE_TERMINATOR into AUTOSEMI -/')
    out.append('def restrictedKeywords : List String := %s' % strset(restricted))
    out.append('/-- probed: Parser.p_error back-tracks iff cur_token.type ∈ backtrackCur ∧ valid_prev_token.type ∈ backtrackPrev -/')
    out.append('def backtrackCur : List String := %s' % strset(bt_cur))
    out.append('def backtrackPrev : List String := %s' % strset(bt_prev))
    out.append('/-- all token types (Lexer.tokens), sorted -/')
    out.append('def tokenTypes : List String := %s' % strset(set(Lexer.tokens)))
    out.append('')
    out.append('-- character classes: inclusive code point ranges, sorted, disjoint, non-adjacent')
    for name, doc, cps in CLASSES:
        out.append(_emit_ranges(name, doc, _ranges(cps)))
        out.append('')
    out.append('end CalmVerif.Gen.LexData')
    return {'CalmVerif/Gen/LexData.lean': '\n'.join(out) + '\n'}
