"""
Translator for Gen.Api: the per-call / persistent partition of printer objects and of
`parse()`, OBSERVED on the running implementation (identity comparison of the objects two
consecutive calls reach, deep structural hashes before/after a batch of calls).

Nothing here reads source text.  What is reflected:

 printers   for every printer configuration (CONFIGS below: Unparser() default, minimum,
            pretty_printer(indent), every flag combination of minify_printer, hand-made rule
            mixes, the example rule sets of handlers.indentation / handlers.obfuscation)

   objRows  `setup()` is called twice and `__call__` is started twice (one `next()` each, on a
            probe tree).  Every object the per-call machinery reaches is listed with a ROLE:
              setup.<slot>                  the four values setup() returns (containers)
              token_handler / layout:<key> / deferrable:<key> / prewalk[i]
                                            the handler callable itself
              <role>.self                   `__self__` of a bound-method handler
              <role>.closure:<var>          contents of a closure cell of a handler function
              <role>.partial.func / .arg[i] parts of a functools.partial handler
              call.dispatcher               the Dispatcher local of the running `__call__` frame
              call.dispatcher.<attr>        every entry of the Dispatcher's __dict__
              call.walk.<local>             the locals of the running `walk` generator (stacks)
            and per role: class name, sharedAcrossCalls (the SAME object, `is`, in call 1 and
            call 2), stateful (see `is_stateful`: a mutable container, or an instance whose
            __dict__ holds non-callable values, or a function carrying attributes).
   persistRows  named persistent objects (the printer's __dict__ incl. its rule closures and
            their cells, module-level objects of unparsers.es5 / ruletypes / rules / handlers.* /
            walker / asttypes incl. class attributes such as ElisionJoinAttr.sep, the probe
            trees) with `mutated` = deep structural hash differs after a batch of calls
            (exhausted, abandoned after 1 / 3 / 7 fragments, raising).

 parsing    `parse(text, with_comments)` is run twice under sys.setprofile, which hands over the
            frame of `parse` when it returns; its local `parser` is the Parser object of that call.
   objRows  Parser, Parser.__dict__ entries, Lexer, ply lexer, ply LRParser and their __dict__
            entries, with shared/stateful as above and `mutated` for the shared ones (hash
            before/after a batch of parses: valid, invalid, with/without comments);
   persistRows  module-level objects of lexers.es5 / lexers.tokens / parsers.es5 / asttypes /
            the generated lextab / yacctab modules in sys.modules / the factory classes.

An object shape `canon` does not know raises TranslatorError (translator failure).
"""
import functools
import gc
import hashlib
import re
import sys
import types

from gen.extract import lean_str


class TranslatorError(Exception):
    pass


# ---------------------------------------------------------------------------
# deep structural canonical form / hash  (also used by checks/C14.py, C15.py)
# ---------------------------------------------------------------------------

_ATOMS = (type(None), bool, int, float, complex, str, bytes, type(NotImplemented), type(Ellipsis))
_OPAQUE_TYPE_NAMES = {
    # state that is either immutable or not structurally observable; identified by type name only
    'builtin_function_or_method', 'wrapper_descriptor', 'method_descriptor', 'method-wrapper',
    'getset_descriptor', 'member_descriptor', 'classmethod_descriptor', 'property', 'staticmethod',
    'classmethod', 'Logger', 'RootLogger', 'PlaceHolder', 'generator', 'count', 'product', 'code',
    'cell', 'frame', 'PlyLogger', 'NullLogger', 'TextIOWrapper', 'lock', 'RLock', '_abc_data', 'mappingproxy',
    'weakref', 'ReferenceType', '_tuplegetter', 'SourceFileLoader', 'ModuleSpec', 'operator.itemgetter', 'itemgetter',
}


def _is_ours(modname):
    return isinstance(modname, str) and (
        modname.startswith('calmjs.parse') or modname.startswith('ply'))


def canon(obj, seen=None, depth=0):
    """
    Canonical nested-tuple form of everything reachable from `obj` that can carry state.
    Identity-free (no id()), cycle-safe (back references become ('ref', n) with n = discovery index).
    """
    if seen is None:
        seen = {}
    if isinstance(obj, _ATOMS):
        return ('v', type(obj).__name__, repr(obj))
    oid = id(obj)
    if oid in seen:
        return ('ref', seen[oid])
    seen[oid] = len(seen)
    t = type(obj)
    tn = t.__name__
    rec = lambda x: canon(x, seen, depth + 1)  # noqa: E731
    if t in (list,):
        return ('list', tuple(rec(x) for x in obj))
    if t is tuple:
        return ('tuple', tuple(rec(x) for x in obj))
    if isinstance(obj, tuple):      # namedtuple and friends
        return ('tuple:' + tn, tuple(rec(x) for x in obj))
    if isinstance(obj, dict):
        items = [(rec(k), rec(v)) for k, v in list(obj.items())]
        return ('dict:' + tn, tuple(sorted(items, key=lambda kv: repr(kv[0]))))
    if isinstance(obj, (set, frozenset)):
        return ('set:' + tn, tuple(sorted((rec(x) for x in obj), key=repr)))
    if tn in ('dict_keys', 'dict_values', 'dict_items'):
        return (tn, tuple(sorted((rec(x) for x in list(obj)), key=repr)))
    if isinstance(obj, re.Pattern):
        return ('re', obj.pattern, obj.flags)
    if isinstance(obj, re.Match):
        return ('match', obj.span(), obj.group(0))
    if isinstance(obj, types.ModuleType):
        return ('module', obj.__name__)
    if isinstance(obj, types.FunctionType):
        cells = []
        for name, c in zip(obj.__code__.co_freevars, obj.__closure__ or ()):
            try:
                cells.append((name, rec(c.cell_contents)))
            except ValueError:
                cells.append((name, ('empty-cell',)))
        return ('fn', obj.__module__, obj.__qualname__, rec(obj.__dict__) if obj.__dict__ else (),
                tuple(cells), rec(obj.__defaults__) if obj.__defaults__ else ())
    if isinstance(obj, types.MethodType):
        return ('method', obj.__func__.__qualname__, rec(obj.__self__))
    if isinstance(obj, functools.partial):
        return ('partial', rec(obj.func), rec(obj.args), rec(obj.keywords))
    if isinstance(obj, type):
        if _is_ours(getattr(obj, '__module__', None)):
            attrs = []
            for k, v in sorted(vars(obj).items()):
                if k in ('__dict__', '__weakref__', '__doc__', '__module__', '__qualname__'):
                    continue
                attrs.append((k, rec(v)))
            return ('class', obj.__module__, obj.__qualname__, tuple(attrs),
                    tuple(rec(b) for b in obj.__bases__))
        return ('class', getattr(obj, '__module__', '?'), obj.__qualname__)
    if tn in _OPAQUE_TYPE_NAMES:
        return ('opaque', tn)
    d = getattr(obj, '__dict__', None)
    if isinstance(d, dict):
        slots = []
        for k in getattr(t, '__slots__', ()) or ():
            if isinstance(k, str) and hasattr(obj, k):
                slots.append((k, rec(getattr(obj, k))))
        return ('obj', t.__module__, t.__qualname__, rec(d), tuple(slots))
    slots = getattr(t, '__slots__', None)
    if slots is not None:
        return ('slotobj', t.__module__, t.__qualname__,
                tuple((k, rec(getattr(obj, k))) for k in slots if hasattr(obj, k)))
    raise TranslatorError('deep hash: object shape not understood: %s.%s %r' % (t.__module__, tn, obj))


def dhash(obj):
    old = sys.getrecursionlimit()
    sys.setrecursionlimit(max(old, 20000))
    try:
        c = canon(obj)
    finally:
        sys.setrecursionlimit(old)
    return hashlib.blake2b(repr(c).encode('utf8', 'surrogatepass'), digest_size=12).hexdigest()


def module_state(mod):
    """everything a module holds that is not a plain re-export of another module's function/class"""
    out = {}
    for k, v in vars(mod).items():
        if k.startswith('__') and k.endswith('__'):
            continue
        if isinstance(v, types.ModuleType):
            continue
        out[k] = v
    return out


# ---------------------------------------------------------------------------
# classification
# ---------------------------------------------------------------------------

def is_stateful(obj):
    """
    True  : a mutable container (dict/list/set/bytearray), an instance whose __dict__ holds at
            least one non-callable value (Indentator, Obfuscator, Scope, Dispatcher, Parser, Lexer,
            LRParser, …), a function carrying attributes.
    False : immutable atoms, tuples/frozensets of non-stateful items, plain functions, classes,
            NotImplemented, bound methods (their __self__ is listed as a row of its own),
            compiled regexes.
    """
    if isinstance(obj, _ATOMS) or isinstance(obj, (re.Pattern, re.Match, type, types.ModuleType, types.BuiltinFunctionType)):
        return False
    if isinstance(obj, (dict, list, set, bytearray)):
        return True
    if isinstance(obj, (tuple, frozenset)):
        return any(is_stateful(x) for x in obj)
    if isinstance(obj, types.FunctionType):
        return bool(obj.__dict__)
    if isinstance(obj, (types.MethodType, functools.partial)):
        return False
    if type(obj).__name__ in ('dict_keys', 'dict_values', 'dict_items'):
        return True     # a live view of a mutable dict
    d = getattr(obj, '__dict__', None)
    if isinstance(d, dict):
        return any(not callable(v) for v in d.values())
    if getattr(type(obj), '__slots__', None):
        return True
    raise TranslatorError('classification: object shape not understood: %r' % (obj,))


def key_name(k):
    if isinstance(k, type):
        return k.__name__
    if isinstance(k, tuple):
        return '(' + ','.join(key_name(x) for x in k) + ')'
    if isinstance(k, str):
        return k
    raise TranslatorError('handler key shape not understood: %r' % (k,))


def reach_handler(role, h, out):
    """rows for one handler callable: itself and what it carries"""
    out.append((role, h))
    if h is NotImplemented or h is None:
        return
    if isinstance(h, types.MethodType):
        out.append((role + '.self', h.__self__))
        return
    if isinstance(h, types.FunctionType):
        for name, c in zip(h.__code__.co_freevars, h.__closure__ or ()):
            try:
                v = c.cell_contents
            except ValueError:
                continue
            if isinstance(v, types.FunctionType) or isinstance(v, types.MethodType):
                reach_handler(role + '.closure:' + name, v, out)
            else:
                out.append((role + '.closure:' + name, v))
        return
    if isinstance(h, functools.partial):
        reach_handler(role + '.partial.func', h.func, out)
        for i, a in enumerate(h.args):
            out.append((role + '.partial.arg[%d]' % i, a))
        for k, a in sorted((h.keywords or {}).items()):
            out.append((role + '.partial.kw:%s' % k, a))
        return
    if callable(h) and hasattr(h, '__dict__'):
        return      # a callable instance: the row itself carries its statefulness
    raise TranslatorError('handler shape not understood at %s: %r' % (role, h))


def reach_setup(result):
    if not (isinstance(result, tuple) and len(result) == 4):
        raise TranslatorError('setup() result shape not understood: %r' % (result,))
    token_handler, layout_handlers, deferrable_handlers, prewalk_hooks = result
    if not isinstance(layout_handlers, dict) or not isinstance(deferrable_handlers, dict) \
            or not isinstance(prewalk_hooks, list):
        raise TranslatorError('setup() result shape not understood: %r' % (result,))
    out = [('setup.layout_handlers', layout_handlers), ('setup.deferrable_handlers', deferrable_handlers),
           ('setup.prewalk_hooks', prewalk_hooks)]
    reach_handler('token_handler', token_handler, out)
    for k in sorted(layout_handlers, key=key_name):
        reach_handler('layout:' + key_name(k), layout_handlers[k], out)
    for k in sorted(deferrable_handlers, key=key_name):
        reach_handler('deferrable:' + key_name(k), deferrable_handlers[k], out)
    for i, h in enumerate(prewalk_hooks):
        reach_handler('prewalk[%d]' % i, h, out)
    return out


def started_call(printer, tree):
    """start `printer(tree)`, advance one fragment, return (generator, rows) — the generator is kept alive"""
    g = printer(tree)
    if not isinstance(g, types.GeneratorType):
        raise TranslatorError('printer call did not return a generator: %r' % (g,))
    next(g)
    loc = g.gi_frame.f_locals
    if 'dispatcher' not in loc:
        raise TranslatorError('no `dispatcher` local in the running __call__ frame: %s' % sorted(loc))
    disp = loc['dispatcher']
    out = [('call.dispatcher', disp)]
    for k, v in sorted(vars(disp).items()):
        out.append(('call.dispatcher.' + k.replace('_Dispatcher__', '__'), v))
    inner = [r for r in gc.get_referents(g)
             if isinstance(r, types.GeneratorType) and r.gi_frame is not None]
    walks = [r for r in inner if r.gi_code.co_name == 'walk']
    if len(walks) != 1:
        raise TranslatorError('cannot find the running walk generator below __call__: %r' % (inner,))
    wl = walks[0].gi_frame.f_locals
    for k in sorted(wl):
        v = wl[k]
        if k in ('dispatcher', 'node', 'definition'):
            continue        # arguments: the dispatcher is listed above, the tree is persistent state
        if isinstance(v, types.FunctionType):
            continue        # the nested closures _walk/process_layouts/walk (created per call by `def`)
        out.append(('call.walk.' + k, v))
    return g, out


# ---------------------------------------------------------------------------
# printer configurations
# ---------------------------------------------------------------------------

def printer_configs():
    """name -> zero-argument constructor of a printer object"""
    from calmjs.parse import rules
    from calmjs.parse.unparsers import es5 as u
    from calmjs.parse.handlers import indentation, obfuscation
    _init_own_layout()
    cfgs = [
        ('default', lambda: u.Unparser()),
        ('minimum', lambda: u.Unparser(rules=(rules.minimum(),))),
        ('pretty_printer()', lambda: u.pretty_printer()),
        ('pretty_printer(tab)', lambda: u.pretty_printer('\t')),
        ('pretty_printer(None)', lambda: u.pretty_printer(None)),
    ]
    for ob in (False, True):
        for og in (False, True):
            for sf in (False, True):
                for ds in (False, True):
                    name = 'minify_printer(obfuscate=%d,obfuscate_globals=%d,shadow_funcname=%d,drop_semi=%d)' % (
                        ob, og, sf, ds)
                    cfgs.append((name, functools.partial(u.minify_printer, ob, og, sf, ds)))
    cfgs += [
        ('rules(indent,obfuscate)', lambda: u.Unparser(rules=(rules.indent(), rules.obfuscate()))),
        ('rules(obfuscate,indent)', lambda: u.Unparser(rules=(rules.obfuscate(obfuscate_globals=True), rules.indent('  ')))),
        ('rules(minify,indent)', lambda: u.Unparser(rules=(rules.minify(drop_semi=True), rules.indent()))),
        ('rules(default,obfuscate)', lambda: u.Unparser(rules=(rules.default(), rules.obfuscate(shadow_funcname=True)))),
        ('rules(indent,indent)', lambda: u.Unparser(rules=(rules.indent(), rules.indent('\t')))),
        ('handlers.indentation.indent', lambda: u.Unparser(rules=(indentation.indent(),))),
        ('handlers.obfuscation.obfuscate', lambda: u.Unparser(rules=(rules.minify(), obfuscation.obfuscate()))),
        # the constructor's own handler / hook options, alone and combined with rules that contribute the same kind
        ('hooks=[noop]+rules(minify,obfuscate)', lambda: u.Unparser(rules=(rules.minify(), rules.obfuscate()),
                                                                   prewalk_hooks=[_noop_hook])),
        ('hooks=[noop]+rules(indent)', lambda: u.Unparser(rules=(rules.indent(),), prewalk_hooks=[_noop_hook, _noop_hook])),
        ('hooks=[noop]', lambda: u.Unparser(prewalk_hooks=[_noop_hook])),
        ('layout_handlers={}+deferrable_handlers={}+rules(indent,obfuscate)',
         lambda: u.Unparser(rules=(rules.indent(), rules.obfuscate()), layout_handlers={}, deferrable_handlers={})),
        ('layout_handlers=own+rules(minify)', lambda: u.Unparser(rules=(rules.minify(),), layout_handlers=dict(_OWN_LAYOUT),
                                                                 prewalk_hooks=[_noop_hook])),
    ]
    return cfgs


def _noop_hook(dispatcher, node):
    return node


def _own_space(dispatcher, node, before, after, prev):
    from calmjs.parse.ruletypes import StreamFragment
    yield StreamFragment(' ', None, None, None, None)


_OWN_LAYOUT = {}


def _init_own_layout():
    from calmjs.parse.ruletypes import Space
    _OWN_LAYOUT[Space] = _own_space


PROBE_TEXTS = [
    # blocks (Indent/Dedent), functions and catch (scopes), elisions (ElisionJoinAttr.sep), comments
    '/* c */ function f(a, b) { var c = [1,,a,,]; try { if (a) { return b; } } catch (e) { throw e; } '
    'for (var i = 0; i < 3; i++) { c = {x: i, get y() { return 1; }}; } return function g(d) { return d + c; }; }\n'
    'var z = f(1, 2); // t\n',
    'a;',
]


def probe_trees():
    from calmjs.parse.parsers import es5 as p
    from calmjs.parse import asttypes
    trees = [p.parse(t, with_comments=True) for t in PROBE_TEXTS]
    # a tree whose printing raises under the obfuscating printers (Declare on a non-Identifier) …
    bad = p.parse('function f(a) { var b = 1; return a; }')
    vd = [n for n in _all_nodes(bad) if type(n).__name__ == 'VarDecl'][0]
    vd.identifier = p.asttypes.String('"s"')
    trees.append(bad)
    # … and one that raises under every printer (missing attribute), after a few fragments
    bad2 = p.parse('x = 1; if (y) { z; }')
    iff = [n for n in _all_nodes(bad2) if type(n).__name__ == 'If'][0]
    del iff.predicate
    trees.append(bad2)
    return trees


def _all_nodes(node, out=None):
    from calmjs.parse.asttypes import Node
    out = [] if out is None else out
    out.append(node)
    for v in vars(node).values():
        if isinstance(v, Node):
            _all_nodes(v, out)
        elif isinstance(v, list):
            for x in v:
                if isinstance(x, Node):
                    _all_nodes(x, out)
    return out


def tree_state(tree):
    """identity-free snapshot of a tree including private attributes (token maps) and positions"""
    return canon(tree)


def call_batch(printer, trees):
    """exhausted, abandoned and raising calls; generators of abandoned calls are dropped at once"""
    for tree in trees:
        for k in (None, 1, 3, 7):
            g = printer(tree)
            try:
                n = 0
                for _ in g:
                    n += 1
                    if k is not None and n >= k:
                        break
            except Exception:
                pass
            del g


def printer_persistent_objects(printer):
    from calmjs.parse import ruletypes, rules, asttypes
    from calmjs.parse.unparsers import es5 as u, walker, base
    from calmjs.parse.handlers import core, indentation, obfuscation
    objs = [('printer.__dict__', vars(printer))]
    for i, r in enumerate(printer.rules):
        objs.append(('printer.rules[%d]' % i, r))
    objs += [
        ('module:unparsers.es5.definitions', u.definitions),
        ('module:unparsers.es5', module_state(u)),
        ('module:unparsers.walker', module_state(walker)),
        ('module:unparsers.base', module_state(base)),
        ('module:ruletypes', module_state(ruletypes)),
        ('module:ruletypes.ElisionJoinAttr.sep', ruletypes.ElisionJoinAttr.sep),
        ('module:rules', module_state(rules)),
        ('module:handlers.core', module_state(core)),
        ('module:handlers.indentation', module_state(indentation)),
        ('module:handlers.obfuscation', module_state(obfuscation)),
        ('module:asttypes', module_state(asttypes)),
    ]
    return objs


def printer_rows():
    obj_rows, persist_rows = [], []
    trees = probe_trees()
    for name, make in printer_configs():
        printer = make()
        a = reach_setup(printer.setup())
        b = reach_setup(printer.setup())
        g1, c1 = started_call(printer, trees[0])
        g2, c2 = started_call(printer, trees[0])
        a += c1
        b += c2
        if [r for r, _ in a] != [r for r, _ in b]:
            raise TranslatorError('%s: two calls reach different roles: %r / %r' % (
                name, [r for r, _ in a], [r for r, _ in b]))
        for (role, x), (_, y) in zip(a, b):
            if type(x) is not type(y):
                raise TranslatorError('%s: role %s has different classes in two calls' % (name, role))
            obj_rows.append((name, role, type(x).__name__, x is y, is_stateful(x)))
        del g1, g2
        # persistent objects: hash, run the batch, hash again
        pers = printer_persistent_objects(printer)
        pers += [('tree[%d]' % i, t) for i, t in enumerate(trees)]
        before = [dhash(o) for _, o in pers]
        call_batch(printer, trees)
        after = [dhash(o) for _, o in pers]
        for (pname, o), h0, h1 in zip(pers, before, after):
            persist_rows.append((name, pname, type(o).__name__, h0 != h1))
    return obj_rows, persist_rows


# ---------------------------------------------------------------------------
# parsing
# ---------------------------------------------------------------------------

PARSE_BATCH = [
    ('var a = 1;\nfunction f(b) { return /re/.test(b) /* c */ ; }\n', False),
    ('var a = 1;\nfunction f(b) { return /re/.test(b) /* c */ ; }\n', True),
    ('a = 1\nb = 2 // asi\n', True),
    ('var = ;', False),
    ('x = "unterminated', True),
    ('a = b / /re/', False),
    ('{\n  1 +', True),
    ('', False),
]


def observed_parse(text, with_comments):
    """run es5.parse under a profiler hook that captures the `parser` local of parse() at return"""
    from calmjs.parse.parsers import es5 as p
    code = p.parse.__code__
    got = []

    def prof(frame, event, arg):
        if event == 'return' and frame.f_code is code:
            got.append(frame.f_locals.get('parser'))

    old = sys.getprofile()
    sys.setprofile(prof)
    try:
        try:
            p.parse(text, with_comments=with_comments)
        except Exception:
            pass
    finally:
        sys.setprofile(old)
    if len(got) != 1 or got[0] is None:
        raise TranslatorError('cannot observe the Parser object of parse(): %r' % (got,))
    return got[0]


def reach_parser(parser):
    out = [('Parser', parser)]
    for k, v in sorted(vars(parser).items()):
        out.append(('Parser.' + k, v))
    lexer = parser.lexer
    for k, v in sorted(vars(lexer).items()):
        out.append(('Lexer.' + k, v))
    ply_lexer = lexer.lexer
    for k, v in sorted(vars(ply_lexer).items()):
        out.append(('plyLexer.' + k, v))
    lr = parser.parser
    for k, v in sorted(vars(lr).items()):
        out.append(('LRParser.' + k, v))
    return out


def parse_persistent_objects():
    from calmjs.parse import asttypes, factory, utils, exceptions
    from calmjs.parse.lexers import es5 as lx, tokens
    from calmjs.parse.parsers import es5 as p
    import calmjs.parse
    import ply.lex
    import ply.yacc
    objs = [
        ('module:lexers.es5', module_state(lx)),
        ('module:lexers.tokens', module_state(tokens)),
        ('module:parsers.es5', module_state(p)),
        ('module:parsers.es5.asttypes.classes', p.asttypes.classes),
        ('module:asttypes', module_state(asttypes)),
        ('module:factory', module_state(factory)),
        ('module:utils', module_state(utils)),
        ('module:exceptions', module_state(exceptions)),
        ('module:calmjs.parse.es5', type(calmjs.parse.es5)),
    ]
    for label, name in (('lextab', p.lextab), ('yacctab', p.yacctab)):
        if name not in sys.modules:
            raise TranslatorError('generated module %s is not in sys.modules after a parse' % name)
        objs.append(('generated:' + label, module_state(sys.modules[name])))
    return objs


def parse_rows():
    obj_rows, persist_rows = [], []
    from calmjs.parse.parsers import es5 as p
    p.parse('warm;')
    for wc in (False, True):
        name = 'parse(with_comments=%d)' % wc
        text = PARSE_BATCH[0][0]
        pa = observed_parse(text, wc)
        pb = observed_parse(text, wc)
        a, b = reach_parser(pa), reach_parser(pb)
        if [r for r, _ in a] != [r for r, _ in b]:
            raise TranslatorError('%s: two calls reach different roles' % name)
        shared = [(role, x) for (role, x), (_, y) in zip(a, b) if x is y and is_stateful(x)]
        before = {role: dhash(x) for role, x in shared}
        pers = parse_persistent_objects()
        pbefore = [dhash(o) for _, o in pers]
        for t, w in PARSE_BATCH:
            for _ in range(2):
                try:
                    p.parse(t, with_comments=w)
                except Exception:
                    pass
        after = {role: dhash(x) for role, x in shared}
        pafter = [dhash(o) for _, o in pers]
        for (role, x), (_, y) in zip(a, b):
            if type(x) is not type(y):
                raise TranslatorError('%s: role %s has different classes in two calls' % (name, role))
            obj_rows.append((name, role, type(x).__name__, x is y, is_stateful(x),
                             role in before and before[role] != after[role]))
        for (pname, o), h0, h1 in zip(pers, pbefore, pafter):
            persist_rows.append((name, pname, type(o).__name__, h0 != h1))
    return obj_rows, persist_rows


# ---------------------------------------------------------------------------
# output
# ---------------------------------------------------------------------------

def _b(x):
    return 'true' if x else 'false'


def generate():
    pobj, ppers = printer_rows()
    qobj, qpers = parse_rows()
    out = []
    out.append('/- the per-call / persistent partition of printers and of parse(), observed by object identity across')
    out.append('   two calls and by deep structural hashes around a batch of calls (see harness/gen/g_api.py) -/')
    out.append('namespace CalmVerif.Gen.Api')
    out.append('')
    out.append('/-- one object reached by the per-call machinery of a configuration -/')
    out.append('structure ObjRow where')
    out.append('  config : String')
    out.append('  role : String')
    out.append('  cls : String')
    out.append('  /-- the SAME object (Python `is`) is reached in two consecutive calls -/')
    out.append('  shared : Bool')
    out.append('  /-- mutable container, instance with non-callable instance attributes, or function with attributes -/')
    out.append('  stateful : Bool')
    out.append('  /-- for shared stateful objects of parse(): deep structural hash changed over a batch of calls -/')
    out.append('  mutated : Bool')
    out.append('  deriving DecidableEq, Repr')
    out.append('')
    out.append('/-- one named persistent object and whether a batch of calls changed its deep structural hash -/')
    out.append('structure PersistRow where')
    out.append('  config : String')
    out.append('  name : String')
    out.append('  cls : String')
    out.append('  mutated : Bool')
    out.append('  deriving DecidableEq, Repr')
    out.append('')

    def emit_obj(defname, rows, chunk=40):
        names = []
        rows = list(rows)
        for i in range(0, len(rows), chunk):
            n = '%s_%d' % (defname, i // chunk)
            names.append(n)
            out.append('def %s : List ObjRow := [' % n)
            out.append(',\n'.join('  ⟨%s, %s, %s, %s, %s, %s⟩' % (
                lean_str(r[0]), lean_str(r[1]), lean_str(r[2]), _b(r[3]), _b(r[4]), _b(r[5] if len(r) > 5 else False))
                for r in rows[i:i + chunk]))
            out.append(']')
        out.append('def %s : List ObjRow := %s' % (defname, ' ++ '.join(names) if names else '[]'))
        out.append('')

    def emit_pers(defname, rows, chunk=40):
        names = []
        rows = list(rows)
        for i in range(0, len(rows), chunk):
            n = '%s_%d' % (defname, i // chunk)
            names.append(n)
            out.append('def %s : List PersistRow := [' % n)
            out.append(',\n'.join('  ⟨%s, %s, %s, %s⟩' % (lean_str(r[0]), lean_str(r[1]), lean_str(r[2]), _b(r[3]))
                                  for r in rows[i:i + chunk]))
            out.append(']')
        out.append('def %s : List PersistRow := %s' % (defname, ' ++ '.join(names) if names else '[]'))
        out.append('')

    emit_obj('printerObjs', pobj)
    emit_pers('printerPersist', ppers)
    emit_obj('parseObjs', qobj)
    emit_pers('parsePersist', qpers)
    cfgs = []
    for r in pobj:
        if r[0] not in cfgs:
            cfgs.append(r[0])
    out.append('/-- the printer configurations observed -/')
    out.append('def printerConfigs : List String := [%s]' % ', '.join(lean_str(c) for c in cfgs))
    out.append('')
    out.append('end CalmVerif.Gen.Api')
    return {'CalmVerif/Gen/Api.lean': '\n'.join(out) + '\n'}
