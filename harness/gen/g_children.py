"""
Translator for Gen.Children: what every node class of calmjs.parse.asttypes stores
and what its children() returns.

Everything is obtained from *values* of the imported implementation:

 1. classes: all subclasses of asttypes.Node found in vars(asttypes) (reflection);
    the subclasses the ES5 parser really instantiates (factory.AstTypesFactory) must
    share children()/__iter__ with them (checked by identity of the functions).
 2. attribute shapes: the probe programs below (every node kind, optional parts
    present and absent, with and without comments) are parsed with the real parser and
    every entry of vars(node) of every node reached by generic reflection is classified
    (node / None / list of nodes / scalar).  An attribute seen as a node or None is
    `node`, as a list whose items are nodes is `nodeList`, anything else `scalar`.
    A mixture (e.g. node and list in the same attribute) cannot be expressed -> raise.
    Classes the parser never builds (Node, Program, List, FuncBase, Comment) take the
    shapes of their observed subclasses, which must agree; none observed -> raise.
 3. recipe: every class is instantiated through inspect.signature with fresh sentinel
    nodes / lists of two sentinel nodes / a scalar, children() is run and its result is
    matched against vars() BY IDENTITY, giving an ordered recipe of `one attr` (the value
    of the attribute is one child) and `many attr` (the items of the list are children).
    The recipe is then replayed on instances with every subset of the optional (observed
    None / default None) node attributes absent and with empty lists: the interpreted
    recipe must reproduce children() exactly (identity, None included), else raise.
 4. the `comments` attribute (class-level default None, set by Node.set_comments) is
    global: commentsAttr / the kinds observed carrying one.
"""
import inspect
import itertools

from gen.extract import lean_str, lean_list

PROBES = [
    'var a, b = 1; var c = b;',
    '{ a; } ;',
    'x = true; x = false; x = null; x = 1.5; x = "s"; x = /re/g; x = this;',
    'x = [1, , 2, , ]; x = [,]; x = []; x = {}; x = {a: 1, "b": 2, 3: 4, get c() { return 1; }, set d(v) { this.e = v; }, get f() {}, set g(h) {}};',
    'new A; new A(1, 2); new a.B(); f(); f(1)(2); a[b]; a.b; a.b.c[d](e);',
    'a = b; a += b; a = b ? c : d; a = (b, c); a = (b); a = -b; a = !b; a++; --a; typeof a; delete a.b; void 0;',
    'a + b * c - d / e % f << g >> h >>> i < j > k <= l >= m == n != o === p !== q & r ^ s | t && u || v; a instanceof b; a in b;',
    'if (a) b; if (a) b; else c; if (a) { b; } else if (c) { d; } else { e; }',
    'do a; while (b); while (a) b; while (a) { b; }',
    'for (;;) ; for (a; b; c) d; for (var a = 1, b; a < b; a++) { c; } for (a in b) c; for (var a in b) c; for (var a = 1 in b) { c; }',
    'for (;a;) ; for (a;;) ; for (;;a) ;',
    'a: for (;;) { continue; continue a; break; break a; }',
    'function f() { return; return 1; }',
    'with (a) b; with (a) { b; }',
    'switch (a) { } switch (a) { case 1: b; c; case 2: default: d; case 3: } switch (a) { default: }',
    'throw a; try { a; } catch (e) { b; } try { a; } finally { c; } try { a; } catch (e) { b; } finally { c; } try {} catch (e) {} finally {}',
    'debugger;',
    'function f() {} function g(a) { b; } function h(a, b) { c; d; } x = function () {}; x = function n(a, b) { c; }; (function () { a; })();',
    'a, b, c;',
]
COMMENT_PROBES = [
    '/* c1 */ // c2\nvar a = /* c3 */ 1; // c4\n/* c5 */',
    '// l\nfunction /* n */ f(/* p */ a) { /* r */ return /* v */ a /* o */ + 1; }',
    'x = { /* k */ a: /* v */ 1 }; // t\nif (/* p */ a) /* c */ b; else /* e */ c;',
    '/* a *//* b */ this /* c */ . /* d */ q;',
]

COMMENTS_ATTR = 'comments'


def _classify(v, Node):
    if v is None:
        return 'none'
    if isinstance(v, Node):
        return 'node'
    if isinstance(v, list):
        kinds = set(_classify(x, Node) for x in v)
        if kinds <= {'node'}:
            return 'nodeList'          # includes the empty list
        if 'node' in kinds or 'nodeList' in kinds or 'mixed' in kinds:
            return 'mixed'
        return 'scalar'
    if isinstance(v, (str, bool, int, float)):
        return 'scalar'
    if isinstance(v, dict):
        for x in list(v.keys()) + list(v.values()):
            if _contains_node(x, Node):
                return 'mixed'
        return 'scalar'
    if isinstance(v, tuple):
        return 'mixed' if _contains_node(v, Node) else 'scalar'
    raise TypeError('attribute value of unknown shape: %r' % (v,))


def _contains_node(v, Node):
    if isinstance(v, Node):
        return True
    if isinstance(v, (list, tuple, set, frozenset)):
        return any(_contains_node(x, Node) for x in v)
    if isinstance(v, dict):
        return any(_contains_node(x, Node) for x in list(v.keys()) + list(v.values()))
    return False


def attr_name(k):
    """vars() key -> attribute name used in the table and in tree dumps (treedump.py convention)"""
    if k == '_children_list':
        return 'children'
    return k


def public_vars(node):
    """the entries of vars(node) the table speaks about: public ones, `_children_list` as `children`"""
    out = []
    for k, v in vars(node).items():
        if k == '_children_list':
            out.append(('children', v))
        elif k.startswith('_'):
            continue
        else:
            out.append((k, v))
    return out


def reach(root, Node):
    """every Node reachable from root through ANY entry of vars() (lists/tuples/dicts searched)"""
    seen = {}
    order = []
    stack = [root]
    while stack:
        x = stack.pop()
        if isinstance(x, Node):
            if id(x) in seen:
                continue
            seen[id(x)] = x
            order.append(x)
            stack.extend(vars(x).values())
        elif isinstance(x, (list, tuple, set, frozenset)):
            stack.extend(x)
        elif isinstance(x, dict):
            stack.extend(x.keys())
            stack.extend(x.values())
    return order


def observe():
    """(class name -> attr -> set of classifications, set of kinds carrying `comments`)"""
    from calmjs.parse import asttypes
    from calmjs.parse.parsers.es5 import parse
    Node = asttypes.Node
    obs = {}
    carriers = set()
    for text, wc in [(t, False) for t in PROBES] + [(t, True) for t in PROBES + COMMENT_PROBES]:
        tree = parse(text, with_comments=wc)
        for n in reach(tree, Node):
            name = type(n).__name__
            d = obs.setdefault(name, {})
            for k, v in vars(n).items():
                if k.startswith('_') and k != '_children_list':
                    if _contains_node(v, Node):
                        raise ValueError('private attribute %s.%s holds a node' % (name, k))
                    continue
                c = _classify(v, Node)
                if k == COMMENTS_ATTR:
                    if c not in ('none', 'node'):
                        raise ValueError('comments attribute of %s has shape %s' % (name, c))
                    carriers.add(name)
                    continue
                d.setdefault(attr_name(k), set()).add(c)
    return obs, carriers


def shape_of(cls_name, attr, seen):
    s = set(seen)
    if 'mixed' in s:
        raise ValueError('%s.%s: mixed node/scalar container, not expressible' % (cls_name, attr))
    if s <= {'node', 'none'} and 'node' in s:
        return 'node'
    if s == {'nodeList'}:
        return 'nodeList'
    if s <= {'scalar', 'none'}:
        return 'scalar'
    raise ValueError('%s.%s: observed shapes %s not expressible' % (cls_name, attr, sorted(s)))


class _Fresh(object):
    def __init__(self, asttypes):
        self.asttypes = asttypes
        self.n = 0

    def node(self):
        self.n += 1
        return self.asttypes.Identifier('s%d' % self.n)


def _instantiate(cls, shapes, nullable, absent, empty, fresh):
    """build cls with sentinels; `absent` = node attrs given None, `empty` = list attrs given []"""
    sig = inspect.signature(cls.__init__)
    kw = {}
    for pname, p in list(sig.parameters.items())[1:]:
        if p.kind in (p.VAR_POSITIONAL, p.VAR_KEYWORD):
            raise ValueError('%s.__init__ has *args/**kw' % cls.__name__)
        sh = shapes.get(pname)
        if sh is None and p.default is not p.empty:
            continue                    # not stored (e.g. UnaryExpr.postfix): leave the default
        if sh is None:
            raise ValueError('%s.__init__ parameter %r is not stored under that name; shape unknown'
                             % (cls.__name__, pname))
        if sh == 'node':
            kw[pname] = None if pname in absent else fresh.node()
        elif sh == 'nodeList':
            kw[pname] = [] if pname in empty else [fresh.node(), fresh.node()]
        else:
            kw[pname] = 'null'          # accepted by every scalar parameter (Null asserts it)
    return cls(**kw)


def _interpret(recipe, stored):
    out = []
    for kind, a in recipe:
        v = stored[a]
        if kind == 'one':
            out.append(v)
        else:
            if not isinstance(v, list):
                raise ValueError('many over non-list')
            out.extend(v)
    return out


def _same(xs, ys):
    return len(xs) == len(ys) and all(x is y for x, y in zip(xs, ys))


def recipe_of(cls, shapes, nullable, asttypes):
    fresh = _Fresh(asttypes)
    inst = _instantiate(cls, shapes, nullable, (), (), fresh)
    stored = dict(public_vars(inst))
    got = inst.children()
    if not isinstance(got, list):
        raise ValueError('%s.children() returned %r, not a list' % (cls.__name__, type(got)))
    by_id = {}
    for a, v in stored.items():
        if isinstance(v, asttypes.Node):
            by_id[id(v)] = ('one', a)
        elif isinstance(v, list):
            for x in v:
                by_id[id(x)] = ('many', a)
    recipe = []
    i = 0
    while i < len(got):
        c = got[i]
        ent = by_id.get(id(c))
        if ent is None:
            raise ValueError('%s.children() yields %r which no attribute stores' % (cls.__name__, c))
        if ent[0] == 'one':
            recipe.append(ent)
            i += 1
        else:
            lst = stored[ent[1]]
            if not _same(got[i:i + len(lst)], lst):
                raise ValueError('%s.children() does not splice list attribute %s whole' % (cls.__name__, ent[1]))
            recipe.append(ent)
            i += len(lst)
    # replay with optional parts absent / lists empty
    nodes = sorted(a for a, s in shapes.items() if s == 'node')
    lists = sorted(a for a, s in shapes.items() if s == 'nodeList')
    params = [p for p in list(inspect.signature(cls.__init__).parameters)[1:]]
    opt_nodes = [a for a in nodes if a in params]
    opt_lists = [a for a in lists if a in params]
    exact = True
    for k in range(len(opt_nodes) + 1):
        for absent in itertools.combinations(opt_nodes, k):
            for m in range(len(opt_lists) + 1):
                for empty in itertools.combinations(opt_lists, m):
                    inst = _instantiate(cls, shapes, nullable, absent, empty, fresh)
                    st = dict(public_vars(inst))
                    real = inst.children()
                    want = _interpret(recipe, st)
                    if _same(real, want):
                        continue
                    if _same([c for c in real if c is not None], [c for c in want if c is not None]):
                        exact = False      # differs only in None entries, which __iter__ drops
                        continue
                    raise ValueError('%s.children() with %s absent, %s empty is not the recipe %s'
                                     % (cls.__name__, absent, empty, recipe))
    return recipe, sorted(stored), exact


def table():
    from calmjs.parse import asttypes
    from calmjs.parse.parsers import es5
    Node = asttypes.Node
    classes = sorted((c for c in vars(asttypes).values()
                      if isinstance(c, type) and issubclass(c, Node)), key=lambda c: c.__name__)
    names = [c.__name__ for c in classes]
    if len(set(names)) != len(names):
        raise ValueError('duplicate class names')
    # the classes the parser instantiates
    fac = es5.asttypes
    for c in classes:
        f = getattr(fac, c.__name__)
        if not issubclass(f, c) or f.__name__ != c.__name__:
            raise ValueError('factory class %r is not a subclass of asttypes.%s' % (f, c.__name__))
        if f.children is not c.children or f.__iter__ is not c.__iter__ or f.__init__ is not c.__init__:
            raise ValueError('factory class %s overrides children/__iter__/__init__' % c.__name__)
    if Node.comments is not None:
        raise ValueError('Node.comments class default is not None')
    obs, carriers = observe()
    for k in obs:
        if k not in names:
            raise ValueError('parser built a node of class %s unknown to asttypes' % k)
    rows = []
    for c in classes:
        name = c.__name__
        seen = obs.get(name)
        built = seen is not None
        if seen is None:
            subs = [s for s in classes if s is not c and issubclass(s, c) and s.__name__ in obs]
            if not subs:
                raise ValueError('class %s (and every subclass) is never built by the probe programs; '
                                 'extend PROBES' % name)
            # attributes the class itself stores: instantiate to see, shapes from the subclasses
            params = list(inspect.signature(c.__init__).parameters)[1:]
            merged = {}
            for s in subs:
                for a, cs in obs[s.__name__].items():
                    if a in params:
                        merged.setdefault(a, set()).update(cs)
            seen = merged
        shapes = dict((a, shape_of(name, a, cs)) for a, cs in seen.items())
        nullable = set(a for a, cs in seen.items() if 'none' in cs)
        recipe, stored, exact = recipe_of(c, shapes, nullable, asttypes)
        # vars() of an instance built through the constructor vs. what the parser was seen to store
        pub = [a for a in stored if a != COMMENTS_ATTR]
        missing = [a for a in pub if a not in shapes]
        if missing:
            raise ValueError('%s stores %s, never observed from the parser' % (name, missing))
        if built:
            extra = [a for a in shapes if a not in pub and a not in ('lexpos', 'lineno', 'colno', 'sourcepath')]
            if extra:
                raise ValueError('parser stores %s on %s which the constructor does not' % (extra, name))
        attrs = [(a, shapes[a]) for a in sorted(pub)]
        rows.append(dict(kind=name, attrs=attrs, recipe=recipe, built=built, exact=exact))
    return rows, sorted(carriers)


def generate():
    rows, carriers = table()
    L = []
    L.append('namespace CalmVerif.Gen.Children\n')
    L.append('/-- what an attribute of a node can hold: a node (or None), a list of nodes, anything else -/')
    L.append('inductive Shape where | node | nodeList | scalar deriving DecidableEq, Repr\n')
    L.append('/-- one summand of `children()`: `[self.a]` or `self.a` (a list) -/')
    L.append('inductive Item where | one (a : String) | many (a : String) deriving DecidableEq, Repr\n')
    L.append('structure Row where\n  kind : String\n  attrs : List (String × Shape)\n  recipe : List Item\n  deriving Repr\n')
    L.append('/-- class-level attribute every node may carry (Node.comments, set by set_comments) -/')
    L.append('def commentsAttr : String := %s\n' % lean_str(COMMENTS_ATTR))
    L.append('/-- kinds seen carrying a `comments` entry in vars() when parsing with_comments=True -/')
    L.append('def commentCarriers : List String := %s\n' % lean_list([lean_str(c) for c in carriers]))
    names = []
    for r in rows:
        nm = 'row_' + r['kind']
        names.append(nm)
        attrs = lean_list(['(%s, .%s)' % (lean_str(a), s) for a, s in r['attrs']])
        rec = lean_list(['.%s %s' % (k, lean_str(a)) for k, a in r['recipe']])
        L.append('/-- built by the parser: %s; recipe exact incl. None entries: %s -/' % (
            str(r['built']).lower(), str(r['exact']).lower()))
        L.append('def %s : Row := { kind := %s, attrs := %s, recipe := %s }' % (nm, lean_str(r['kind']), attrs, rec))
    L.append('')
    L.append('def table : List Row := %s\n' % lean_list(names))
    L.append('end CalmVerif.Gen.Children\n')
    return {'CalmVerif/Gen/Children.lean': '\n'.join(L)}
