"""
Translator module: Unicode general-category tables needed by the ES5.1 reference lexer
(lean/CalmVerif/Spec/UnicodeCat.lean).

Source of the data: Python's `unicodedata` (NOT calmjs).  ECMA-262 5.1 clause 6 defines source
text as a sequence of 16-bit code units and clause 7.6 classifies *code units* by Unicode category,
so a supplementary character (two surrogate code units, category Cs) is never a UnicodeLetter;
the identifier tables therefore cover the BMP only.

  idStart     Lu Ll Lt Lm Lo Nl                (7.6 UnicodeLetter)
  idContinue  Mn Mc Nd Pc                      (7.6 UnicodeCombiningMark, UnicodeDigit, UnicodeConnectorPunctuation)
  zs          Zs                               (7.2 <USP>)

Representation: sorted, disjoint, non-adjacent (lo, hi) pairs of Nat, at most 200 per definition.
"""
import unicodedata

CHUNK = 200
BMP_MAX = 0xFFFF


def ranges(cats, limit=BMP_MAX):
    out = []
    start = None
    prev = None
    for cp in range(0, limit + 1):
        if unicodedata.category(chr(cp)) in cats:
            if start is None:
                start = cp
            prev = cp
        else:
            if start is not None:
                out.append((start, prev))
                start = None
    if start is not None:
        out.append((start, prev))
    return out


def emit(name, rs, doc):
    lines = []
    chunks = [rs[i:i + CHUNK] for i in range(0, len(rs), CHUNK)] or [[]]
    names = []
    for i, ch in enumerate(chunks):
        n = '%s%d' % (name, i)
        names.append(n)
        body = ', '.join('(0x%x, 0x%x)' % r for r in ch)
        lines.append('def %s : List (Nat × Nat) := [%s]' % (n, body))
    lines.append('/-- %s (%d ranges) -/' % (doc, len(rs)))
    lines.append('def %sChunks : List (List (Nat × Nat)) := [%s]' % (name, ', '.join(names)))
    return '\n'.join(lines) + '\n'


def generate():
    id_start = ranges(('Lu', 'Ll', 'Lt', 'Lm', 'Lo', 'Nl'))
    id_cont = ranges(('Mn', 'Mc', 'Nd', 'Pc'))
    zs = ranges(('Zs',), 0x10FFFF)
    for rs in (id_start, id_cont, zs):
        assert rs == sorted(rs)
        for (a, b), (c, d) in zip(rs, rs[1:]):
            assert a <= b < c - 1 and c <= d
    text = '''/-
Unicode general categories used by ECMA-262 5.1 clause 7 (reference lexer).
Data: Python unicodedata, Unicode %s; BMP only for the identifier classes (ES5.1 clause 6:
source characters are 16-bit code units, so a supplementary character is a pair of Cs units).
-/
namespace CalmVerif.Spec.UnicodeCat

def unicodeVersion : String := "%s"

''' % (unicodedata.unidata_version, unicodedata.unidata_version)
    text += emit('idStart', id_start, 'Lu Ll Lt Lm Lo Nl') + '\n'
    text += emit('idContinue', id_cont, 'Mn Mc Nd Pc') + '\n'
    text += emit('zs', zs, 'Zs') + '\n'
    text += '''/-- membership in a sorted list of inclusive ranges (stops at the first range above `n`) -/
def inRanges : List (Nat × Nat) → Nat → Bool
  | [], _ => false
  | (lo, hi) :: rest, n => if n < lo then false else if n ≤ hi then true else inRanges rest n

def inChunks : List (List (Nat × Nat)) → Nat → Bool
  | [], _ => false
  | ch :: rest, n => inRanges ch n || inChunks rest n

/-- category ∈ {Lu, Ll, Lt, Lm, Lo, Nl} -/
def isLetter (n : Nat) : Bool := inChunks idStartChunks n
/-- category ∈ {Mn, Mc, Nd, Pc} -/
def isContinueExtra (n : Nat) : Bool := inChunks idContinueChunks n
/-- category Zs -/
def isZs (n : Nat) : Bool := inChunks zsChunks n

end CalmVerif.Spec.UnicodeCat
'''
    return {'CalmVerif/Spec/UnicodeCat.lean': text}
