"""
Translator for calmjs.parse.vlq: reflects the *values* of the module constants
of the imported scratch copy into lean/CalmVerif/Gen/Vlq.lean.

  INT_B64        str                -> List Char
  B64_INT        dict str -> int    -> List (Char x Nat), sorted by (value, key)
                                       (a dict has unique keys, so the order
                                       carries no meaning; sorting by value makes
                                       the inverse of the alphabet come out in
                                       alphabet order)
  VLQ_MULTI_CHAR, VLQ_SHIFT, VLQ_CONT, VLQ_CONT_MASK, VLQ_BASE_MASK   -> Nat

The model (Model/Vlq.lean) does all arithmetic on natural numbers, which is
only sound if every constant is a non-negative `int`; any other shape is a
translator failure (raise), never skipped or coerced.
"""
from gen.extract import lean_char


class TranslatorError(Exception):
    pass


def _nat(name, v):
    # bool is a subclass of int; reject it, the code does arithmetic on these
    if type(v) is not int or v < 0:
        raise TranslatorError('vlq.%s: expected a non-negative int, got %r' % (name, v))
    return v


def _char(name, c):
    if type(c) is not str or len(c) != 1:
        raise TranslatorError('vlq.%s: expected a 1-character str, got %r' % (name, c))
    if 0xD800 <= ord(c) <= 0xDFFF:
        raise TranslatorError('vlq.%s: lone surrogate %r is outside the model' % (name, c))
    return c


def _chunks(items, n=8):
    rows = [', '.join(items[i:i + n]) for i in range(0, len(items), n)]
    return '[\n  ' + ',\n  '.join(rows) + ']' if rows else '[]'


def generate():
    from calmjs.parse import vlq

    if type(vlq.INT_B64) is not str:
        raise TranslatorError('vlq.INT_B64: expected str, got %r' % (type(vlq.INT_B64),))
    alphabet = [_char('INT_B64', c) for c in vlq.INT_B64]

    if type(vlq.B64_INT) is not dict:
        raise TranslatorError('vlq.B64_INT: expected dict, got %r' % (type(vlq.B64_INT),))
    table = sorted(
        ((_nat('B64_INT[%r]' % (k,), v), _char('B64_INT key', k)) for k, v in vlq.B64_INT.items()),
        key=lambda p: (p[0], ord(p[1])))

    names = ['VLQ_MULTI_CHAR', 'VLQ_SHIFT', 'VLQ_CONT', 'VLQ_CONT_MASK', 'VLQ_BASE_MASK']
    consts = [(n, _nat(n, getattr(vlq, n))) for n in names]

    out = []
    out.append('/- values of calmjs.parse.vlq module attributes -/')
    out.append('namespace CalmVerif.Gen.Vlq')
    out.append('')
    out.append('/-- `vlq.INT_B64` (a str), character by character -/')
    out.append('def INT_B64 : List Char := ' + _chunks([lean_char(c) for c in alphabet]))
    out.append('')
    out.append('/-- `vlq.B64_INT` (a dict), items sorted by (value, key) -/')
    out.append('def B64_INT : List (Char × Nat) := ' + _chunks(
        ['(%s, %d)' % (lean_char(c), v) for v, c in table], 6))
    out.append('')
    for n, v in consts:
        out.append('def %s : Nat := %d' % (n, v))
    out.append('')
    out.append('end CalmVerif.Gen.Vlq')
    return {'CalmVerif/Gen/Vlq.lean': '\n'.join(out) + '\n'}
