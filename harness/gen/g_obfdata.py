"""
Translator for Gen.ObfData: the data of calmjs.parse.handlers.obfuscation the obfuscation model reads,
reflected from *values* of the imported implementation.

  idChars               obfuscation.ID_CHARS
  charset               the default `charset` argument of NameGenerator.__init__ (what Obfuscator.finalize uses:
                        `NameGenerator(skip=self.reserved_keywords)`)
  reservedKeywords      the `reserved_keywords` es5.minify_printer(obfuscate=True, ...) hands to its Obfuscator
                        (found on the Obfuscator instance bound in the rule's handlers), sorted; must not depend on
                        the other flags
  rulesObfuscateReserved  the same for rules.obfuscate() with defaults
  defaultObfuscateGlobals / defaultShadowFuncname   defaults of rules.obfuscate / minify_printer (must agree)
  prewalk wiring        the keyword arguments Obfuscator.walk gives its private Dispatcher, captured by running
                        `walk` with obfuscation.Dispatcher replaced by a recorder: token handler (must be None),
                        layout_handlers (Structure marker -> Obfuscator method name) for shadow_funcname False/True,
                        deferrable_handlers (Declare / Resolve -> method name); `definitions` must be the
                        dispatcher's own definitions
  finalize wiring       probed: Obfuscator.finalize closes the global scope and calls
                        build_remap_symbols(children_only = not obfuscate_globals) (observed on a recorder scope)

A value of unknown shape raises (translator failure).
"""
import inspect

from gen.extract import lean_str, lean_list, lean_char
from gen.g_defs import marker_of


class TranslatorError(Exception):
    pass


OBF_METHODS = ('push_scope', 'pop_scope', 'push_catch', 'declare', 'register_reference', 'shadow_reference')


def _chars(name, s):
    if type(s) is not str:
        raise TranslatorError('%s: expected str, got %r' % (name, type(s)))
    for c in s:
        if 0xD800 <= ord(c) <= 0xDFFF:
            raise TranslatorError('%s: lone surrogate' % name)
    return s


def _strs(name, xs):
    out = []
    for x in xs:
        if type(x) is not str:
            raise TranslatorError('%s: expected str entries, got %r' % (name, x))
        out.append(x)
    if len(set(out)) != len(out):
        raise TranslatorError('%s: duplicates' % name)
    return sorted(out)


def _obfuscator_of(printer):
    """the Obfuscator instance behind a printer's rules (through setup())"""
    from calmjs.parse.handlers.obfuscation import Obfuscator
    from calmjs.parse.ruletypes import Resolve
    th, lh, dh, hooks = printer.setup()
    h = dh.get(Resolve)
    inst = getattr(h, '__self__', None)
    if type(inst) is not Obfuscator or h.__func__ is not vars(Obfuscator)['resolve']:
        raise TranslatorError('Resolve handler is not Obfuscator.resolve: %r' % (h,))
    if len(hooks) != 1 or getattr(hooks[0], '__self__', None) is not inst or \
            hooks[0].__func__ is not vars(Obfuscator)['prewalk_hook']:
        raise TranslatorError('prewalk hooks are not [Obfuscator.prewalk_hook]: %r' % (hooks,))
    return inst


def _method_name(inst, h):
    from calmjs.parse.handlers.obfuscation import Obfuscator
    f = getattr(h, '__func__', None)
    if getattr(h, '__self__', None) is not inst or f is None:
        raise TranslatorError('prewalk handler is not a bound method of the Obfuscator: %r' % (h,))
    for n in OBF_METHODS:
        if vars(Obfuscator).get(n) is f:
            return n
    raise TranslatorError('unknown Obfuscator method %r' % (h,))


def _wiring(shadow):
    """kwargs of the Dispatcher built inside Obfuscator.walk"""
    from calmjs.parse.handlers import obfuscation
    from calmjs.parse import ruletypes as rt
    from calmjs.parse.unparsers import es5
    from calmjs.parse.unparsers.walker import Dispatcher
    from calmjs.parse import asttypes
    seen = []
    real = obfuscation.Dispatcher

    class Recorder(real):
        def __init__(self, *a, **kw):
            if a:
                raise TranslatorError('Obfuscator.walk builds its Dispatcher with positional arguments')
            seen.append(kw)
            real.__init__(self, **kw)
    inst = obfuscation.Obfuscator(shadow_funcname=shadow)
    outer = Dispatcher(es5.definitions, None, {}, {})
    obfuscation.Dispatcher = Recorder
    try:
        inst.walk(outer, asttypes.ES5Program([]))
    finally:
        obfuscation.Dispatcher = real
    if len(seen) != 1:
        raise TranslatorError('Obfuscator.walk built %d dispatchers' % len(seen))
    kw = seen[0]
    if sorted(kw) != ['deferrable_handlers', 'definitions', 'layout_handlers', 'token_handler']:
        raise TranslatorError('unexpected Dispatcher arguments %r' % sorted(kw))
    if kw['token_handler'] is not None:
        raise TranslatorError('prewalk token handler is not None')
    if dict(kw['definitions']) != dict(outer):
        raise TranslatorError('prewalk definitions differ from the dispatcher definitions')
    layout = []
    for cls, h in kw['layout_handlers'].items():
        kind, name = marker_of(cls)
        if kind != 'struct':
            raise TranslatorError('prewalk handles the Format marker %s' % name)
        layout.append((name, _method_name(inst, h)))
    defer = []
    for cls, h in kw['deferrable_handlers'].items():
        if cls is rt.Declare:
            defer.append(('declare', _method_name(inst, h)))
        elif cls is rt.Resolve:
            defer.append(('resolve', _method_name(inst, h)))
        else:
            raise TranslatorError('prewalk handles the deferrable %r' % (cls,))
    return sorted(layout), sorted(defer)


def _finalize_probe(og):
    """what finalize does to the global scope: ('close', ('build', children_only))"""
    from calmjs.parse.handlers import obfuscation
    calls = []

    class Rec(object):
        def close(self):
            calls.append('close')

        def build_remap_symbols(self, name_generator, children_only=True):
            if type(name_generator) is not obfuscation.NameGenerator:
                raise TranslatorError('finalize: name generator %r' % (name_generator,))
            calls.append(('build', children_only, sorted(name_generator.skip), name_generator.charset))
    inst = obfuscation.Obfuscator(obfuscate_globals=og, reserved_keywords=('kw1', 'kw2'))
    inst.global_scope = Rec()
    inst.finalize()
    if calls != ['close', ('build', (not og), ['kw1', 'kw2'],
                           inspect.signature(obfuscation.NameGenerator.__init__).parameters['charset'].default)]:
        raise TranslatorError('Obfuscator.finalize does something unknown: %r' % (calls,))


def generate():
    from calmjs.parse.handlers import obfuscation
    from calmjs.parse.unparsers import es5
    from calmjs.parse import rules

    id_chars = _chars('ID_CHARS', obfuscation.ID_CHARS)
    charset = _chars('NameGenerator charset',
                     inspect.signature(obfuscation.NameGenerator.__init__).parameters['charset'].default)

    reserved = None
    for og in (False, True):
        for sf in (False, True):
            for ds in (False, True):
                inst = _obfuscator_of(es5.minify_printer(obfuscate=True, obfuscate_globals=og, shadow_funcname=sf,
                                                         drop_semi=ds))
                if (inst.obfuscate_globals, inst.shadow_funcname) != (og, sf):
                    raise TranslatorError('minify_printer does not pass the flags through')
                r = _strs('reserved_keywords', list(inst.reserved_keywords))
                if reserved is None:
                    reserved = r
                elif r != reserved:
                    raise TranslatorError('reserved keywords depend on the printer flags')
    inst0 = _obfuscator_of(es5.Unparser(rules=(rules.obfuscate(),)))
    reserved0 = _strs('rules.obfuscate() reserved_keywords', list(inst0.reserved_keywords))
    dflt = (inst0.obfuscate_globals, inst0.shadow_funcname)
    instm = _obfuscator_of(es5.minify_printer(obfuscate=True))
    if (instm.obfuscate_globals, instm.shadow_funcname) != dflt or any(type(x) is not bool for x in dflt):
        raise TranslatorError('defaults of rules.obfuscate and minify_printer differ')

    lay0, def0 = _wiring(False)
    lay1, def1 = _wiring(True)
    if def0 != def1:
        raise TranslatorError('prewalk deferrable handlers depend on shadow_funcname')
    _finalize_probe(False)
    _finalize_probe(True)

    def pairs(ps):
        return lean_list('(.%s, %s)' % (m, lean_str(n)) for m, n in ps)

    out = []
    out.append('import CalmVerif.Model.UnparseTypes')
    out.append('namespace CalmVerif.Gen.ObfData')
    out.append('open CalmVerif CalmVerif.Unparse')
    out.append('')
    out.append('/-- obfuscation.ID_CHARS -/')
    out.append('def idChars : List Char := %s' % lean_list(lean_char(c) for c in id_chars))
    out.append('/-- default `charset` of NameGenerator (used by Obfuscator.finalize) -/')
    out.append('def charset : List Char := %s' % lean_list(lean_char(c) for c in charset))
    out.append('')
    out.append('/-- reserved_keywords minify_printer(obfuscate=True, …) gives its Obfuscator (Lexer.keywords_dict keys), sorted -/')
    out.append('def reservedKeywords : List String := %s' % lean_list(lean_str(s) for s in reserved))
    out.append('/-- reserved_keywords of rules.obfuscate() with default arguments -/')
    out.append('def rulesObfuscateReserved : List String := %s' % lean_list(lean_str(s) for s in reserved0))
    out.append('def defaultObfuscateGlobals : Bool := %s' % ('true' if dflt[0] else 'false'))
    out.append('def defaultShadowFuncname : Bool := %s' % ('true' if dflt[1] else 'false'))
    out.append('')
    out.append('/-- layout_handlers of the Dispatcher built by Obfuscator.walk (Structure marker ↦ Obfuscator method), '
               'shadow_funcname = False / True -/')
    out.append('def prewalkStruct : List (Marker × String) := %s' % pairs(lay0))
    out.append('def prewalkStructShadow : List (Marker × String) := %s' % pairs(lay1))
    out.append('/-- deferrable_handlers of that Dispatcher -/')
    out.append('def prewalkDeferrable : List (DeferKind × String) := %s' % pairs(def0))
    out.append('')
    out.append('end CalmVerif.Gen.ObfData')
    return {'CalmVerif/Gen/ObfData.lean': '\n'.join(out) + '\n'}
