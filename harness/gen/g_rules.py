"""
Translator for Gen.Rules: every rule set a user can build, as BaseUnparser.setup() resolves it,
plus the data the handlers of handlers.core read.

Rule sets (each built by CALLING the rule factories / printer constructors and `setup()`;
function objects are mapped to handler ids by identity against handlers.core / the
Indentator and Obfuscator methods):

  none          Unparser(rules=())
  default       Unparser()                                   (must equal rules.default())
  minimum       Unparser(rules=(rules.minimum(),))
  indent        Unparser(rules=(rules.indent(s),)) for several s — the table must not depend on s,
                the Indentator must receive s; pretty_printer(s) must give the same table
  minify0/1     Unparser(rules=(rules.minify(drop_semi),)); minify_printer(drop_semi=…) must agree
  obfuscate     Unparser(rules=(rules.obfuscate(),))
  minify0_obf/minify1_obf   minify_printer(obfuscate=True, drop_semi=…)
  indent_obf    Unparser(rules=(rules.indent(s), rules.obfuscate()))

Handler data: assignment_tokens, optional_rhs_space_tokens, space_imply / space_drop,
Dispatcher defaults (indent_str, newline_str), the classes `layout_handler_space_optional_pretty`
treats as statement headers (probed by calling the handler), PATT_LINE_CONTINUATION (probed on every
code point), and `required_space` as a truth table over character classes (every code point
U+0000–U+10FFFF except surrogates is classified by what the compiled regex DOES on it).
"""
import random

from gen.extract import lean_str, lean_list
from gen.g_defs import marker_of, lean_opt_str

HANDLERS = {
    'rule_handler_noop': 'noop',
    'layout_handler_semicolon': 'semicolon',
    'layout_handler_semicolon_optional': 'semicolonOptional',
    'layout_handler_openbrace': 'openbrace',
    'layout_handler_closebrace': 'closebrace',
    'layout_handler_space_imply': 'spaceImply',
    'layout_handler_space_drop': 'spaceDrop',
    'layout_handler_newline_simple': 'newlineSimple',
    'layout_handler_newline_optional_pretty': 'newlineOptionalPretty',
    'layout_handler_space_optional_pretty': 'spaceOptionalPretty',
    'layout_handler_space_minimum': 'spaceMinimum',
}
IND_METHODS = {
    'layout_handler_indent': 'indIndent',
    'layout_handler_dedent': 'indDedent',
    'layout_handler_newline': 'indNewline',
    'layout_handler_newline_optional': 'indNewlineOptional',
}


class Mapper(object):
    def __init__(self):
        from calmjs.parse.handlers import core, indentation, obfuscation
        self.core = core
        self.Indentator = indentation.Indentator
        self.Obfuscator = obfuscation.Obfuscator
        self.by_id = {}
        for pyname, lid in HANDLERS.items():
            self.by_id[id(getattr(core, pyname))] = lid
        self.indentators = []

    def layout_handler(self, h):
        """-> lean `Option HandlerId` term"""
        if h is NotImplemented:
            return 'none'
        if id(h) in self.by_id and getattr(self.core, h.__name__, None) is h:
            return '(some .%s)' % self.by_id[id(h)]
        f = getattr(h, '__func__', None)
        s = getattr(h, '__self__', None)
        if f is not None and type(s) is self.Indentator:
            for pyname, lid in IND_METHODS.items():
                if f is vars(self.Indentator)[pyname]:
                    if all(s is not x for x in self.indentators):
                        self.indentators.append(s)
                    return '(some .%s)' % lid
        raise ValueError('unknown layout handler %r' % (h,))

    def token_handler(self, h):
        if h is self.core.token_handler_str_default:
            return '.strDefault'
        if h is self.core.token_handler_unobfuscate:
            return '.unobfuscate'
        raise ValueError('unknown token handler %r' % (h,))

    def deferrable(self, cls, h):
        from calmjs.parse import ruletypes as rt
        kinds = {rt.Iter: 'iter', rt.Declare: 'declare', rt.Resolve: 'resolve', rt.Literal: 'literal',
                 rt.LineComment: 'lineComment', rt.BlockComment: 'blockComment'}
        if cls not in kinds:
            raise ValueError('unknown deferrable key %r' % (cls,))
        if h is self.core.deferrable_handler_literal_continuation:
            hid = 'literalContinuation'
        elif h is self.core.deferrable_handler_comment:
            hid = 'comment'
        elif getattr(h, '__func__', None) is vars(self.Obfuscator)['resolve'] and type(h.__self__) is self.Obfuscator:
            hid = 'obfResolve'
        else:
            raise ValueError('unknown deferrable handler %r' % (h,))
        # which handler makes sense for which key is the model's business; record what is there
        return kinds[cls], '(.%s, .%s)' % (kinds[cls], hid)

    def prewalk(self, h):
        if getattr(h, '__func__', None) is vars(self.Obfuscator)['prewalk_hook'] and type(h.__self__) is self.Obfuscator:
            return '.obfPrewalk'
        raise ValueError('unknown prewalk hook %r' % (h,))


def key_of(k):
    """layout table key -> (sort key, lean LKey term)"""
    if isinstance(k, tuple):
        parts = [key_of(x) for x in k]
        return ('(' + ','.join(p[0] for p in parts) + ')',
                '(LKey.tuple %s)' % lean_list([p[1] for p in parts]))
    kind, name = marker_of(k)
    return (name, '(LKey.single .%s)' % name)


def table_of(unparser, mapper):
    """setup() of one unparser -> canonical dict"""
    token_handler, layout, deferrable, prewalk = unparser.setup()
    n0 = len(mapper.indentators)
    rows = []
    for k, h in layout.items():
        sk, lk = key_of(k)
        hv = mapper.layout_handler(h)
        if not isinstance(k, tuple) and hv == 'none':
            # optimize_definition would wrap NotImplemented as a handler and the walk would call it
            raise ValueError('single marker %s mapped to NotImplemented' % sk)
        rows.append((sk, '(%s, %s)' % (lk, hv)))
    rows.sort()
    new_ind = mapper.indentators[n0:]
    if len(new_ind) > 1:
        raise ValueError('one rule set uses several Indentator instances')
    defer = sorted(mapper.deferrable(c, h) for c, h in deferrable.items())
    return dict(
        layout=[r[1] for r in rows], layout_keys=[r[0] for r in rows],
        deferrable=[d[1] for d in defer],
        token=mapper.token_handler(token_handler),
        prewalk=[mapper.prewalk(h) for h in prewalk],
        indentator=new_ind[0] if new_ind else None,
    )


def same(a, b):
    return all(a[k] == b[k] for k in ('layout', 'deferrable', 'token', 'prewalk')) and (
        (a['indentator'] is None) == (b['indentator'] is None))


def rule_sets():
    from calmjs.parse import rules
    from calmjs.parse.unparsers import es5
    U = es5.Unparser
    mp = Mapper()
    out = []

    def add(name, t):
        out.append((name, t))

    add('none', table_of(U(rules=()), mp))
    d = table_of(U(), mp)
    if not same(d, table_of(U(rules=(rules.default(),)), mp)):
        raise ValueError('Unparser() is not the default rule set')
    add('default', d)
    add('minimum', table_of(U(rules=(rules.minimum(),)), mp))
    base = None
    for s in (None, '', ' ', '    ', '\t', 'xy'):
        t = table_of(U(rules=(rules.indent(indent_str=s),)), mp)
        if t['indentator'] is None or t['indentator'].indent_str != s or t['indentator']._level != 0:
            raise ValueError('rules.indent(%r) does not hand the string to a fresh Indentator' % (s,))
        if base is None:
            base = t
        elif not same(base, t):
            raise ValueError('the indent rule set depends on the indent string')
        if s is not None:
            p = table_of(es5.pretty_printer(indent_str=s), mp)
            if not same(base, p) or p['indentator'].indent_str != s:
                raise ValueError('pretty_printer(%r) is not rules.indent(%r)' % (s, s))
    import inspect
    dflt = inspect.signature(es5.pretty_printer).parameters['indent_str'].default
    p = table_of(es5.pretty_printer(), mp)
    if not same(base, p) or p['indentator'].indent_str != dflt:
        raise ValueError('pretty_printer() default')
    dflt2 = inspect.signature(es5.pretty_print).parameters['indent_str'].default
    add('indent', base)
    for b in (False, True):
        t = table_of(U(rules=(rules.minify(drop_semi=b),)), mp)
        if not same(t, table_of(es5.minify_printer(drop_semi=b), mp)):
            raise ValueError('minify_printer(drop_semi=%r) is not rules.minify' % b)
        add('minify%d' % b, t)
    if not same(out[-2][1], table_of(es5.minify_printer(), mp)):
        raise ValueError('minify_printer() default is not drop_semi=False')
    if not same(out[-1][1], table_of(U(rules=(rules.minify(),)), mp)):
        raise ValueError('rules.minify() default is not drop_semi=True')
    add('obfuscate', table_of(U(rules=(rules.obfuscate(),)), mp))
    for b in (False, True):
        t = table_of(es5.minify_printer(obfuscate=True, drop_semi=b), mp)
        for og in (False, True):
            for sf in (False, True):
                t2 = table_of(es5.minify_printer(obfuscate=True, obfuscate_globals=og, shadow_funcname=sf, drop_semi=b), mp)
                if not same(t, t2):
                    raise ValueError('obfuscation flags change the tables')
        add('minify%d_obf' % b, t)
    add('indent_obf', table_of(U(rules=(rules.indent('  '), rules.obfuscate())), mp))
    return out, dict(pretty_printer_default=dflt, pretty_print_default=dflt2)


# ---------------------------------------------------------------- handler data

def all_code_points():
    for c in range(0x110000):
        if 0xD800 <= c < 0xE000:
            continue
        yield c


def ranges(cps):
    out = []
    for c in cps:
        if out and out[-1][1] == c - 1:
            out[-1][1] = c
        else:
            out.append([c, c])
    return out


def required_space_table():
    from calmjs.parse.handlers import core
    m = core.required_space.match
    if m('') is not None:
        raise ValueError('required_space matches the empty string')
    classes = {}
    for c in all_code_points():
        ch = chr(c)
        if m(ch) is not None:
            raise ValueError('required_space matches the single character U+%04X' % c)
        sig = (m(ch + 'a') is not None, m(ch + '$') is not None, m(ch + '+') is not None,
               m(ch + '-') is not None, m(ch + '!') is not None,
               m('a' + ch) is not None, m('$' + ch) is not None, m('+' + ch) is not None,
               m('-' + ch) is not None, m('!' + ch) is not None, m(ch + ch) is not None)
        lst = classes.get(sig)
        if lst is None:
            classes[sig] = [c]
        else:
            lst.append(c)
    # canonical order: by smallest member; the biggest class is the default (complement) class
    cl = sorted(classes.values(), key=lambda v: v[0])
    default = max(range(len(cl)), key=lambda i: len(cl[i]))
    reps = [v[0] for v in cl]
    table = [[m(chr(a) + chr(b)) is not None for b in reps] for a in reps]
    # the partition must be a congruence for the regex: validate on a deterministic sample of members
    rng = random.Random(20)
    sample = []
    for i, v in enumerate(cl):
        pick = set(v[:12] + v[-12:] + [rng.choice(v) for _ in range(24)])
        sample += [(i, c) for c in sorted(pick)]
    for i, a in sample:
        for j, b in sample:
            if (m(chr(a) + chr(b)) is not None) != table[i][j]:
                raise ValueError('required_space: classes by signature are not a congruence (U+%04X, U+%04X)' % (a, b))
    # three-character and longer strings never reach the handlers (s = before[-1:] + after[:1])
    return cl, default, table


def line_continuation():
    """PATT_LINE_CONTINUATION.sub('', s): which `\\` + c are removed, and whether `\\` CR LF goes as a unit"""
    from calmjs.parse.handlers import core
    patt = core.PATT_LINE_CONTINUATION
    sub = patt.sub
    single = []
    for c in all_code_points():
        r = sub('', '\\' + chr(c))
        if r == '':
            single.append(c)
        elif r != '\\' + chr(c):
            raise ValueError('PATT_LINE_CONTINUATION on backslash + U+%04X gives %r' % (c, r))
    pairs = []
    for a in single:
        for b in single:
            r = sub('', '\\' + chr(a) + chr(b))
            if r == '':
                pairs.append((a, b))
            elif r == '\\' + chr(a) + chr(b):
                # `\\` + a alone would have been removed: a negative look-ahead keeps it (e.g. CR before LF)
                pairs.append((a, b, 'keep'))
            elif r != chr(b):
                raise ValueError('PATT_LINE_CONTINUATION on %r gives %r' % ('\\' + chr(a) + chr(b), r))
    unit = sorted(p[:2] for p in pairs if len(p) == 2)
    keep = sorted(p[:2] for p in pairs if len(p) == 3)
    if keep:
        raise ValueError('PATT_LINE_CONTINUATION keeps %r' % (keep,))

    def model(s):
        out = []
        i = 0
        while i < len(s):
            if s[i] == '\\' and i + 1 < len(s):
                if i + 2 < len(s) and (ord(s[i + 1]), ord(s[i + 2])) in unit:
                    i += 3
                    continue
                if ord(s[i + 1]) in single:
                    i += 2
                    continue
            out.append(s[i])
            i += 1
        return ''.join(out)
    rng = random.Random(21)
    alphabet = ['\\', 'a', '"', ' '] + [chr(c) for c in single]
    for _ in range(4000):
        s = ''.join(rng.choice(alphabet) for _ in range(rng.randint(0, 9)))
        if model(s) != sub('', s):
            raise ValueError('PATT_LINE_CONTINUATION is not the modelled shape on %r' % s)
    return single, unit


def header_kinds():
    from calmjs.parse import asttypes
    from calmjs.parse.parsers import es5
    from calmjs.parse.handlers import core
    out = set()
    for mod in (asttypes, es5.asttypes):
        for k in dir(mod):
            c = getattr(mod, k)
            if isinstance(c, type) and issubclass(c, asttypes.Node):
                inst = c.__new__(c)
                got = list(core.layout_handler_space_optional_pretty(None, inst, None, 'x', None))
                if got == [core.space_imply]:
                    out.add(c.__name__)
                elif got:
                    raise ValueError('space_optional_pretty probe on %s gave %r' % (k, got))
    return sorted(out)


def indentator_probe():
    """what `Indentator(s)._generate_indents(dispatcher)` emits at level 1 for s = '' and s = None:
    does an EMPTY indent string fall back to the dispatcher's indent_str (as None does)?"""
    from calmjs.parse.handlers.indentation import Indentator
    from calmjs.parse.unparsers.walker import Dispatcher
    d = Dispatcher({}, None, {}, {}, indent_str='<D>')

    def at_level_1(s):
        inst = Indentator(s)
        inst.layout_handler_indent(d, None, None, None, None)
        return [f.text for f in inst._generate_indents(d)]
    if at_level_1(None) != ['<D>'] or at_level_1('xy') != ['xy']:
        raise ValueError('Indentator._generate_indents is not of the modelled shape')
    e = at_level_1('')
    if e == ['<D>']:
        return True
    if e == []:
        return False
    raise ValueError('Indentator(\'\') emits %r' % (e,))


def lean_frag(f):
    from calmjs.parse.ruletypes import StreamFragment

    def oi(x):
        if x is None:
            return 'none'
        if isinstance(x, bool) or not isinstance(x, int):
            raise ValueError('fragment position %r' % (x,))
        return '(some %d)' % x if x >= 0 else '(some (%d))' % x
    if type(f) is not StreamFragment or not isinstance(f.text, str):
        raise ValueError('not a StreamFragment: %r' % (f,))
    if f.source is None:
        src = '.none'
    elif f.source is NotImplemented:
        src = '.notImpl'
    elif isinstance(f.source, str):
        src = '(.path %s)' % lean_str(f.source)
    else:
        raise ValueError('fragment source %r' % (f.source,))
    return '{ text := %s, line := %s, col := %s, name := %s, source := %s }' % (
        lean_str(f.text), oi(f.lineno), oi(f.colno), lean_opt_str(f.name), src)


def generate():
    from calmjs.parse.handlers import core
    from calmjs.parse.unparsers.walker import Dispatcher
    sets, dflts = rule_sets()
    L = []
    L.append('import CalmVerif.Model.UnparseTypes')
    L.append('namespace CalmVerif.Gen.Rules')
    L.append('open CalmVerif CalmVerif.Unparse\n')
    for name, t in sets:
        L.append('/-- layout keys: %s -/' % ' '.join(t['layout_keys']))
        L.append('def rs_%s : RuleSet := {' % name)
        L.append('  name := %s,' % lean_str(name))
        L.append('  layout := %s,' % lean_list(t['layout']))
        L.append('  deferrable := %s,' % lean_list(t['deferrable']))
        L.append('  tokenHandler := %s,' % t['token'])
        L.append('  prewalk := %s,' % lean_list(t['prewalk']))
        L.append('  indentator := %s }\n' % ('true' if t['indentator'] is not None else 'false'))
    L.append('def ruleSets : List RuleSet := %s\n' % lean_list(['rs_' + n for n, _ in sets]))
    L.append('/-- default `indent_str` of es5.pretty_printer / es5.pretty_print -/')
    L.append('def prettyPrinterDefaultIndent : String := %s' % lean_str(dflts['pretty_printer_default']))
    L.append('def prettyPrintDefaultIndent : String := %s\n' % lean_str(dflts['pretty_print_default']))
    d = Dispatcher({}, None, {}, {})
    if not isinstance(d.indent_str, str) or not isinstance(d.newline_str, str):
        raise ValueError('Dispatcher defaults')
    L.append('/-- Dispatcher defaults (BaseUnparser.__call__ never overrides them) -/')
    L.append('def dispatcherIndentStr : String := %s' % lean_str(d.indent_str))
    L.append('def dispatcherNewlineStr : String := %s\n' % lean_str(d.newline_str))
    L.append('/-- Indentator(indent_str=\'\'): the empty string is falsy and the dispatcher\'s indent_str is used (probed) -/')
    L.append('def indentatorEmptyFallsBack : Bool := %s\n' % ('true' if indentator_probe() else 'false'))
    at = core.assignment_tokens
    if not all(isinstance(x, str) for x in at):
        raise ValueError('assignment_tokens')
    L.append('def assignmentTokens : List String := %s' % lean_list([lean_str(x) for x in sorted(at)]))
    ot = core.optional_rhs_space_tokens
    if not all(x is None or isinstance(x, str) for x in ot):
        raise ValueError('optional_rhs_space_tokens')
    L.append('def optionalRhsSpaceTokens : List (Option String) := %s' % lean_list(
        [lean_opt_str(x) for x in sorted(ot, key=lambda x: (x is not None, x or ''))]))
    L.append('def spaceImply : Frag := %s' % lean_frag(core.space_imply))
    L.append('def spaceDrop : Frag := %s' % lean_frag(core.space_drop))
    L.append('/-- classes for which layout_handler_space_optional_pretty takes its header branch (probed) -/')
    L.append('def headerKinds : List String := %s\n' % lean_list([lean_str(k) for k in header_kinds()]))
    single, unit = line_continuation()
    L.append('/-- PATT_LINE_CONTINUATION: a backslash followed by one of these is deleted … -/')
    L.append('def lineContSingle : List Nat := %s' % lean_list(['0x%x' % c for c in single]))
    L.append('/-- … and a backslash followed by one of these pairs is deleted as a unit (tried first) -/')
    L.append('def lineContPairs : List (Nat × Nat) := %s\n' % lean_list(['(0x%x, 0x%x)' % p for p in unit]))
    cl, default, table = required_space_table()
    L.append('/-- `required_space` (compiled regex) evaluated on two-character strings: character classes by behaviour.')
    L.append('    Class %d is the default class (every code point in no listed range). -/' % default)
    L.append('def spaceDefaultClass : Nat := %d' % default)
    for i, v in enumerate(cl):
        rs = [] if i == default else ranges(v)
        # chunks keep each definition small
        L.append('def spaceClass%d : List (Nat × Nat) := %s' % (i, lean_list(['(0x%x, 0x%x)' % (a, b) for a, b in rs])))
    L.append('def spaceClasses : List (List (Nat × Nat)) := %s' % lean_list(['spaceClass%d' % i for i in range(len(cl))]))
    L.append('/-- spaceTable[i][j] = required_space.match(c1 + c2) for c1 in class i, c2 in class j -/')
    L.append('def spaceTable : List (List Bool) := %s\n' % lean_list(
        [lean_list(['true' if x else 'false' for x in row]) for row in table]))
    L.append('end CalmVerif.Gen.Rules\n')
    return {'CalmVerif/Gen/Rules.lean': '\n'.join(L)}
