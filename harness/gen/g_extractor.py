"""
Translator for the literal-related part of calmjs.parse.unparsers.extractor:
reflects the rule OBJECTS of `extractor(fold_ops).definitions` (class + attr/value
of every rule instance, recursively) for both `fold_ops` settings into
lean/CalmVerif/Gen/Extractor.lean.  Nothing is read from source text.

Emitted:
  Src / Rule           the rule vocabulary (fixed text; the interpreter is Model/Extract.lean)
  defsOff / defsOn     kind -> definition for the kinds in KINDS, fold_ops False / True
  layoutHandlers, deferrableHandlers
                       keys of the handler maps `Unparser.setup()` returns (the extractor is
                       built with rules=(), so both are expected to be empty; the model relies
                       on it: Structure markers are dropped, Resolve/Literal/Declare fall back to
                       the node attribute)
  subclasses           for every base class the extractor tests with isinstance/issubclass:
                       the asttypes class names that pass the test
  emptyValues          what ruletypes.is_empty treats as empty (probed)
  unarySpaceless       the operator set of UnaryOptionalSpace (probed)

A rule object, attribute value or definition shape not understood raises
TranslatorError (translator failure), it is never skipped.
"""
from gen.extract import lean_str, lean_list

KINDS = [
    'Array', 'Assign', 'Block', 'Boolean', 'ES5Program', 'Elision', 'EmptyStatement',
    'ExprStatement', 'FuncDecl', 'FuncExpr', 'GroupingOp', 'Identifier', 'Null', 'Number',
    'Object', 'PropIdentifier', 'Return', 'String', 'UnaryExpr', 'VarDecl', 'VarStatement',
]

BASES = ['Array', 'Assign', 'Boolean', 'Identifier', 'Null', 'Number', 'Object', 'String', 'UnaryExpr']


class TranslatorError(Exception):
    pass


def _plain(rule, what, allow_value=(None,), allow_pos=(0,)):
    """a rule whose `value`/`pos` must be at their defaults"""
    if rule.value not in allow_value or isinstance(rule.value, bool):
        raise TranslatorError('%s: unexpected value %r' % (what, rule.value))
    if rule.pos not in allow_pos:
        raise TranslatorError('%s: unexpected pos %r' % (what, rule.pos))


def _name(x, what):
    if type(x) is not str:
        raise TranslatorError('%s: expected an attribute name (str), got %r' % (what, x))
    return x


def src(attr, what):
    from calmjs.parse import ruletypes as R
    if type(attr) is str:
        return '(.name %s)' % lean_str(attr)
    t = type(attr)
    if t is R.Iter:
        return '.iter'
    if t is R.Literal:
        return '.literal'
    if t is R.Resolve:
        return '.resolve'
    if t is R.Declare:
        return '(.declare %s)' % lean_str(_name(attr.attr, what + '.Declare'))
    raise TranslatorError('%s: unknown attribute source %r' % (what, attr))


def rules(defn, what):
    if type(defn) is not tuple:
        raise TranslatorError('%s: definition is not a tuple: %r' % (what, defn))
    return lean_list([rule(r, '%s[%d]' % (what, i)) for i, r in enumerate(defn)])


def rule(r, what):
    from calmjs.parse import ruletypes as R
    from calmjs.parse.unparsers import extractor as E
    if isinstance(r, type):
        if issubclass(r, R.Structure):
            return '(.structure %s)' % lean_str(r.__name__)
        raise TranslatorError('%s: unexpected rule class %r' % (what, r))
    t = type(r)
    w = '%s:%s' % (what, t.__name__)
    if t is R.Attr:
        _plain(r, w)
        return '(.attr %s)' % src(r.attr, w)
    if t is R.JoinAttr:
        if r.pos != 0:
            raise TranslatorError('%s: pos %r' % (w, r.pos))
        sep = () if r.value is None else r.value
        return '(.joinAttr %s %s)' % (src(r.attr, w), rules(sep, w + '.value'))
    if t is R.Text:
        if r.attr is not None or type(r.value) is not str or r.pos != 0:
            raise TranslatorError('%s: unexpected shape attr=%r value=%r' % (w, r.attr, r.value))
        return '(.text %s)' % lean_str(r.value)
    if t is R.Optional:
        if r.pos != 0:
            raise TranslatorError('%s: pos %r' % (w, r.pos))
        return '(.optional %s %s)' % (lean_str(_name(r.attr, w)), rules(r.value, w + '.value'))
    if t is R.Operator:
        _plain(r, w)
        return '(.operatorAttr %s)' % lean_str(_name(r.attr, w))
    if t is E.TopLevelAttrs:
        _plain(r, w)
        if r.attr is not None:
            raise TranslatorError('%s: attr %r' % (w, r.attr))
        return '.topLevelAttrs'
    if t is E.AttrListAssignment:
        _plain(r, w)
        if type(r.attr) not in (list, tuple) or len(r.attr) != 2:
            raise TranslatorError('%s: attr %r' % (w, r.attr))
        return '(.attrListAssignment %s %s)' % (lean_str(_name(r.attr[0], w)), lean_str(_name(r.attr[1], w)))
    if t in (E.GroupAsMap, E.GroupAsList, E.GroupAsAssignment):
        _plain(r, w)
        ctor = {E.GroupAsMap: 'groupAsMap', E.GroupAsList: 'groupAsList',
                E.GroupAsAssignment: 'groupAsAssignment'}[t]
        return '(.%s %s)' % (ctor, rules(r.attr, w + '.attr'))
    if t is E.GroupAsStr:
        if r.pos != 0 or not (r.value is None or type(r.value) is str):
            raise TranslatorError('%s: value %r pos %r' % (w, r.value, r.pos))
        return '(.groupAsStr %s %s)' % (rules(r.attr, w + '.attr'), lean_str(r.value or ''))
    if t is E.LiteralEval:
        _plain(r, w)
        return '(.literalEval %s)' % src(r.attr, w)
    if t is E.RawBoolean:
        _plain(r, w)
        return '(.rawBoolean %s)' % lean_str(_name(r.attr, w))
    if t is E.Raw:
        if r.attr is not None or r.pos != 0 or r.value is not None:
            raise TranslatorError('%s: only Raw(value=None) is understood, got %r' % (w, r.value))
        return '.rawNone'
    if t is E.OpString:
        _plain(r, w)
        return '(.opString %s)' % lean_str(_name(r.attr, w))
    if t is E.UnaryOptionalSpace:
        _plain(r, w)
        if r.attr is not None:
            raise TranslatorError('%s: attr %r' % (w, r.attr))
        return '.unaryOptionalSpace'
    if t is E.AttrSink:
        _plain(r, w)
        return '(.attrSink %s)' % src(r.attr, w)
    if t is E.OpDisambiguate:
        if r.attr is not None or r.pos != 0 or type(r.value) is not dict:
            raise TranslatorError('%s: unexpected shape %r %r' % (w, r.attr, r.value))
        cases = []
        for k in sorted(k for k in r.value if k is not NotImplemented):
            cases.append('(.case %s %s)' % (lean_str(_name(k, w + ' key')), rules(r.value[k], '%s[%r]' % (w, k))))
        if NotImplemented in r.value:
            cases.append('(.caseDefault %s)' % rules(r.value[NotImplemented], w + '[NotImplemented]'))
        return '(.opDisambiguate %s)' % lean_list(cases)
    unary = {E.GroupAsUnaryExprPlus: 'unaryPlus', E.GroupAsUnaryExprMinus: 'unaryMinus',
             E.GroupAsUnaryExprBitwiseNot: 'unaryBitNot', E.GroupAsUnaryExprLogicalNot: 'unaryLogNot'}
    if t in unary:
        _plain(r, w)
        if r.attr is not None:
            raise TranslatorError('%s: attr %r' % (w, r.attr))
        probe_unary(t, unary[t])
        return '.' + unary[t]
    raise TranslatorError('%s: unknown rule type %r' % (what, t))


def probe_unary(cls, ctor):
    """the arithmetic of `op` is modelled by name; check it on probes so that a changed
    method body is a translator failure"""
    inst = cls()
    if ctor == 'unaryPlus':
        ok = [inst.op(v) for v in (5, -2.5, 0)] == [5, -2.5, 0]
    elif ctor == 'unaryMinus':
        import math
        ok = [inst.op(v) for v in (5, -2.5, 0)] == [-5, 2.5, 0] and type(inst.op(5)) is int \
            and math.copysign(1.0, inst.op(0.0)) == -1.0
    else:
        ok = True       # not interpreted by the model (explicit `unmodelled` outcome)
    if not ok:
        raise TranslatorError('%s.op does not behave as the model assumes' % cls.__name__)


def defs_of(fold):
    from calmjs.parse.unparsers import extractor as E
    up = E.extractor(fold_ops=fold)
    d = up.definitions
    if type(d) is not dict:
        raise TranslatorError('definitions is not a dict')
    rows = []
    for k in KINDS:
        if k not in d:
            raise TranslatorError('no definition for kind %s (fold_ops=%r)' % (k, fold))
        rows.append('(%s, %s)' % (lean_str(k), rules(d[k], '%s(fold=%r)' % (k, fold))))
    th, layout, deferrable, prewalk = up.setup()
    if th is not E.token_handler_extractor:
        raise TranslatorError('token handler is %r, the model assumes token_handler_extractor' % (th,))
    if prewalk:
        raise TranslatorError('prewalk hooks present: %r' % (prewalk,))
    return rows, sorted(k.__name__ for k in layout), sorted(k.__name__ for k in deferrable), up


def generate():
    from calmjs.parse import asttypes, ruletypes
    from calmjs.parse.unparsers import extractor as E
    from calmjs.parse.unparsers import walker

    off, lay0, dfr0, up0 = defs_of(False)
    on, lay1, dfr1, up1 = defs_of(True)
    if (lay0, dfr0) != (lay1, dfr1):
        raise TranslatorError('handler maps differ between fold_ops settings')
    if up0.dispatcher_cls is not walker.Dispatcher or up0.walk is not walker.walk:
        raise TranslatorError('extractor() does not use walker.Dispatcher / walker.walk')

    subs = []
    for b in BASES:
        base = getattr(asttypes, b)
        names = sorted(n for n, c in vars(asttypes).items()
                       if isinstance(c, type) and issubclass(c, asttypes.Node) and issubclass(c, base))
        subs.append('(%s, %s)' % (lean_str(b), lean_list([lean_str(n) for n in names])))

    probes = [('none', None), ('emptyList', []), ('emptyStr', ''), ('zero', 0), ('false', False)]
    empties = [n for n, v in probes if ruletypes.is_empty(v)]

    # UnaryOptionalSpace: probe the operator set through the rule itself
    class _D(object):
        @staticmethod
        def token(tok, node, value, sp):
            yield value
    spaceless = []
    for op in ['!', '+', '++', '-', '--', 'delete', 'typeof', 'void', '~']:
        n = asttypes.UnaryExpr(op, asttypes.Number('1'))
        got = list(E.UnaryOptionalSpace()(None, _D, n))
        if got == ['']:
            spaceless.append(op)
        elif got != [' ']:
            raise TranslatorError('UnaryOptionalSpace(%r) gave %r' % (op, got))

    out = []
    out.append('/- the extractor `definitions` (calmjs.parse.unparsers.extractor) of the literal-related node kinds -/')
    out.append('namespace CalmVerif.Gen.Extractor')
    out.append('')
    out.append('/-- where an Attr-like rule takes its value from: an attribute name or a Deferrable -/')
    out.append('inductive Src where')
    out.append('  | name (a : String) | iter | literal | resolve | declare (a : String)')
    out.append('  deriving Repr, DecidableEq')
    out.append('')
    out.append('/-- rule objects by class; tuple-valued arguments are `List Rule`.  `case`/`caseDefault` only occur')
    out.append('inside `opDisambiguate` (entries of its dict; keys sorted, the `NotImplemented` entry last). -/')
    out.append('inductive Rule where')
    out.append('  | attr (s : Src)')
    out.append('  | joinAttr (s : Src) (sep : List Rule)')
    out.append('  | text (v : String)')
    out.append('  | optional (a : String) (body : List Rule)')
    out.append('  | operatorAttr (a : String)')
    out.append('  | structure (cls : String)')
    out.append('  | topLevelAttrs')
    out.append('  | attrListAssignment (l r : String)')
    out.append('  | groupAsMap (rs : List Rule)')
    out.append('  | groupAsList (rs : List Rule)')
    out.append('  | groupAsAssignment (rs : List Rule)')
    out.append('  | groupAsStr (rs : List Rule) (joiner : String)')
    out.append('  | literalEval (s : Src)')
    out.append('  | rawBoolean (a : String)')
    out.append('  | rawNone')
    out.append('  | opString (a : String)')
    out.append('  | unaryOptionalSpace')
    out.append('  | attrSink (s : Src)')
    out.append('  | opDisambiguate (cases : List Rule)')
    out.append('  | case (op : String) (body : List Rule)')
    out.append('  | caseDefault (body : List Rule)')
    out.append('  | unaryPlus | unaryMinus | unaryBitNot | unaryLogNot')
    out.append('  deriving Repr')
    out.append('')
    out.append('/-- `extractor(fold_ops=False).definitions`, restricted to the kinds listed -/')
    out.append('def defsOff : List (String × List Rule) := [\n  ' + ',\n  '.join(off) + ']')
    out.append('')
    out.append('/-- `extractor(fold_ops=True).definitions`, restricted to the kinds listed -/')
    out.append('def defsOn : List (String × List Rule) := [\n  ' + ',\n  '.join(on) + ']')
    out.append('')
    out.append('/-- keys of the layout / deferrable handler maps of `Unparser.setup()` -/')
    out.append('def layoutHandlers : List String := ' + lean_list([lean_str(x) for x in lay0]))
    out.append('def deferrableHandlers : List String := ' + lean_list([lean_str(x) for x in dfr0]))
    out.append('')
    out.append('/-- base class ↦ names of the asttypes classes that are subclasses of it -/')
    out.append('def subclasses : List (String × List String) := [\n  ' + ',\n  '.join(subs) + ']')
    out.append('')
    out.append('/-- which of None, [], \'\', 0, False `ruletypes.is_empty` accepts -/')
    out.append('def emptyValues : List String := ' + lean_list([lean_str(x) for x in empties]))
    out.append('')
    out.append('/-- operators for which UnaryOptionalSpace yields the empty string -/')
    out.append('def unarySpaceless : List String := ' + lean_list([lean_str(x) for x in spaceless]))
    out.append('')
    out.append('end CalmVerif.Gen.Extractor')
    return {'CalmVerif/Gen/Extractor.lean': '\n'.join(out) + '\n'}
