"""
Translator: ply LALR tables and grammar of calmjs.parse.parsers.es5, in three configurations.

  Cached : tables loaded from the generated lextab/yacctab modules (lex/yacc optimize on; second construction)
  Fresh  : built in memory with lex_optimize = yacc_optimize = False
  Reopt  : after parsers.optimize.reoptimize(es5) purged and regenerated the modules

Encoding (all Nat, kernel friendly; one `List Nat` definition per row):
  symbols    terminal i (index in `terminals`, sorted, with "$end" and "error") -> i ; nonterminal j -> nT + j
  production p: lhs (nonterminal index), rhs (symbol codes), name of the p_ function
  action     row of state s = flattened [term, code, term, code, …] sorted by term;
             code: accept = 0, shift t = 3*t + 1, reduce by p = 3*p + 2
  goto       row of state s = flattened [nonterminal index, target state, …] sorted
  defaulted  flattened [state, production, …]
  lexer      per state: ordered list of (token type name, regex pattern) of ply's master regex list,
             t_ignore strings, and the token-type -> literal-spelling table for fixed-text rules
"""
import re

from gen.extract import lean_str, lean_list


def _rhs_of(p):
    if hasattr(p, 'prod'):
        return list(p.prod)
    s = p.str
    lhs, rhs = s.split('->', 1)
    rhs = rhs.split()
    if rhs == ['<empty>']:
        rhs = []
    return rhs


def term_spelling(term):
    import re
    from calmjs.parse.lexers.es5 import Lexer
    kw = {v: k for k, v in Lexer.keywords_dict.items()}
    if term in kw:
        return kw[term]
    if term == 'AUTOSEMI':
        return ';'
    if term in ('GETPROP', 'SETPROP'):
        return term[:3].lower()
    pat = getattr(Lexer, 't_' + term, None)
    if not isinstance(pat, str) or term in ('NUMBER', 'LINE_COMMENT', 'BLOCK_COMMENT', 'LINE_TERMINATOR'):
        return ''
    text = re.sub(r'\\(.)', r'\1', pat)
    if re.fullmatch(pat, text) and len(text) <= 4:
        return text
    return ''


def snapshot(parser_obj):
    lr = parser_obj.parser
    prods = []
    for p in lr.productions:
        prods.append((p.name, _rhs_of(p), getattr(p, 'func', None)))
    action = {s: dict(row) for s, row in lr.action.items()}
    goto = {s: dict(row) for s, row in lr.goto.items()}
    lx = parser_obj.lexer.lexer
    lexrules = {}
    for state, relist in lx.lexstatere.items():
        rules = []
        for cre, findex in relist:
            for f in findex:
                if f is None or f is False:
                    continue
                if f[1]:
                    rules.append(f[1])
                else:
                    rules.append('<ignore>')
        lexrules[state] = dict(types=rules, retext=list(lx.lexstateretext[state]),
                               ignore=lx.lexstateignore.get(state, ''))
    return dict(prods=prods, action=action, goto=goto, defaulted=dict(lr.defaulted_states), lex=lexrules)


def canon_symbols(snap):
    terms = set(['$end', 'error'])
    nonterms = set()
    for name, rhs, _ in snap['prods']:
        nonterms.add(name)
    for name, rhs, _ in snap['prods']:
        for s in rhs:
            if s not in nonterms:
                terms.add(s)
    for row in snap['action'].values():
        terms.update(row.keys())
    return sorted(terms), sorted(nonterms)


def emit(ns, snap, terms, nonterms):
    tix = {t: i for i, t in enumerate(terms)}
    nix = {n: i for i, n in enumerate(nonterms)}
    nT = len(terms)

    def sym(s):
        return tix[s] if s in tix else nT + nix[s]

    out = []
    w = out.append
    w('namespace CalmVerif.Gen.Tables.%s\n' % ns)
    w('def terminals : List String := %s' % lean_list([lean_str(t) for t in terms]))
    w('def nonterminals : List String := %s' % lean_list([lean_str(t) for t in nonterms]))
    w('def numTerminals : Nat := %d' % nT)
    w('/-- fixed spelling of a terminal (keywords, punctuators, AUTOSEMI); "" for ID/NUMBER/STRING/REGEX/$end/error/comments -/')
    w('def termSpelling : List String := %s' % lean_list([lean_str(term_spelling(t)) for t in terms]))
    prods = snap['prods']
    # productions in chunks
    CH = 50
    names = []
    for c in range(0, len(prods), CH):
        nm = 'prodsChunk%d' % (c // CH)
        names.append(nm)
        items = []
        for name, rhs, func in prods[c:c + CH]:
            lhs = nix[name] if name in nix else 0    # production 0 is S' -> program
            items.append('(%d, %s)' % (lhs, lean_list([str(sym(s)) for s in rhs])))
        w('def %s : List (Nat × List Nat) := %s' % (nm, lean_list(items)))
    w('def prods : List (Nat × List Nat) := %s' % ' ++ '.join(names))
    w('def prodFuncs : List String := %s' % lean_list([lean_str(f or '') for _, _, f in prods]))
    w('def prodLhsNames : List String := %s' % lean_list([lean_str(n) for n, _, _ in prods]))
    # the grammar as sorted text lines "lhs -> sym sym …" (order-insensitive comparison with Spec.Es5Grammar)
    glines = sorted('%s -> %s' % (n, ' '.join(rhs)) for n, rhs, _ in prods[1:])
    gch = []
    for c in range(0, len(glines), 60):
        nm = 'grammarChunk%d' % (c // 60)
        gch.append(nm)
        w('def %s : List String := %s' % (nm, lean_list([lean_str(x) for x in glines[c:c + 60]])))
    w('def grammarLines : List String := %s' % ' ++ '.join(gch))
    nstates = max(snap['action'].keys()) + 1
    assert sorted(snap['action'].keys()) == list(range(nstates)), 'action table has holes'
    for tbl, enc in (('action', None), ('goto', None)):
        rows = []
        for s in range(nstates):
            row = snap[tbl].get(s, {})
            flat = []
            if tbl == 'action':
                for t in sorted(row, key=lambda x: tix[x]):
                    a = row[t]
                    code = 0 if a == 0 else (3 * a + 1 if a > 0 else 3 * (-a) + 2)
                    flat += [tix[t], code]
            else:
                for n in sorted(row, key=lambda x: nix[x]):
                    flat += [nix[n], row[n]]
            w('def %s%d : List Nat := %s' % (tbl[0], s, lean_list([str(x) for x in flat])))
        chunks = []
        for c in range(0, nstates, CH):
            nm = '%sChunk%d' % (tbl, c // CH)
            chunks.append(nm)
            w('def %s : List (List Nat) := %s' % (nm, lean_list(['%s%d' % (tbl[0], s) for s in range(c, min(c + CH, nstates))])))
        w('def %s : List (List Nat) := %s' % (tbl, ' ++ '.join(chunks)))
    d = []
    for s in sorted(snap['defaulted']):
        d += [s, -snap['defaulted'][s]]
    w('def defaulted : List Nat := %s' % lean_list([str(x) for x in d]))
    w('def numStates : Nat := %d' % nstates)
    # lexer rule order
    for state in sorted(snap['lex']):
        L = snap['lex'][state]
        w('def lexTypes_%s : List String := %s' % (state, lean_list([lean_str(t) for t in L['types']])))
        w('def lexIgnore_%s : String := %s' % (state, lean_str(L['ignore'])))
    w('\nend CalmVerif.Gen.Tables.%s\n' % ns)
    return '\n'.join(out)


_cache = {}


def snapshots():
    if _cache:
        return _cache
    import importlib
    import os
    import sys
    from calmjs.parse.parsers import es5
    from calmjs.parse.parsers import optimize
    es5.Parser()                      # makes sure the generated modules exist
    cached = snapshot(es5.Parser())   # loaded from the generated modules
    fresh = snapshot(es5.Parser(lex_optimize=False, yacc_optimize=False))
    optimize.reoptimize(es5)
    for name in (es5.lextab, es5.yacctab):
        sys.modules.pop(name, None)
    importlib.invalidate_caches()
    reopt = snapshot(es5.Parser())
    _cache.update(Cached=cached, Fresh=fresh, Reopt=reopt)
    return _cache


def certificate(snap, terms, nonterms):
    """
    Certificate for Proofs/LRSound.tablesValid (checked by the Lean kernel, not trusted):
    cert[s] = a common suffix (truncated to the longest right-hand side) of the symbol strings of all
    paths from state 0 to s; acc = states having an accept action.
    """
    tix = {t: i for i, t in enumerate(terms)}
    nix = {n: i for i, n in enumerate(nonterms)}
    nT = len(terms)
    nstates = max(snap['action'].keys()) + 1
    edges = []
    for s, row in snap['action'].items():
        for t, a in row.items():
            if a > 0:
                edges.append((s, tix[t], a))
    for s, row in snap['goto'].items():
        for n, t in row.items():
            edges.append((s, nT + nix[n], t))
    L = max(len(rhs) for _, rhs, _ in snap['prods'])
    cert = {0: []}
    changed = True
    while changed:
        changed = False
        for q, x, s in edges:
            if q not in cert:
                continue
            cand = (cert[q] + [x])[-L:]
            if s == 0:
                raise ValueError('edge into state 0')
            if s not in cert:
                cert[s] = cand
                changed = True
            else:
                old = cert[s]
                k = 0
                while k < len(old) and k < len(cand) and old[-1 - k] == cand[-1 - k]:
                    k += 1
                new = old[len(old) - k:]
                if new != old:
                    cert[s] = new
                    changed = True
    acc = sorted(s for s, row in snap['action'].items() if 0 in row.values())
    return [cert.get(s, []) for s in range(nstates)], acc


def emit_cert(snap, terms, nonterms):
    cert, acc = certificate(snap, terms, nonterms)
    out = ['namespace CalmVerif.Gen.Tables.Cert\n']
    CH = 100
    names = []
    for c in range(0, len(cert), CH):
        nm = 'certChunk%d' % (c // CH)
        names.append(nm)
        out.append('def %s : List (List Nat) := %s' % (nm, lean_list([lean_list([str(x) for x in r]) for r in cert[c:c + CH]])))
    out.append('def cert : List (List Nat) := %s' % ' ++ '.join(names))
    out.append('def acc : List Nat := %s' % lean_list([str(x) for x in acc]))
    # nullable nonterminals (certificate; Lean checks the closure conditions it needs)
    nonterms_set = set(nonterms)
    nullable = set()
    changed = True
    while changed:
        changed = False
        for name, rhs, _ in snap['prods'][1:]:
            if name not in nullable and all(x in nullable for x in rhs):
                nullable.add(name)
                changed = True
    out.append('def nullable : List Nat := %s' % lean_list([str(nonterms.index(n)) for n in sorted(nullable)]))
    out.append('\nend CalmVerif.Gen.Tables.Cert\n')
    return '\n'.join(out)


def item_certificate(snap, terms, nonterms):
    """
    Certificate for Proofs/LRTotal.driverTotal (checked by the Lean kernel, not trusted): the LR(0) item sets of the
    states, recomputed here from the grammar by following the transitions of the tables from state 0.
      kitems[s] : kernel items of s as quadruples (p, d, lhs, len) with 1 <= d <= len = |rhs(p)|
      need[s]   : nonterminals A having a closure item A -> . alpha in s (so goto[s][A] must exist)
      eps       : the empty productions as pairs (p, lhs)
    """
    prods = snap['prods']
    nix = {n: i for i, n in enumerate(nonterms)}
    ntset = set(nonterms)
    by_lhs = {}
    for pi, (name, rhs, _) in enumerate(prods):
        by_lhs.setdefault(name, []).append(pi)

    def closure(kernel):
        items = set(kernel)
        work = list(kernel)
        while work:
            p, d = work.pop()
            rhs = prods[p][1]
            if d < len(rhs) and rhs[d] in ntset:
                for p2 in by_lhs.get(rhs[d], ()):
                    if (p2, 0) not in items:
                        items.add((p2, 0))
                        work.append((p2, 0))
        return items

    nstates = max(snap['action'].keys()) + 1
    trans = {}
    for s, row in snap['action'].items():
        for t, a in row.items():
            if a > 0:
                trans.setdefault(s, []).append((t, a))
    for s, row in snap['goto'].items():
        for n, t in row.items():
            trans.setdefault(s, []).append((n, t))
    kern = {0: set([(0, 0)])}
    items = {}
    queue = [0]
    while queue:
        q = queue.pop()
        I = closure(kern[q])
        items[q] = I
        for sym, s2 in trans.get(q, ()):
            k = set((p, d + 1) for (p, d) in I if d < len(prods[p][1]) and prods[p][1][d] == sym)
            if s2 not in kern:
                kern[s2] = k
                queue.append(s2)
            elif not k <= kern[s2]:
                kern[s2] |= k
                queue.append(s2)
    kitems, need = [], []
    for s in range(nstates):
        ks = sorted((p, d) for (p, d) in kern.get(s, ()) if d >= 1 and p != 0)
        kitems.append([(p, d, nix[prods[p][0]], len(prods[p][1])) for p, d in ks])
        need.append(sorted(set(nix[prods[p][0]] for (p, d) in items.get(s, ()) if d == 0 and p != 0)))
    eps = [(pi, nix[name]) for pi, (name, rhs, _) in enumerate(prods) if not rhs]
    return kitems, need, eps


def emit_items(snap, terms, nonterms):
    kitems, need, eps = item_certificate(snap, terms, nonterms)
    out = ['namespace CalmVerif.Gen.Tables.Items\n']
    CH = 25
    out.append('def chunk : Nat := %d' % CH)

    def flat(rows):
        return lean_list([lean_list([str(x) for x in r]) for r in rows])
    kflat = [[x for it in row for x in it] for row in kitems]
    for nm, rows in (('kitems', kflat), ('need', need)):
        names = []
        for c in range(0, len(rows), CH):
            cn = '%sChunk%d' % (nm, c // CH)
            names.append(cn)
            out.append('def %s : List (List Nat) := %s' % (cn, flat(rows[c:c + CH])))
        out.append('def %s : List (List (List Nat)) := %s' % (nm, lean_list(names)))
    out.append('def eps : List Nat := %s' % lean_list([str(x) for pr in eps for x in pr]))
    out.append('\nend CalmVerif.Gen.Tables.Items\n')
    return '\n'.join(out)


def rank_certificate(snap, terms, nonterms):
    """
    Certificate for Proofs/LRTermRank.ranksOK and Proofs/LRTermAuto.autoOK (checked by the Lean kernel, not trusted):
    ranks bounding the number of reductions the driver can make per shifted token, and the sets showing that two
    AUTOSEMI tokens are never shifted in a row.  Productions are taken exactly as `emit` encodes them.
      ne[A]    0 = A not nullable; e+1 = A nullable and e = the largest number of internal nodes of a derivation tree
               of A with empty yield (fixpoint over the all-nullable productions)
      nulls    the nullable nonterminal indices
      d[A]     unit rank: longest weighted chain of unit-like steps B -> .. A .. (all other symbols nullable) ending
               in A, each step weighing 1 + the e's of the other symbols
      K        max over productions of d(lhs) + 1 + sum of e over the nullable rhs symbols
      r[s]     length of the longest chain of goto transitions on nullable nonterminals leaving state s
      zl       nonterminals that may derive a string ending in AUTOSEMI
      al       states that may be on top of the stack while the most recently shifted token is an AUTOSEMI
    If the grammar has a cycle among its nullable / unit-like productions, or the tables a cycle of nullable goto
    transitions, no such ranks exist: the affected ranks are emitted as 0 with a `notes` entry and the Lean check
    fails (a broken obligation of C12, not a translator failure of every property that uses the tables).
    """
    tix = {t: i for i, t in enumerate(terms)}
    nix = {n: i for i, n in enumerate(nonterms)}
    nT = len(terms)
    notes = []

    def sym(s):
        return tix[s] if s in tix else nT + nix[s]
    prods = [((nix[name] if name in nix else 0), [sym(s) for s in rhs]) for name, rhs, _ in snap['prods']]
    nullable = set()
    changed = True
    while changed:
        changed = False
        for a, rhs in prods:
            if a not in nullable and all(x >= nT and (x - nT) in nullable for x in rhs):
                nullable.add(a)
                changed = True

    def is_null(x):
        return x >= nT and (x - nT) in nullable

    def longest(nodes, succ, what):
        """longest weighted path leaving each node of a DAG; succ(n) -> [(m, w)]; None if there is a cycle"""
        order, state = [], {}
        for root in nodes:
            if root in state:
                continue
            state[root] = 1
            stack = [(root, iter(succ(root)))]
            while stack:
                n, it = stack[-1]
                for m, _ in it:
                    if state.get(m) == 1:
                        notes.append('cycle in %s: no ranks exist' % what)
                        return None
                    if m not in state:
                        state[m] = 1
                        stack.append((m, iter(succ(m))))
                        break
                else:
                    state[n] = 2
                    order.append(n)
                    stack.pop()
        val = {}
        for n in order:     # post-order: successors first
            val[n] = max([0] + [val[m] + w for m, w in succ(n)])
        return val

    # e: an all-nullable production A -> X1..Xk is one hyper-edge; e(A) = max (1 + sum e(Xi)); fixpoint over the
    # (small) set of nullable nonterminals, bounded by their number (a longer chain means a cycle)
    e = {a: 0 for a in nullable}
    for _ in range(len(nullable) + 2):
        changed = False
        for a, rhs in prods:
            if all(is_null(x) for x in rhs):
                v = 1 + sum(e[x - nT] for x in rhs)
                if v > e[a]:
                    e[a] = v
                    changed = True
        if not changed:
            break
    else:
        notes.append('cycle among the all-nullable productions: no ranks exist')
        e = {a: 0 for a in nullable}

    def e_of(x):
        return e[x - nT] if is_null(x) else 0
    # d: edges X -> A (A's rank must be below X's)
    up = {}
    for a, rhs in prods:
        for j, x in enumerate(rhs):
            if x >= nT and all(is_null(rhs[i]) for i in range(len(rhs)) if i != j):
                w = 1 + sum(e_of(rhs[i]) for i in range(len(rhs)) if i != j)
                up.setdefault(x - nT, []).append((a, w))
    d = longest(range(len(nonterms)), lambda n: up.get(n, ()), 'the unit-like productions')
    if d is None:
        d = {a: 0 for a in range(len(nonterms))}
    K = max(d[a] + 1 + sum(e_of(x) for x in rhs) for a, rhs in prods)
    K = max([K] + list(d.values()))
    nstates = max(snap['action'].keys()) + 1
    ng = {}
    for q, row in snap['goto'].items():
        for n, s in row.items():
            if nix[n] in nullable:
                ng.setdefault(q, []).append((s, 1))
    r = longest(range(nstates), lambda q: ng.get(q, ()), 'the goto transitions on nullable nonterminals')
    if r is None:
        r = {s: 0 for s in range(nstates)}
    # AUTOSEMI
    auto = tix.get('AUTOSEMI')
    zl = set()

    def ends_z(rhs):
        for x in reversed(rhs):
            if x == auto or (x >= nT and (x - nT) in zl):
                return True
            if not is_null(x):
                return False
        return False
    changed = True
    while changed:
        changed = False
        for a, rhs in prods:
            if a not in zl and ends_z(rhs):
                zl.add(a)
                changed = True
    al = set()
    for q, row in snap['action'].items():
        if row.get('AUTOSEMI', 0) > 0:
            al.add(row['AUTOSEMI'])
    for q, row in snap['goto'].items():
        for n, s in row.items():
            if nix[n] in zl:
                al.add(s)
    changed = True
    while changed:
        changed = False
        for q, row in snap['goto'].items():
            if q in al:
                for n, s in row.items():
                    if nix[n] in nullable and s not in al:
                        al.add(s)
                        changed = True
    ne = [(e[a] + 1 if a in nullable else 0) for a in range(len(nonterms))]
    return dict(ne=ne, nulls=sorted(nullable), d=[d[a] for a in range(len(nonterms))], K=K,
                Emax=max([0] + list(e.values())), r=[r[s] for s in range(nstates)],
                Rmax=max([0] + list(r.values())), zl=sorted(zl), al=sorted(al), notes=notes)


def emit_ranks(snap, terms, nonterms):
    c = rank_certificate(snap, terms, nonterms)
    out = ['namespace CalmVerif.Gen.Tables.Ranks\n']
    CH = 25

    def nats(xs):
        return lean_list([str(x) for x in xs])
    for note in c['notes']:
        out.append('-- NOTE (translator): %s' % note)
    out.append('def ne : List Nat := %s' % nats(c['ne']))
    out.append('def nulls : List Nat := %s' % nats(c['nulls']))
    out.append('def d : List Nat := %s' % nats(c['d']))
    out.append('def K : Nat := %d' % c['K'])
    out.append('def Emax : Nat := %d' % c['Emax'])
    out.append('def chunk : Nat := %d' % CH)
    out.append('def r : List (List Nat) := %s' % lean_list([nats(c['r'][i:i + CH]) for i in range(0, len(c['r']), CH)]))
    out.append('def Rmax : Nat := %d' % c['Rmax'])
    out.append('def zl : List Nat := %s' % nats(c['zl']))
    out.append('def al : List Nat := %s' % nats(c['al']))
    out.append('\nend CalmVerif.Gen.Tables.Ranks\n')
    return '\n'.join(out)


def generate():
    snaps = snapshots()
    terms, nonterms = canon_symbols(snaps['Cached'])
    for k in ('Fresh', 'Reopt'):
        t2, n2 = canon_symbols(snaps[k])
        terms = sorted(set(terms) | set(t2))
        nonterms = sorted(set(nonterms) | set(n2))
    out = {}
    for ns in ('Cached', 'Fresh', 'Reopt'):
        out['CalmVerif/Gen/Tables/%s.lean' % ns] = emit(ns, snaps[ns], terms, nonterms)
    out['CalmVerif/Gen/Tables/Cert.lean'] = emit_cert(snaps['Cached'], terms, nonterms)
    out['CalmVerif/Gen/Tables/Items.lean'] = emit_items(snaps['Cached'], terms, nonterms)
    out['CalmVerif/Gen/Tables/Ranks.lean'] = emit_ranks(snaps['Cached'], terms, nonterms)
    return out
