"""MANIFEST.setup_cmd: regenerate Gen/ from /repo's working tree and build every Lean target offline."""
import importlib
import os
import subprocess
import sys

HERE = os.path.dirname(os.path.abspath(__file__))
sys.path.insert(0, HERE)
import boot
import framework
from gen import extract


def main():
    boot.boot()
    gens, props, drivers = [], [], []
    import json
    manifest = json.load(open(os.path.join(boot.VERIF, 'MANIFEST.json')))
    claimed = sorted(c['property_id'] for c in manifest['checks'])
    for pid in claimed:
        if True:
            mod = importlib.import_module('checks.' + pid)
            for g in mod.SPEC.get('gen', []):
                if g not in gens:
                    gens.append(g)
            for p in mod.SPEC.get('props', []):
                if p not in props:
                    props.append(p)
            for d in mod.SPEC.get('drivers', []):
                if d not in drivers:
                    drivers.append(d)
    with framework.lean_lock():
        changed = extract.run(gens)
        print('translator: regenerated %s' % (changed or 'nothing'))
        ok, out, failed = framework.lake_build(drivers + props, timeout=3400)
        print(out[-3000:])
        if not ok:
            print('setup: lake build failed for %s' % failed)
            return 1
    return 0


if __name__ == '__main__':
    sys.exit(main())
