"""Wire format shared with lean/CalmVerif/Util/{Proto,Val}.lean."""


def _plain(c):
    return ('a' <= c <= 'z') or ('A' <= c <= 'Z') or ('0' <= c <= '9') or c == '_'


def enc_str(s):
    return "'" + ''.join(c if _plain(c) else '%%%x;' % ord(c) for c in s)


def dec_str(tok):
    assert tok[:1] == "'", tok
    out = []
    i = 1
    n = len(tok)
    while i < n:
        c = tok[i]
        if c == '%':
            j = tok.index(';', i)
            out.append(chr(int(tok[i + 1:j], 16)))
            i = j + 1
        else:
            out.append(c)
            i += 1
    return ''.join(out)


class Node(object):
    """Generic node value: kind + ordered attrs."""
    __slots__ = ('kind', 'attrs')

    def __init__(self, kind, attrs):
        self.kind = kind
        self.attrs = attrs      # list of (name, value)

    def __eq__(self, o):
        return isinstance(o, Node) and self.kind == o.kind and self.attrs == o.attrs

    def __repr__(self):
        return 'Node(%r, %r)' % (self.kind, self.attrs)

    def get(self, name, default=None):
        for k, v in self.attrs:
            if k == name:
                return v
        return default


def val_toks(v, out):
    if v is None:
        out.append('N')
    elif v is True:
        out.append('T')
    elif v is False:
        out.append('F')
    elif isinstance(v, int):
        out.append('I%d' % v)
    elif isinstance(v, str):
        out.append(enc_str(v))
    elif isinstance(v, (list, tuple)):
        out.append('[')
        for x in v:
            val_toks(x, out)
        out.append(']')
    elif isinstance(v, Node):
        out.append('(')
        out.append(v.kind)
        for k, x in v.attrs:
            out.append(k)
            val_toks(x, out)
        out.append(')')
    else:
        raise TypeError('cannot encode %r' % (v,))
    return out


def render(v):
    return ' '.join(val_toks(v, []))


def parse_toks(ts, i=0):
    t = ts[i]
    if t == 'N':
        return None, i + 1
    if t == 'T':
        return True, i + 1
    if t == 'F':
        return False, i + 1
    if t == '[':
        i += 1
        xs = []
        while ts[i] != ']':
            v, i = parse_toks(ts, i)
            xs.append(v)
        return xs, i + 1
    if t == '(':
        kind = ts[i + 1]
        i += 2
        attrs = []
        while ts[i] != ')':
            name = ts[i]
            v, i = parse_toks(ts, i + 1)
            attrs.append((name, v))
        return Node(kind, attrs), i + 1
    if t[0] == 'I':
        return int(t[1:]), i + 1
    if t[0] == "'":
        return dec_str(t), i + 1
    raise ValueError('bad token %r' % t)


def parse(line):
    ts = line.split()
    v, i = parse_toks(ts)
    assert i == len(ts), (i, len(ts))
    return v


def strip_meta(v):
    if isinstance(v, list):
        return [strip_meta(x) for x in v]
    if isinstance(v, Node):
        return Node(v.kind, [(k, strip_meta(x)) for k, x in v.attrs if not k.startswith('@')])
    return v
