import json
import os

HERE = os.path.dirname(os.path.abspath(__file__))
CORPUS = os.path.join(os.path.dirname(HERE), 'corpus')

_g1 = None


def g1():
    global _g1
    if _g1 is None:
        _g1 = json.load(open(os.path.join(CORPUS, 'g1.json')))
    return _g1


def g1_valid():
    return [e['text'] for e in g1()['valid']]


def g1_invalid():
    return [e['text'] for e in g1()['invalid']]


def extra(name):
    """corpus/<name>.json: list of past disagreements / witnesses (run first)"""
    p = os.path.join(CORPUS, name + '.json')
    if os.path.exists(p):
        return json.load(open(p))
    return []
