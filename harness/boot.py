"""
Import calmjs.parse from /repo's *working tree* (never from site-packages).

/venv has an installed copy of calmjs.parse which shadows /repo/src through the
`calmjs` namespace .pth.  `boot()` copies /repo/src to a scratch directory
outside /repo and /verif (ply writes lextab/yacctab next to parsers/es5.py, so
importing in place would dirty /repo), rebinds calmjs.__path__ to the copy
before the first import and removes the copy at exit.
"""
import atexit
import os
import shutil
import sys
import tempfile

REPO = os.environ.get('VERIF_REPO', '/repo')
VERIF = os.path.dirname(os.path.dirname(os.path.abspath(__file__)))
GUARD = 'CALMJS_PARSE_VERIF'

_scratch = None


def scratch_root():
    base = os.environ.get('VERIF_SCRATCH_BASE') or tempfile.gettempdir()
    return base


def boot(keep=False):
    """Returns the path of the scratch copy of /repo/src."""
    global _scratch
    if _scratch:
        return _scratch
    os.environ.setdefault(GUARD, '1')
    d = tempfile.mkdtemp(prefix='calmverif-src-', dir=scratch_root())
    dst = os.path.join(d, 'src')
    shutil.copytree(
        os.path.join(REPO, 'src'), dst,
        ignore=shutil.ignore_patterns('__pycache__', '*.pyc', 'lextab_*', 'yacctab_*'))
    if not keep:
        atexit.register(shutil.rmtree, d, True)
    import calmjs
    calmjs.__path__ = [os.path.join(dst, 'calmjs')] + [
        p for p in list(calmjs.__path__) if 'site-packages' in p]
    # the site-packages entry stays for calmjs.* siblings, but calmjs.parse
    # must come from the copy: it is first on the path.
    for k in [k for k in sys.modules if k == 'calmjs.parse' or k.startswith('calmjs.parse.')]:
        del sys.modules[k]
    import calmjs.parse
    assert calmjs.parse.__file__.startswith(dst), calmjs.parse.__file__
    _scratch = dst
    return dst


def scratch_dir():
    return os.path.dirname(boot())
